(* The forest index bijection (C03): for every sppf value, Forest::solutions is
   the number of trees, get_tree(i).build() is the i-th tree of the
   enumeration for i < solutions and None beyond, iteration yields exactly the
   enumeration, none of the partial operations panics or runs out of fuel, and
   the enumeration has no duplicates when no possibility list contains two
   possibilities denoting the same tree. *)
From RV Require Import Model.Forest Proofs.Enumerate.

Section sppf_ind'.
  Variable P : sppf -> Prop.
  Hypothesis HT : forall k, P (STerm k).
  Hypothesis HE : P SEmpty.
  Hypothesis HN : forall p cs, Forall (Forall P) cs -> P (SNonTerm p cs).
  Fixpoint sppf_ind' (t : sppf) : P t :=
    match t with
    | STerm k => HT k
    | SEmpty => HE
    | SNonTerm p cs =>
        HN p cs ((fix go (l : list (list sppf)) : Forall (Forall P) l :=
                    match l with
                    | [] => Forall_nil _
                    | ps :: rest =>
                        Forall_cons ps
                          ((fix go2 (l2 : list sppf) : Forall P l2 :=
                              match l2 with
                              | [] => Forall_nil _
                              | x :: xs => Forall_cons x (sppf_ind' x) (go2 xs)
                              end) ps) (go rest)
                    end) cs)
    end.
End sppf_ind'.

(* ------------------------------------------------------------------ *)
(* lists *)
Lemma flat_map_length' {A B} (f : A -> list B) l :
  length (flat_map f l) = list_sum (map (fun x => length (f x)) l).
Proof. induction l as [|a l IH]; simpl; [reflexivity|]. rewrite app_length, IH. reflexivity. Qed.

Lemma cart_length {A} : forall ls : list (list A), length (cart ls) = list_prod (map (@length A) ls).
Proof.
  induction ls as [|l rest IH]; [reflexivity|].
  cbn [cart map list_prod fold_right]. rewrite flat_map_length'.
  fold (list_prod (map (@length A) rest)). rewrite <- IH.
  induction l as [|x l IHl]; simpl; [reflexivity|]. rewrite map_length, IHl. reflexivity.
Qed.

Lemma nth_error_flat_map_uniform {A B} (f : A -> list B) n :
  0 < n -> (forall x, length (f x) = n) ->
  forall l i, nth_error (flat_map f l) i =
              match nth_error l (i / n) with
              | Some x => nth_error (f x) (i mod n)
              | None => None
              end.
Proof.
  intros Hn Hf. induction l as [|a l IH]; intros i.
  - simpl. destruct i; destruct (_ / n); reflexivity.
  - cbn [flat_map]. destruct (Nat.lt_ge_cases i n) as [Hlt|Hge].
    + rewrite nth_error_app1 by (rewrite Hf; exact Hlt).
      rewrite Nat.div_small, Nat.mod_small by exact Hlt. reflexivity.
    + assert (Hi : exists k, i = k + 1 * n) by (exists (i - n); lia). destruct Hi as [k ->].
      rewrite nth_error_app2 by (rewrite Hf; lia). rewrite Hf.
      replace (k + 1 * n - n) with k by lia. rewrite IH.
      rewrite Nat.div_add, Nat.mod_add by lia.
      replace (k / n + 1) with (S (k / n)) by lia. reflexivity.
Qed.

Lemma cart_cons_nth {A} (l : list A) rest i :
  nth_error (cart (l :: rest)) i =
  match length (cart rest) with
  | 0 => None
  | n =>
      match nth_error l (i / n), nth_error (cart rest) (i mod n) with
      | Some x, Some xs => Some (x :: xs)
      | _, _ => None
      end
  end.
Proof.
  cbn [cart]. destruct (length (cart rest)) as [|n'] eqn:Hn.
  - destruct (cart rest); [|discriminate]. rewrite flat_map_cons_nil. destruct i; reflexivity.
  - rewrite (nth_error_flat_map_uniform _ (S n')); [|lia|intros; rewrite map_length; exact Hn].
    destruct (nth_error l (i / S n')) as [x|]; [|reflexivity].
    destruct (nth_error (cart rest) (i mod S n')) as [xs|] eqn:Hx.
    + apply map_nth_error. exact Hx.
    + apply nth_error_None. rewrite map_length. apply nth_error_None. exact Hx.
Qed.

Lemma firstn_length_app {A} (l r : list A) : firstn (length l) (l ++ r) = l.
Proof. induction l; simpl; [destruct r; reflexivity|f_equal; assumption]. Qed.

Lemma skipn_length_app {A} (l r : list A) : skipn (length l) (l ++ r) = r.
Proof. induction l; simpl; auto. Qed.

Lemma Forall2_len {A B} (R : A -> B -> Prop) l1 l2 : Forall2 R l1 l2 -> length l1 = length l2.
Proof. induction 1; simpl; congruence. Qed.

Lemma skipn_nth_error {A} : forall (l : list A) k x, nth_error l k = Some x -> skipn k l = x :: skipn (S k) l.
Proof.
  induction l as [|a l IH]; intros [|k] x H; simpl in *; try discriminate.
  - inversion H; reflexivity.
  - apply IH. exact H.
Qed.

(* ------------------------------------------------------------------ *)
(* solutions = number of trees *)
Lemma solutions_nonterm p cs : solutions (SNonTerm p cs) = list_prod (map parent_solutions cs).
Proof. reflexivity. Qed.

Lemma enum_nonterm p cs : enum (SNonTerm p cs) = map (Node p) (cart (map enum_parent cs)).
Proof. reflexivity. Qed.

Lemma enum_length : forall t, length (enum t) = solutions t.
Proof.
  induction t as [k| |p cs IH] using sppf_ind'; [reflexivity|reflexivity|].
  rewrite enum_nonterm, solutions_nonterm, map_length, cart_length, map_map. f_equal.
  apply map_ext_in. intros ps Hps. rewrite Forall_forall in IH. specialize (IH ps Hps).
  unfold enum_parent, parent_solutions. rewrite flat_map_length'. f_equal.
  apply map_ext_in. rewrite Forall_forall in IH. exact IH.
Qed.

Lemma enum_parent_length ps : length (enum_parent ps) = parent_solutions ps.
Proof.
  unfold enum_parent, parent_solutions. rewrite flat_map_length'. f_equal.
  apply map_ext. intros. apply enum_length.
Qed.

Lemma enum_forest_length (F : forest) : length (enum_forest F) = forest_solutions F.
Proof. apply enum_parent_length. Qed.

(* ------------------------------------------------------------------ *)
(* find_tree_root *)
Lemma find_tree_root_some : forall ps i x, nth_error (enum_parent ps) i = Some x ->
  exists r j, find_tree_root ps i = Some (r, j) /\ In r ps /\ nth_error (enum r) j = Some x.
Proof.
  induction ps as [|r rest IH]; intros i x H.
  - destruct i; discriminate.
  - unfold enum_parent in H. cbn [flat_map] in H. cbn [find_tree_root].
    destruct (solutions r <=? i) eqn:Hc.
    + apply Nat.leb_le in Hc. rewrite nth_error_app2 in H by (rewrite enum_length; exact Hc).
      rewrite enum_length in H. destruct (IH _ _ H) as [r' [j [Hf [Hin Hn]]]].
      exists r', j. split; [exact Hf|]. split; [right; exact Hin|exact Hn].
    + apply Nat.leb_gt in Hc. rewrite nth_error_app1 in H by (rewrite enum_length; exact Hc).
      exists r, i. split; [reflexivity|]. split; [left; reflexivity|exact H].
Qed.

Lemma find_tree_root_none : forall ps i, nth_error (enum_parent ps) i = None ->
  find_tree_root ps i = None.
Proof.
  induction ps as [|r rest IH]; intros i H; [reflexivity|].
  unfold enum_parent in H. cbn [flat_map] in H. cbn [find_tree_root].
  apply nth_error_None in H. rewrite app_length, enum_length in H.
  destruct (solutions r <=? i) eqn:Hc.
  - apply IH. apply nth_error_None. fold (enum_parent rest) in H. lia.
  - apply Nat.leb_gt in Hc. lia.
Qed.

(* ------------------------------------------------------------------ *)
(* Tree::children decodes the index in the mixed radix of the cartesian product *)
Definition picks (ch : sppf * nat) (x : tree) : Prop := nth_error (enum (fst ch)) (snd ch) = Some x.

Lemma children_go_spec : forall cs i xs,
  nth_error (cart (map enum_parent cs)) i = Some xs ->
  exists chs, children_go cs i = FDone chs /\ Forall2 picks chs xs /\
              Forall2 (fun ch ps => In (fst ch) ps) chs cs.
Proof.
  induction cs as [|c rest IH]; intros i xs H.
  - simpl in H. destruct i as [|i]; [|destruct i; discriminate]. inversion H; subst.
    exists []. repeat split; constructor.
  - cbn [map] in H. rewrite cart_cons_nth in H. cbn [children_go].
    assert (Hfac : list_prod (map parent_solutions rest) = length (cart (map enum_parent rest))).
    { rewrite cart_length, map_map. f_equal. apply map_ext. intros. symmetry. apply enum_parent_length. }
    rewrite Hfac. destruct (length (cart (map enum_parent rest))) as [|n'] eqn:Hn; [discriminate|].
    cbn [Nat.eqb]. cbv iota beta zeta in H.
    destruct (nth_error (enum_parent c) (i / S n')) as [x|] eqn:Hx; [|discriminate].
    destruct (nth_error (cart (map enum_parent rest)) (i mod S n')) as [xs'|] eqn:Hxs; [|discriminate].
    inversion H; subst.
    destruct (find_tree_root_some _ _ _ Hx) as [r [j [Hf [Hin Hnj]]]]. rewrite Hf.
    destruct (IH _ _ Hxs) as [chs [Hc [Hp Hi]]]. rewrite Hc.
    exists ((r, j) :: chs). split; [reflexivity|]. split; constructor; auto.
Qed.

(* ------------------------------------------------------------------ *)
(* Tree::build *)
Lemma depth_child p cs ps r : In ps cs -> In r ps -> S (depth r) <= depth (SNonTerm p cs).
Proof.
  intros Hps Hr. cbn [depth]. apply le_n_S.
  assert (H1 : depth r <= list_max (map depth ps)).
  { assert (Hf := proj1 (list_max_le (map depth ps) (list_max (map depth ps))) (le_n _)).
    rewrite Forall_forall in Hf. apply Hf. apply in_map. exact Hr. }
  assert (H2 : list_max (map depth ps) <= list_max (map (fun ps => list_max (map depth ps)) cs)).
  { assert (Hf := proj1 (list_max_le (map (fun ps => list_max (map depth ps)) cs) _) (le_n _)).
    rewrite Forall_forall in Hf. apply Hf. apply (in_map (fun ps => list_max (map depth ps))). exact Hps. }
  lia.
Qed.

Lemma depth_pos t : 1 <= depth t.
Proof. destruct t; simpl; lia. Qed.

Lemma fold_build_spec (bi : sppf -> nat -> list tree -> fres (list tree)) : forall chs xs,
  Forall2 picks chs xs ->
  (forall c j x st, In (c, j) chs -> nth_error (enum c) j = Some x -> bi c j st = FDone (x :: st)) ->
  forall st, fold_build bi chs st = FDone (rev xs ++ st).
Proof.
  induction 1 as [|[c j] x chs xs Hp _ IH]; intros Hbi st; [reflexivity|].
  cbn [fold_build]. rewrite (Hbi c j x st (or_introl eq_refl) Hp).
  rewrite IH by (intros c' j' x' st' Hin; apply Hbi; right; exact Hin).
  cbn [rev]. rewrite <- app_assoc. reflexivity.
Qed.

Lemma build_inner_spec : forall fuel t i x st,
  depth t <= fuel -> nth_error (enum t) i = Some x -> build_inner fuel t i st = FDone (x :: st).
Proof.
  induction fuel as [|f IH]; intros t i x st Hd Hn.
  - pose proof (depth_pos t). lia.
  - destruct t as [k|p cs|].
    + simpl in Hn. destruct i as [|i]; [|destruct i; discriminate]. inversion Hn; reflexivity.
    + rewrite enum_nonterm in Hn.
      destruct (nth_error (cart (map enum_parent cs)) i) as [xs|] eqn:Hxs.
      2:{ apply nth_error_None in Hxs. assert (Hnone : nth_error (map (Node p) (cart (map enum_parent cs))) i = None)
            by (apply nth_error_None; rewrite map_length; exact Hxs). congruence. }
      rewrite (map_nth_error (Node p) _ _ Hxs) in Hn. inversion Hn; subst x.
      destruct (children_go_spec _ _ _ Hxs) as [chs [Hc [Hp Hi]]].
      cbn [build_inner children]. rewrite Hc.
      rewrite (fold_build_spec (build_inner f) chs xs Hp).
      * unfold reduce_action. rewrite (Forall2_len _ _ _ Hp).
        replace (length xs) with (length (rev xs)) by apply rev_length.
        rewrite firstn_length_app, skipn_length_app, rev_involutive.
        rewrite app_length. destruct (_ <? _) eqn:Hlt; [apply Nat.ltb_lt in Hlt; lia|reflexivity].
      * intros c j x' st' Hin Hx'. apply IH; [|exact Hx'].
        assert (Hex : exists ps, In ps cs /\ In c ps).
        { clear - Hi Hin. induction Hi as [|ch ps chs' cs' Hh _ IHi]; [destruct Hin|].
          destruct Hin as [He|Hin].
          - subst ch. exists ps. split; [left; reflexivity|exact Hh].
          - destruct (IHi Hin) as [ps' [H1 H2]]. exists ps'. split; [right; exact H1|exact H2]. }
        destruct Hex as [ps [Hps Hcps]]. pose proof (depth_child p cs ps c Hps Hcps). lia.
    + destruct i; discriminate.
Qed.

Lemma build_spec fuel t i x :
  depth t <= fuel -> nth_error (enum t) i = Some x -> build fuel t i = FDone x.
Proof. intros Hd Hn. unfold build. rewrite (build_inner_spec fuel t i x [] Hd Hn). reflexivity. Qed.

(* ------------------------------------------------------------------ *)
(* Forest::get_tree / iteration *)
Lemma tree_at_enum (F : forest) i :
  tree_at F i = match nth_error (enum_forest F) i with Some x => Some (FDone x) | None => None end.
Proof.
  unfold tree_at, get_tree. destruct (nth_error (enum_forest F) i) as [x|] eqn:Hn.
  - destruct (find_tree_root_some F i x Hn) as [r [j [Hf [_ Hj]]]]. rewrite Hf.
    unfold build_auto. rewrite (build_spec _ r j x (le_n _) Hj). reflexivity.
  - rewrite (find_tree_root_none F i Hn). reflexivity.
Qed.

Lemma tree_at_out_of_range (F : forest) i : forest_solutions F <= i -> tree_at F i = None.
Proof.
  intros H. rewrite tree_at_enum.
  assert (Hn : nth_error (enum_forest F) i = None) by (apply nth_error_None; rewrite enum_forest_length; exact H).
  rewrite Hn. reflexivity.
Qed.

Lemma get_tree_none_iff (F : forest) i : get_tree F i = None <-> forest_solutions F <= i.
Proof.
  split.
  - intros H. destruct (Nat.le_gt_cases (forest_solutions F) i) as [Hle|Hgt]; [exact Hle|exfalso].
    rewrite <- enum_forest_length in Hgt. apply nth_error_Some in Hgt.
    destruct (nth_error (enum_forest F) i) as [x|] eqn:Hn; [|congruence].
    destruct (find_tree_root_some F i x Hn) as [r [j [Hf _]]]. unfold get_tree in H. congruence.
  - intros H. apply find_tree_root_none. apply nth_error_None. rewrite enum_forest_length. exact H.
Qed.

Lemma iter_collect_spec (F : forest) : forall fuel k,
  k <= forest_solutions F -> forest_solutions F - k < fuel ->
  iter_collect fuel F k = (map FDone (skipn k (enum_forest F)), true).
Proof.
  induction fuel as [|f IH]; intros k Hk Hf; [lia|].
  cbn [iter_collect]. unfold iter_next.
  destruct (nth_error (enum_forest F) k) as [x|] eqn:Hn.
  - destruct (find_tree_root_some F k x Hn) as [r [j [Hfr [_ Hj]]]].
    unfold get_tree. rewrite Hfr.
    assert (Hlt : k < forest_solutions F).
    { rewrite <- enum_forest_length. apply nth_error_Some. congruence. }
    rewrite IH by lia. rewrite (skipn_nth_error _ _ _ Hn). cbn [map].
    unfold build_auto. rewrite (build_spec _ r j x (le_n _) Hj). reflexivity.
  - unfold get_tree. rewrite (find_tree_root_none F k Hn).
    apply nth_error_None in Hn. rewrite skipn_all2 by exact Hn. reflexivity.
Qed.

(* after the end the iterator keeps answering None *)
Lemma iter_next_fused (F : forest) k : fst (iter_next F k) = None -> iter_next F k = (None, k).
Proof. unfold iter_next. destruct (get_tree F k); [discriminate|reflexivity]. Qed.

(* ------------------------------------------------------------------ *)
(* no duplicates *)
Lemma tree_memb_In x l : tree_memb x l = true <-> In x l.
Proof.
  unfold tree_memb. rewrite existsb_exists. split.
  - intros [y [Hy He]]. apply tree_eqb_eq in He. subst. exact Hy.
  - intros H. exists x. split; [exact H|]. apply tree_eqb_eq. reflexivity.
Qed.

Lemma disjoint_b_spec l1 l2 : disjoint_b l1 l2 = true -> forall x, In x l1 -> In x l2 -> False.
Proof.
  unfold disjoint_b. rewrite forallb_forall. intros H x H1 H2. specialize (H x H1).
  apply tree_memb_In in H2. rewrite H2 in H. discriminate.
Qed.

Lemma NoDup_concat_disjoint : forall ls : list (list tree),
  Forall (@NoDup tree) ls -> pairwise_disjoint_b ls = true -> NoDup (concat ls).
Proof.
  induction ls as [|l rest IH]; intros Hn Hd; simpl; [constructor|].
  inversion Hn as [|? ? Hl Hrest]; subst. simpl in Hd. apply andb_true_iff in Hd.
  destruct Hd as [Hd1 Hd2]. apply NoDup_app_intro; [exact Hl|apply IH; assumption|].
  intros x Hx1 Hx2. apply in_concat in Hx2. destruct Hx2 as [l' [Hl' Hx']].
  rewrite forallb_forall in Hd1. apply (disjoint_b_spec l l' (Hd1 l' Hl') x Hx1 Hx').
Qed.

Lemma NoDup_cart {A} : forall ls : list (list A), Forall (@NoDup A) ls -> NoDup (cart ls).
Proof.
  induction ls as [|l rest IH]; intros H.
  - simpl. constructor; [intros []|constructor].
  - inversion H as [|? ? Hl Hrest]; subst. cbn [cart]. apply NoDup_flat_map_intro.
    + exact Hl.
    + intros x _. apply NoDup_map_inj; [intros a b _ _ He; congruence|apply IH; exact Hrest].
    + intros x y b _ _ H1 H2. apply in_map_iff in H1. apply in_map_iff in H2.
      destruct H1 as [r1 [He1 _]], H2 as [r2 [He2 _]]. congruence.
Qed.

Lemma enum_parent_NoDup (ps : list sppf) :
  Forall (fun r => NoDup (enum r)) ps -> pairwise_disjoint_b (map enum ps) = true ->
  NoDup (enum_parent ps).
Proof.
  intros Hn Hd. unfold enum_parent. rewrite flat_map_concat_map.
  apply NoDup_concat_disjoint; [|exact Hd]. apply Forall_map. exact Hn.
Qed.

Lemma enum_NoDup : forall t, distinct_poss_b t = true -> NoDup (enum t).
Proof.
  induction t as [k| |p cs IH] using sppf_ind'; intros Hd.
  - simpl. constructor; [intros []|constructor].
  - constructor.
  - rewrite enum_nonterm. apply NoDup_map_inj; [intros a b _ _ He; congruence|].
    apply NoDup_cart. apply Forall_map. cbn [distinct_poss_b] in Hd. rewrite forallb_forall in Hd.
    rewrite Forall_forall in *. intros ps Hps. specialize (Hd ps Hps). apply andb_true_iff in Hd.
    destruct Hd as [Hd1 Hd2]. apply enum_parent_NoDup; [|exact Hd1].
    specialize (IH ps Hps). rewrite forallb_forall in Hd2. rewrite Forall_forall in *.
    intros r Hr. apply IH; [exact Hr|apply Hd2; exact Hr].
Qed.

Lemma enum_forest_NoDup (F : forest) : forest_distinct_b F = true -> NoDup (enum_forest F).
Proof.
  unfold forest_distinct_b. intros H. apply andb_true_iff in H. destruct H as [H1 H2].
  apply enum_parent_NoDup; [|exact H1]. rewrite forallb_forall in H2. rewrite Forall_forall.
  intros r Hr. apply enum_NoDup. apply H2. exact Hr.
Qed.

(* the statement of Properties/C03.v *)
Lemma forest_index_bijection_main : forall F : forest,
  length (enum_forest F) = forest_solutions F /\
  (forall i, tree_at F i =
             match nth_error (enum_forest F) i with Some x => Some (FDone x) | None => None end) /\
  (forall i, forest_solutions F <= i -> tree_at F i = None) /\
  (forall i, get_tree F i = None <-> forest_solutions F <= i) /\
  (forall fuel, forest_solutions F < fuel ->
                iter_collect fuel F 0 = (map FDone (enum_forest F), true)) /\
  (forall k, fst (iter_next F k) = None -> iter_next F k = (None, k)) /\
  (forest_distinct_b F = true -> NoDup (enum_forest F)).
Proof.
  intros F. split; [apply enum_forest_length|]. split; [apply tree_at_enum|].
  split; [apply tree_at_out_of_range|]. split; [apply get_tree_none_iff|].
  split; [intros fuel Hf; apply (iter_collect_spec F fuel 0); lia|].
  split; [apply iter_next_fused|apply enum_forest_NoDup].
Qed.

(* ------------------------------------------------------------------ *)
(* unfolding of the dumped graph does not depend on the fuel once it succeeds *)
Lemma map_opt_mono {A B} (f g : A -> option B) : forall l ys,
  (forall x y, In x l -> f x = Some y -> g x = Some y) ->
  map_opt f l = Some ys -> map_opt g l = Some ys.
Proof.
  induction l as [|a l IH]; intros ys Hfg H; simpl in *; [exact H|].
  destruct (f a) as [y|] eqn:Hfa; [|discriminate].
  destruct (map_opt f l) as [ys'|] eqn:Hfl; [|discriminate].
  rewrite (Hfg a y (or_introl eq_refl) Hfa).
  rewrite (IH ys') by (auto; intros x y' Hx; apply Hfg; right; exact Hx). exact H.
Qed.

Lemma unfold_node_mono G : forall f id t, unfold_node G f id = Some t -> unfold_node G (S f) id = Some t.
Proof.
  induction f as [|f IH]; intros id t H; [discriminate|].
  cbn [unfold_node] in H. cbn [unfold_node].
  destruct (nth_error (gf_nodes G) id) as [[k|p pids|]|]; try exact H; try discriminate.
  match type of H with match ?M with _ => _ end = _ => destruct M as [cs|] eqn:Hm end; [|discriminate].
  match goal with |- match ?M with _ => _ end = _ => assert (Hm' : M = Some cs) end.
  { eapply map_opt_mono; [|exact Hm]. intros pid y _ Hy. cbn beta in *.
    destruct (nth_error (gf_parents G) pid) as [nids|]; [|discriminate].
    eapply map_opt_mono; [|exact Hy]. intros nid t' _ Ht'. apply IH. exact Ht'. }
  rewrite Hm'. exact H.
Qed.

Lemma unfold_forest_mono G f F : unfold_forest G f = Some F -> unfold_forest G (S f) = Some F.
Proof.
  unfold unfold_forest. intros H. eapply map_opt_mono; [|exact H].
  intros id t _ Ht. apply unfold_node_mono. exact Ht.
Qed.
