(* C13 / C14 as theorems about the byte-level model (whitespace-skipping mode,
   no Layout rule): every tree the model returns satisfies the SAME checkers
   that are evaluated on the trees of the real parser:
     spans_ok_b   (token value = slice at its span, ordered leaf spans, node
                   span = hull of its children, empty node zero-width between
                   its neighbours, line/column consistent)
     lossless_b   (layout ++ token text over the leaves = input up to the end
                   of the last token)
     layout_is_ws_b (each stored layout is the maximal whitespace run)
   for all inputs, tables and measured-recognizer tables satisfying [mt_ok]. *)
From RV Require Import Model.LR Model.LRBytes Model.CompareBytes Spec.TreeCheck Spec.SpanCheck Spec.Validators Proofs.Position Proofs.Sound.

Definition resolve_sl (inp : list nat) (o : option slice) : option (list nat) :=
  match o with Some sl => Some (sub inp sl) | None => None end.

Fixpoint resolve (inp : list nat) (t : btree) : rtree :=
  match t with
  | BLeaf k sp l v => RLeaf k sp (resolve_sl inp l) (sub inp v)
  | BNode p sp l cs => RNode p sp (resolve_sl inp l) (map (resolve inp) cs)
  end.

Definition bspan (t : btree) : span :=
  match t with BLeaf _ sp _ _ => sp | BNode _ sp _ _ => sp end.

Lemma rspan_resolve inp t : rspan (resolve inp t) = bspan t.
Proof. destruct t; reflexivity. Qed.

(* hypotheses on the measured recognizer / whitespace table *)
Record mt_ok (inp : list nat) (mt : mtable) : Prop := {
  mt_ws_in : forall off, off <= length inp -> off + ws_len mt off <= length inp;
  mt_ws_max : forall off, off <= length inp -> ws_len mt (off + ws_len mt off) = 0;
  mt_match_in : forall off t n, off <= length inp -> match_len mt off t = Some n -> off + n <= length inp
}.

Definition no_stop_shift (T : table) : Prop :=
  forall s s' acts, cell T s STOP <> Shift s' :: acts.

(* ---------- list facts ---------- *)
Lemma firstn_add {A} (l : list A) : forall n m, firstn (n + m) l = firstn n l ++ firstn m (skipn n l).
Proof.
  induction l as [|x l IH]; intros n m.
  - rewrite !firstn_nil, skipn_nil, firstn_nil. reflexivity.
  - destruct n; simpl; [reflexivity|]. rewrite IH. reflexivity.
Qed.

Lemma sub_app inp a n m :
  sub inp (a, n) ++ sub inp (a + n, m) = sub inp (a, n + m).
Proof.
  unfold sub. simpl. rewrite firstn_add, skipn_skipn. reflexivity.
Qed.

Lemma firstn_sub inp a n : a + n <= length inp -> firstn a inp ++ sub inp (a, n) = firstn (a + n) inp.
Proof. intros H. symmetry. apply firstn_add_sub. exact H. Qed.

Lemma mono_b_app l1 : forall prev l2,
  mono_b prev (l1 ++ l2) = mono_b prev l1 && mono_b (fold_left (fun m '(_, hi) => hi) l1 prev) l2.
Proof.
  induction l1 as [|[lo hi] l1 IH]; intros prev l2; simpl; [reflexivity|].
  rewrite IH. rewrite <- !andb_assoc. reflexivity.
Qed.

Definition last_hi (prev : nat) (l : list (nat * nat)) : nat := fold_left (fun m '(_, hi) => hi) l prev.

Lemma last_hi_app prev l1 l2 : last_hi prev (l1 ++ l2) = last_hi (last_hi prev l1) l2.
Proof. unfold last_hi. apply fold_left_app. Qed.

Lemma lr_pick_In lm toks kn : lr_pick lm toks = Some kn -> In kn toks.
Proof.
  unfold lr_pick. destruct lm.
  - destruct toks as [|x [|y r]]; try discriminate.
    + intros H; inversion H; left; reflexivity.
    + intros H. remember (x :: y :: r) as l.
      destruct (filter (fun '(_, n) => n =? max_len l) l) as [|z zs] eqn:E; [discriminate|].
      simpl in H. inversion H; subst z. assert (Hin : In kn (kn :: zs)) by (left; reflexivity).
      rewrite <- E in Hin. apply filter_In in Hin. tauto.
  - destruct toks; [discriminate|]. intros H; inversion H; left; reflexivity.
Qed.

Lemma token_iter_from_In mlen sorted : forall matched t n,
  In (t, n) (token_iter_from mlen matched sorted) -> mlen t = Some n.
Proof.
  induction sorted as [|[t0 fin] rest IH]; intros matched t n; simpl; [intros []|].
  destruct (mlen t0) as [n0|] eqn:E.
  - intros [H|H]; [inversion H; subst; exact E|]. destruct fin; [destruct H|eapply IH; exact H].
  - destruct (matched && fin); [intros []|apply IH].
Qed.

Lemma token_iter_In mlen sorted t n : In (t, n) (token_iter mlen sorted) -> mlen t = Some n.
Proof. unfold token_iter. apply token_iter_from_In. Qed.

Lemma mono_b_weaken l : forall p p', mono_b p l = true -> p' <= p -> mono_b p' l = true.
Proof.
  destruct l as [|[lo hi] r]; intros p p' H Hle; simpl in *; [reflexivity|].
  apply andb_true_iff in H. destruct H as [H Hr]. apply andb_true_iff in H. destruct H as [H1 H2].
  apply Nat.leb_le in H1. rewrite Hr, H2. replace (p' <=? lo) with true by (symmetry; apply Nat.leb_le; lia).
  reflexivity.
Qed.

Lemma mono_b_last_ge l : forall p, mono_b p l = true -> p <= last_hi p l.
Proof.
  induction l as [|[lo hi] r IH]; intros p H; simpl in *; [lia|].
  apply andb_true_iff in H. destruct H as [H Hr]. apply andb_true_iff in H. destruct H as [H1 H2].
  apply Nat.leb_le in H1, H2. specialize (IH hi Hr). unfold last_hi in *. simpl. lia.
Qed.

Lemma mono_b_all_le l : forall p, mono_b p l = true ->
  Forall (fun '(_, hi) => hi <= last_hi p l) l.
Proof.
  induction l as [|[lo hi] r IH]; intros p H; simpl in *; [constructor|].
  apply andb_true_iff in H. destruct H as [H Hr]. constructor.
  - pose proof (mono_b_last_ge r hi Hr) as Hg. unfold last_hi in *. simpl. exact Hg.
  - specialize (IH hi Hr). unfold last_hi in *. simpl. exact IH.
Qed.

Section RoundTrip.
Variable g : grammar.
Variable T : table.
Variable inp : list nat.
Variable mt : mtable.
Variable cfg : bcfg.
Hypothesis Hwf : wf_grammar_b g = true.
Hypothesis Hsound : sound_b g T = true.
Hypothesis Hmt : mt_ok inp mt.
Hypothesis Hnl : bc_has_layout cfg = false.

Fixpoint erase (t : btree) : tree :=
  match t with
  | BLeaf k _ _ _ => Leaf k
  | BNode p _ _ cs => Node p (map erase cs)
  end.

Definition lexf (fuel : nat) : ctxt -> option (tokres * ctxt) := next_token T inp mt fuel cfg None.

(* the context after lexing: whitespace skipped (if configured), nothing else *)
Definition lexctx (cx : ctxt) : ctxt := if bc_skip_ws cfg then skip inp mt cx else cx.

Lemma lexf_cases fuel cx :
  lexf (S fuel) cx = Some (TOk (mk_token inp (cx_pos (lexctx cx))
                         (match lr_pick (bc_longest cfg)
                                  (token_iter (match_len mt (p_off (cx_pos (lexctx cx))))
                                              (sorted_of T (cx_state (lexctx cx)))) with
                          | Some kn => kn | None => (0, 0) end)), lexctx cx)
  /\ (exists kn, lr_pick (bc_longest cfg)
                   (token_iter (match_len mt (p_off (cx_pos (lexctx cx)))) (sorted_of T (cx_state (lexctx cx)))) = Some kn)
  \/ (lr_pick (bc_longest cfg)
        (token_iter (match_len mt (p_off (cx_pos (lexctx cx)))) (sorted_of T (cx_state (lexctx cx)))) = None /\
      (lexf (S fuel) cx = Some (TOk (mkTok STOP (p_off (cx_pos (lexctx cx)), 0) (cx_span (lexctx cx))), lexctx cx) \/
       exists p ex, lexf (S fuel) cx = Some (TErr p ex, lexctx cx))).
Proof.
  unfold lexf, lexctx. cbn [next_token].
  destruct (lr_pick (bc_longest cfg) _) as [kn|] eqn:E.
  - left. split; [reflexivity|eauto].
  - right. split; [reflexivity|].
    destruct (cx_layout (if bc_skip_ws cfg then skip inp mt cx else cx));
      (destruct (bc_partial cfg && memb STOP (map fst (sorted_of T (cx_state (if bc_skip_ws cfg then skip inp mt cx else cx)))));
       [left; reflexivity|right; eauto]).
Qed.

Definition Eoff (cx : ctxt) : nat := p_off (sp_end (cx_span cx)).

(* facts about a context between lexing steps *)
Record CxInv (cx : ctxt) : Prop := {
  ci_Eok : pos_ok_b inp (sp_end (cx_span cx)) = true;
  ci_posok : pos_ok_b inp (cx_pos cx) = true;
  ci_lay : (cx_layout cx = None /\ p_off (cx_pos cx) = Eoff cx) \/
           (exists n, 0 < n /\ cx_layout cx = Some (Eoff cx, n) /\ p_off (cx_pos cx) = Eoff cx + n /\
                      ws_len mt (Eoff cx) = n /\ bc_skip_ws cfg = true);
  ci_ws0 : bc_skip_ws cfg = true -> ws_len mt (p_off (cx_pos cx)) = 0
}.

Lemma pos_ok_off p : pos_ok_b inp p = true -> p_off p <= length inp.
Proof.
  unfold pos_ok_b. intros H. apply andb_true_iff in H. destruct H as [H _].
  apply andb_true_iff in H. destruct H as [H _]. apply Nat.leb_le in H. exact H.
Qed.

(* lexing right after a shift: the context is (newp, [oldpos,newp], None, s') *)
Lemma lexctx_after_shift newp sp s' :
  pos_ok_b inp newp = true -> sp_end sp = newp ->
  CxInv (lexctx (mkCtx newp sp None s')) /\
  cx_span (lexctx (mkCtx newp sp None s')) = sp /\ cx_state (lexctx (mkCtx newp sp None s')) = s'.
Proof.
  intros Hp Hsp. unfold lexctx. destruct (bc_skip_ws cfg) eqn:Hsk.
  - unfold skip. cbn [cx_pos cx_span cx_state cx_layout].
    pose proof (pos_ok_off _ Hp) as Hle.
    destruct (0 <? ws_len mt (p_off newp)) eqn:Hw.
    + apply Nat.ltb_lt in Hw. split; [|split; reflexivity].
      constructor; cbn [cx_pos cx_span cx_state cx_layout]; unfold Eoff; cbn [cx_span].
      * rewrite Hsp. exact Hp.
      * apply position_after_ok_main; [exact Hp|]. apply (mt_ws_in _ _ Hmt). exact Hle.
      * right. exists (ws_len mt (p_off newp)). rewrite Hsp. repeat split; try assumption.
        unfold position_after. cbn [p_off]. rewrite sub_length; [reflexivity|].
        apply (mt_ws_in _ _ Hmt). exact Hle.
      * intros _. unfold position_after. cbn [p_off]. rewrite sub_length by (apply (mt_ws_in _ _ Hmt); exact Hle).
        apply (mt_ws_max _ _ Hmt). exact Hle.
    + apply Nat.ltb_ge in Hw. split; [|split; reflexivity].
      constructor; cbn [cx_pos cx_span cx_state cx_layout]; unfold Eoff; cbn [cx_span].
      * rewrite Hsp. exact Hp.
      * exact Hp.
      * left. rewrite Hsp. split; reflexivity.
      * intros _. lia.
  - split; [|split; reflexivity].
    constructor; cbn [cx_pos cx_span cx_state cx_layout]; unfold Eoff; cbn [cx_span].
    + rewrite Hsp. exact Hp.
    + exact Hp.
    + left. rewrite Hsp. split; reflexivity.
    + intros H. congruence.
Qed.

(* lexing again after a reduce, then restoring the saved layout: nothing moves *)
Lemma lexctx_after_reduce cx s' :
  CxInv cx ->
  let cx2 := lexctx (mkCtx (cx_pos cx) (cx_span cx) (cx_layout cx) s') in
  cx_pos cx2 = cx_pos cx /\ cx_span cx2 = cx_span cx /\ cx_state cx2 = s' /\
  CxInv (mkCtx (cx_pos cx2) (cx_span cx2) (cx_layout cx) (cx_state cx2)).
Proof.
  intros [H1 H2 H3 H4]. unfold lexctx.
  assert (Hfin : CxInv (mkCtx (cx_pos cx) (cx_span cx) (cx_layout cx) s')).
  { constructor; cbn [cx_pos cx_span cx_state cx_layout]; unfold Eoff in *; cbn [cx_span]; assumption. }
  destruct (bc_skip_ws cfg) eqn:Hsk.
  - unfold skip. cbn [cx_pos cx_span cx_state cx_layout]. rewrite (H4 eq_refl). cbn [Nat.ltb Nat.leb].
    cbn [cx_pos cx_span cx_state cx_layout].
    split; [reflexivity|]. split; [reflexivity|]. split; [reflexivity|]. exact Hfin.
  - cbn [cx_pos cx_span cx_state cx_layout].
    split; [reflexivity|]. split; [reflexivity|]. split; [reflexivity|]. exact Hfin.
Qed.


(* ---------- the trees on the builder stack, in input order ---------- *)
Definition rts (trs : list btree) : list rtree := map (resolve inp) (rev trs).
Definition evs (trs : list btree) : list (nat * nat) := flat_map events (rts trs).
Definition lvs (trs : list btree) := flat_map leaves (rts trs).

Lemma rts_cons t trs : rts (t :: trs) = rts trs ++ [resolve inp t].
Proof. unfold rts. simpl. rewrite map_app. reflexivity. Qed.

Lemma rts_split n trs : rts trs = rts (skipn n trs) ++ rts (firstn n trs).
Proof.
  unfold rts. rewrite <- map_app, <- rev_app_distr, firstn_skipn. reflexivity.
Qed.

Definition tok_ok (cx : ctxt) (tk : token) : Prop :=
  tk_kind tk <> STOP ->
  exists n, tk_val tk = (p_off (cx_pos cx), n) /\ p_off (cx_pos cx) + n <= length inp /\
            tk_span tk = mkSpan (cx_pos cx) (position_after (sub inp (p_off (cx_pos cx), n)) (cx_pos cx)).

Record BInv (c : bconf) : Prop := {
  bi_linked : linked g T 0 (map fst (b_stk c)) (map erase (b_trs c));
  bi_spans : map snd (firstn (length (b_trs c)) (b_stk c)) = map bspan (b_trs c);
  bi_local : Forall (fun t => local_ok_b inp (resolve inp t) = true) (b_trs c);
  bi_mono : mono_b 0 (evs (b_trs c)) = true;
  bi_last : last_hi 0 (evs (b_trs c)) <= Eoff (b_cx c);
  bi_cx : CxInv (b_cx c);
  bi_text : flat_map leaf_text (lvs (b_trs c)) = firstn (Eoff (b_cx c)) inp;
  bi_layws : bc_skip_ws cfg = true ->
             Forall (fun t => layout_is_ws_b mt (resolve inp t) = true) (b_trs c);
  bi_tok : tok_ok (b_cx c) (b_tok c);
  bi_lastleaf : forall d, lvs (b_trs c) <> [] ->
                p_off (sp_end (snd (last (lvs (b_trs c)) d))) = Eoff (b_cx c)
}.

Lemma lexf_tok fuel cx r cx' :
  pos_ok_b inp (cx_pos (lexctx cx)) = true ->
  lexf (S fuel) cx = Some (r, cx') ->
  cx' = lexctx cx /\ (forall tk, r = TOk tk -> tok_ok cx' tk).
Proof.
  intros Hp H. destruct (lexf_cases fuel cx) as [[H1 [kn Hkn]]|[Hn [H1|[p [ex H1]]]]];
    rewrite H1 in H; inversion H; subst r cx'; clear H; split; try reflexivity.
  - intros tk Htk. inversion Htk; subst tk; clear Htk. rewrite Hkn. intros _.
    destruct kn as [t n]. apply lr_pick_In in Hkn. apply token_iter_In in Hkn.
    exists n. unfold mk_token. cbn [tk_val tk_span fst snd]. split; [reflexivity|]. split; [|reflexivity].
    eapply (mt_match_in _ _ Hmt); [apply pos_ok_off; exact Hp|exact Hkn].
  - intros tk Htk. inversion Htk; subst tk. intros Hk. cbn [tk_kind] in Hk. congruence.
  - intros tk Htk. discriminate.
Qed.

Lemma leaves_node p sp l cs : leaves (RNode p sp l cs) = flat_map leaves cs.
Proof. reflexivity. Qed.

Lemma events_node_nonempty p sp l c cs : events (RNode p sp l (c :: cs)) = flat_map events (c :: cs).
Proof. reflexivity. Qed.

Lemma layout_is_ws_node p sp l cs :
  layout_is_ws_b mt (RNode p sp l cs) = forallb (layout_is_ws_b mt) cs.
Proof.
  unfold layout_is_ws_b. rewrite leaves_node. induction cs as [|c cs IH]; [reflexivity|].
  simpl. rewrite forallb_app. fold (layout_is_ws_b mt c). rewrite IH. reflexivity.
Qed.


(* ---------- alignment of stack spans and tree spans ---------- *)
Lemma firstn_skipn_swap {A} (l : list A) : forall n k, firstn (n - k) (skipn k l) = skipn k (firstn n l).
Proof.
  induction l as [|x l IH]; intros n k.
  - destruct k; simpl; [rewrite firstn_nil; destruct n; reflexivity|]. rewrite firstn_nil. destruct n; reflexivity.
  - destruct k; simpl; [rewrite Nat.sub_0_r; reflexivity|].
    destruct n; simpl; [reflexivity|]. apply IH.
Qed.

Lemma map_skipn {A B} (f : A -> B) (l : list A) n : map f (skipn n l) = skipn n (map f l).
Proof. revert l; induction n; destruct l; simpl; auto. Qed.

Lemma map_firstn {A B} (f : A -> B) (l : list A) n : map f (firstn n l) = firstn n (map f l).
Proof. revert l; induction n; destruct l; simpl; auto. f_equal. apply IHn. Qed.

Lemma last_map {A B} (f : A -> B) (l : list A) d : l <> [] -> last (map f l) (f d) = f (last l d).
Proof.
  induction l as [|x l IH]; intros H; [congruence|]. destruct l as [|y l]; [reflexivity|].
  change (last (map f (x :: y :: l)) (f d)) with (last (map f (y :: l)) (f d)).
  change (last (x :: y :: l) d) with (last (y :: l) d). apply IH. discriminate.
Qed.

Lemma last_default {A} (l : list A) d d' : l <> [] -> last l d = last l d'.
Proof.
  induction l as [|x l IH]; intros H; [congruence|]. destruct l as [|y l]; [reflexivity|].
  change (last (x :: y :: l) d) with (last (y :: l) d).
  change (last (x :: y :: l) d') with (last (y :: l) d'). apply IH. discriminate.
Qed.

Lemma forallb_flat_map {A B} (f : B -> bool) (h : A -> list B) (l : list A) :
  forallb f (flat_map h l) = forallb (fun x => forallb f (h x)) l.
Proof. induction l as [|x l IH]; simpl; [reflexivity|]. rewrite forallb_app, IH. reflexivity. Qed.

Lemma Forall_forallb {A} (f : A -> bool) l : Forall (fun x => f x = true) l <-> forallb f l = true.
Proof. rewrite forallb_forall, Forall_forall. tauto. Qed.


Lemma events_resolve_node p sp lay l : l <> [] ->
  events (resolve inp (BNode p sp lay (rev l))) = evs l.
Proof.
  intros Hne. unfold evs, rts. cbn [resolve]. destruct (map (resolve inp) (rev l)) as [|c cs] eqn:E.
  - exfalso. apply map_eq_nil in E. apply (f_equal (@rev btree)) in E. rewrite rev_involutive in E. simpl in E. congruence.
  - reflexivity.
Qed.

Lemma leaves_resolve_node p sp lay l : leaves (resolve inp (BNode p sp lay (rev l))) = lvs l.
Proof. reflexivity. Qed.

Lemma rev_hd_last {A} (l : list A) (x : A) d :
  exists c cs, rev (x :: l) = c :: cs /\ c = last (x :: l) d /\ last (c :: cs) d = x.
Proof.
  destruct (rev (x :: l)) as [|c cs] eqn:E.
  - apply (f_equal (@rev A)) in E. rewrite rev_involutive in E. discriminate.
  - exists c, cs. split; [reflexivity|]. split.
    + assert (H : x :: l = rev (c :: cs)) by (rewrite <- E, rev_involutive; reflexivity).
      rewrite H. simpl. rewrite last_last. reflexivity.
    + rewrite <- E. simpl. rewrite last_last. reflexivity.
Qed.

Lemma local_ok_children l :
  Forall (fun t => local_ok_b inp (resolve inp t) = true) l ->
  forallb (local_ok_b inp) (map (resolve inp) (rev l)) = true.
Proof.
  intros H. apply forallb_forall. intros x Hx. apply in_map_iff in Hx. destruct Hx as [t [<- Ht]].
  apply in_rev in Ht. rewrite Forall_forall in H. apply H. exact Ht.
Qed.

Lemma local_ok_span t : local_ok_b inp (resolve inp t) = true ->
  pos_ok_b inp (sp_start (bspan t)) = true /\ pos_ok_b inp (sp_end (bspan t)) = true.
Proof.
  destruct t as [k sp l v|p sp l cs]; cbn [resolve local_ok_b bspan]; intros H.
  - apply andb_true_iff in H. destruct H as [H _]. apply andb_true_iff in H. destruct H as [H _].
    apply andb_true_iff in H. exact H.
  - apply andb_true_iff in H. destruct H as [H _]. apply andb_true_iff in H. exact H.
Qed.

Lemma last_map2 {A B C} (f : A -> C) (h : B -> C) : forall la lb da db,
  map f la = map h lb -> f da = h db -> f (last la da) = h (last lb db).
Proof.
  induction la as [|a la IH]; intros [|b lb] da db Hm Hd; try discriminate; [exact Hd|].
  simpl in Hm. injection Hm as H1 H2. destruct la as [|a' la]; destruct lb as [|b' lb]; try discriminate; [exact H1|].
  change (last (a :: a' :: la) da) with (last (a' :: la) da).
  change (last (b :: b' :: lb) db) with (last (b' :: lb) db). apply IH; assumption.
Qed.

Lemma last_In {A} (l : list A) : forall x d, In (last (x :: l) d) (x :: l).
Proof.
  induction l as [|y l IH]; intros x d; [left; reflexivity|]. right.
  change (last (x :: y :: l) d) with (last (y :: l) d). apply IH.
Qed.

Lemma pos_eqb_refl p : pos_eqb p p = true.
Proof. unfold pos_eqb. rewrite !Nat.eqb_refl. reflexivity. Qed.

(* ---------- one loop turn preserves the invariant ---------- *)
Lemma cell_lt_nterm s a act : In act (cell T s a) -> a < g_nterm g.
Proof.
  intros Hin. destruct (cell_In_state T _ _ _ Hin) as [st [Hs Hn]].
  pose proof (shape_state g T Hsound s st Hs) as H. unfold shape_state_b in H.
  repeat (apply andb_true_iff in H; let H' := fresh "Hh" in destruct H as [H H']).
  apply Nat.eqb_eq in H. rewrite <- H. apply nth_error_Some. congruence.
Qed.

Lemma bstep_inv fuel c c' :
  BInv c -> bstep g T inp false (lexf (S fuel)) c = Some (BNext c') -> BInv c'.
Proof.
  intros [Hl Hsp Hloc Hmono Hlast Hcx Htext Hlw Htok Hll] Hstep.
  unfold bstep in Hstep.
  destruct (b_stk c) as [|[s sp0] stk] eqn:Hstk; [discriminate|].
  destruct (cell T s (tk_kind (b_tok c))) as [|act acts] eqn:Hcell; [discriminate|].
  assert (Hin : In act (cell T s (tk_kind (b_tok c)))) by (rewrite Hcell; left; reflexivity).
  destruct (action_ok g T Hsound _ _ _ Hin) as [st [Hs Hok]].
  pose proof (cell_lt_nterm _ _ _ Hin) as Hlt.
  pose proof Hcx as [HEok Hposok Hlay Hws0].
  destruct act as [s'|p len|].
  - (* ---------------- shift ---------------- *)
    simpl in Hok. apply Nat.ltb_lt in Hok.
    assert (Hk : tk_kind (b_tok c) <> STOP) by (unfold STOP; lia).
    destruct (Htok Hk) as [n [Hval [Hn Htsp]]].
    set (P := p_off (cx_pos (b_cx c))) in *.
    set (newp := position_after (sub inp (tk_val (b_tok c))) (cx_pos (b_cx c))) in *.
    assert (Hnewp : newp = position_after (sub inp (P, n)) (cx_pos (b_cx c))) by (unfold newp; rewrite Hval; reflexivity).
    assert (Hnewok : pos_ok_b inp newp = true).
    { rewrite Hnewp. apply position_after_ok_main; [exact Hposok|exact Hn]. }
    assert (Hnewoff : p_off newp = P + n).
    { rewrite Hnewp. unfold position_after. cbn [p_off]. rewrite sub_length by exact Hn. reflexivity. }
    destruct (lexf (S fuel) _) as [[r cx2]|] eqn:Hlex; [|discriminate].
    destruct (lexctx_after_shift newp (mkSpan (cx_pos (b_cx c)) newp) s' Hnewok eq_refl) as [Hcx2 [Hspan2 Hstate2]].
    assert (Hp2 : pos_ok_b inp (cx_pos (lexctx (mkCtx newp (mkSpan (cx_pos (b_cx c)) newp) None s'))) = true)
      by (destruct Hcx2; assumption).
    destruct (lexf_tok fuel _ _ _ Hp2 Hlex) as [Hcx2eq Htok2]. subst cx2.
    destruct r as [tk|pe ex|np]; try discriminate. inversion Hstep; subst c'; clear Hstep.
    assert (HE2 : Eoff (lexctx (mkCtx newp (mkSpan (cx_pos (b_cx c)) newp) None s')) = P + n).
    { unfold Eoff. rewrite Hspan2. cbn [sp_end]. exact Hnewoff. }
    assert (HPE : Eoff (b_cx c) <= P).
    { destruct Hlay as [[_ H]|[w [_ [_ [H _]]]]]; fold P in H; lia. }
    constructor; cbn [b_stk b_trs b_cx b_tok].
    + cbn [map fst erase]. apply L_cons.
      * simpl. apply cell_shift_trans. exact Hin.
      * constructor. split; [exact Hok|exact Hlt].
      * exact Hl.
    + cbn [length firstn map snd bspan]. rewrite Htsp. fold P. rewrite <- Hnewp. f_equal.
      exact Hsp.
    + constructor; [|exact Hloc]. cbn [resolve local_ok_b]. rewrite Htsp. fold P. rewrite <- Hnewp.
      cbn [sp_start sp_end]. rewrite Hposok, Hnewok, Hnewoff, Hval. cbn [andb]. fold P.
      replace (P + n - P) with n by lia.
      rewrite sub_length by exact Hn. rewrite Nat.eqb_refl, andb_true_r.
      apply list_eqb_eq. reflexivity.
    + unfold evs. rewrite rts_cons, flat_map_app. cbn [flat_map resolve events]. rewrite app_nil_r.
      rewrite mono_b_app. fold (evs (b_trs c)). rewrite Hmono. cbn [andb mono_b].
      fold (last_hi 0 (evs (b_trs c))). rewrite Htsp. cbn [sp_start sp_end]. fold P. rewrite <- Hnewp, Hnewoff.
      replace (last_hi 0 (evs (b_trs c)) <=? P) with true by (symmetry; apply Nat.leb_le; lia).
      replace (P <=? P + n) with true by (symmetry; apply Nat.leb_le; lia). reflexivity.
    + unfold evs. rewrite rts_cons, flat_map_app, last_hi_app. cbn [flat_map resolve events]. rewrite app_nil_r.
      unfold last_hi at 1. cbn [fold_left]. rewrite Htsp. cbn [sp_end]. fold P. rewrite <- Hnewp, Hnewoff, HE2. lia.
    + exact Hcx2.
    + unfold lvs. rewrite rts_cons, flat_map_app, flat_map_app. cbn [flat_map resolve leaves]. rewrite !app_nil_r.
      fold (lvs (b_trs c)). rewrite Htext, HE2. cbn [flat_map leaf_text]. rewrite app_nil_r, Hval.
      destruct Hlay as [[Hlay HP]|[w [Hw [Hlay [HP _]]]]]; rewrite Hlay; cbn [resolve_sl]; fold P in HP.
      * cbn [app]. rewrite <- HP. apply firstn_sub. exact Hn.
      * rewrite HP. rewrite sub_app, firstn_sub by lia. f_equal. lia.
    + intros Hsk. constructor; [|apply Hlw; exact Hsk]. cbn [resolve]. unfold layout_is_ws_b. cbn [leaves forallb].
      rewrite andb_true_r. rewrite Htsp. cbn [sp_start]. fold P.
      destruct Hlay as [[Hlay HP]|[w [Hw [Hlay [HP [Hwl _]]]]]]; rewrite Hlay; cbn [resolve_sl]; [reflexivity|].
      fold P in HP. assert (Hsl : length (sub inp (Eoff (b_cx c), w)) = w) by (apply sub_length; lia).
      rewrite Hsl. replace (P - w) with (Eoff (b_cx c)) by lia. rewrite Hwl, Nat.eqb_refl.
      replace (0 <? w) with true by (symmetry; apply Nat.ltb_lt; exact Hw). reflexivity.
    + apply Htok2. reflexivity.
    + intros d _. unfold lvs. rewrite rts_cons, flat_map_app. cbn [flat_map resolve leaves]. rewrite app_nil_r.
      rewrite last_last. cbn [snd]. rewrite Htsp. cbn [sp_end]. fold P. rewrite <- Hnewp, Hnewoff, HE2. reflexivity.
  - (* ---------------- reduce ---------------- *)
    simpl in Hok. apply andb_true_iff in Hok. destruct Hok as [Hok Hlhs].
    apply andb_true_iff in Hok. destruct Hok as [Hitem Hlen3].
    apply Nat.eqb_eq in Hlen3. apply Nat.ltb_lt in Hlhs.
    assert (Hit : has_item T s p len) by (exists st; split; assumption).
    cbn [map fst] in Hl.
    destruct (linked_top_items g T Hsound 0 (is_start_0 T) _ _ _ _ _ Hl Hit) as [Hle [_ Hmap]].
    rewrite map_length in Hle.
    pose proof (linked_length g T _ _ _ Hl) as Hlenl. cbn [length] in Hlenl. rewrite !map_length in Hlenl.
    destruct (length ((s, sp0) :: stk) <=? len) eqn:Hlen1; [discriminate|].
    destruct (skipn len ((s, sp0) :: stk)) as [|[from spf] stk'] eqn:Hskip; [discriminate|].
    destruct (goto T from (lhs g p - g_nterm g)) as [s'|] eqn:Hgoto; [|discriminate].
    cbn [negb andb] in Hstep.
    destruct (length (b_trs c) <? len) eqn:Hlen2; [discriminate|].
    destruct (lexf (S fuel) _) as [[r cx2]|] eqn:Hlex; [|discriminate].
    destruct (lexctx_after_reduce (b_cx c) s' Hcx) as [Hpos2 [Hspan2 [Hstate2 Hcx3]]].
    assert (Hp2 : pos_ok_b inp (cx_pos (lexctx (mkCtx (cx_pos (b_cx c)) (cx_span (b_cx c)) (cx_layout (b_cx c)) s'))) = true)
      by (rewrite Hpos2; exact Hposok).
    destruct (lexf_tok fuel _ _ _ Hp2 Hlex) as [Hcx2eq Htok2]. subst cx2.
    destruct r as [tk|pe ex|np]; try discriminate. inversion Hstep; subst c'; clear Hstep.
    set (l := firstn len (b_trs c)) in *.
    set (sp := match firstn len ((s, sp0) :: stk) with
               | [] => mkSpan (sp_end (cx_span (b_cx c))) (sp_end (cx_span (b_cx c)))
               | (_, lastsp) :: _ => mkSpan (sp_start (snd (last (firstn len ((s, sp0) :: stk)) (0, lastsp)))) (sp_end lastsp)
               end) in *.
    assert (HE3 : Eoff (mkCtx (cx_pos (lexctx (mkCtx (cx_pos (b_cx c)) (cx_span (b_cx c)) (cx_layout (b_cx c)) s')))
                              (cx_span (lexctx (mkCtx (cx_pos (b_cx c)) (cx_span (b_cx c)) (cx_layout (b_cx c)) s')))
                              (cx_layout (b_cx c))
                              (cx_state (lexctx (mkCtx (cx_pos (b_cx c)) (cx_span (b_cx c)) (cx_layout (b_cx c)) s'))))
                 = Eoff (b_cx c)).
    { unfold Eoff. cbn [cx_span]. rewrite Hspan2. reflexivity. }
    assert (Hloc_l : Forall (fun t => local_ok_b inp (resolve inp t) = true) l).
    { apply Forall_forall. intros x Hx. rewrite Forall_forall in Hloc. apply Hloc. eapply In_firstn_In. exact Hx. }
    (* alignment of the removed stack spans with the removed trees *)
    assert (Hal : map snd (firstn len ((s, sp0) :: stk)) = map bspan l).
    { unfold l. rewrite !map_firstn. rewrite <- Hsp. rewrite map_firstn, firstn_firstn, Nat.min_l by lia. reflexivity. }
    (* the node is locally fine *)
    assert (Hnode : local_ok_b inp (resolve inp (BNode p sp (match rev l with [] => None | ch :: _ => btree_layout ch end) (rev l))) = true).
    { cbn [resolve local_ok_b]. destruct l as [|t0 l0] eqn:El.
      - (* empty reduction *)
        assert (Hrem : firstn len ((s, sp0) :: stk) = []).
        { destruct (firstn len ((s, sp0) :: stk)); [reflexivity|discriminate]. }
        unfold sp. rewrite Hrem. cbn [rev map sp_start sp_end]. rewrite HEok, pos_eqb_refl. reflexivity.
      - destruct (firstn len ((s, sp0) :: stk)) as [|[s1 lastsp] rem] eqn:Erem; [discriminate|].
        cbn [map snd bspan] in Hal. injection Hal as Hal0 Halr.
        destruct (rev_hd_last l0 t0 t0) as [c0 [cs0 [Hrev [Hc0 Hlast0]]]]. rewrite Hrev. cbn [map].
        assert (Hsp0' : sp = mkSpan (sp_start (bspan c0)) (sp_end (bspan t0))).
        { unfold sp. rewrite Hal0. f_equal. f_equal. rewrite Hc0.
          apply (last_map2 snd bspan ((s1, bspan t0) :: rem) (t0 :: l0) (0, bspan t0) t0); [|reflexivity].
          cbn [map snd]. rewrite Halr. reflexivity. }
        rewrite Hsp0'. cbn [sp_start sp_end]. rewrite !rspan_resolve.
        assert (Hc0in : In c0 (t0 :: l0)).
        { rewrite Hc0. apply last_In. }
        rewrite Forall_forall in Hloc_l.
        destruct (local_ok_span c0 (Hloc_l c0 Hc0in)) as [Hs1 _].
        destruct (local_ok_span t0 (Hloc_l t0 (or_introl eq_refl))) as [_ He1].
        rewrite Hs1, He1, !pos_eqb_refl. cbn [andb].
        change (resolve inp c0 :: map (resolve inp) cs0) with (map (resolve inp) (c0 :: cs0)).
        rewrite (last_map (resolve inp) (c0 :: cs0) c0) by discriminate. rewrite rspan_resolve.
        rewrite (last_default (c0 :: cs0) c0 t0) by discriminate. rewrite Hlast0, pos_eqb_refl. cbn [andb].
        rewrite <- Hrev. apply local_ok_children. apply Forall_forall. exact Hloc_l. }
    constructor; cbn [b_stk b_trs b_cx b_tok].
    + (* linked *)
      cbn [map fst erase].
      assert (Hle' : len <= length (map erase (b_trs c))) by (rewrite map_length; exact Hle).
      pose proof (linked_skipn g T 0 len _ _ Hl Hle') as Hl'.
      change (s :: map fst stk) with (map fst ((s, sp0) :: stk)) in Hl'.
      rewrite <- !map_skipn, Hskip in Hl'. cbn [map fst] in Hl'.
      destruct (item_wf g T Hsound _ _ _ Hit) as [pr [Hpr _]].
      assert (Hrhs : rhs g p = p_rhs pr) by (unfold rhs; rewrite Hpr; reflexivity).
      apply L_cons.
      * simpl. replace (lhs g p) with (g_nterm g + (lhs g p - g_nterm g)) by lia. apply goto_trans. exact Hgoto.
      * econstructor; [exact Hpr| |].
        -- rewrite map_rev. unfold l. rewrite map_firstn. rewrite <- Hrhs.
           rewrite Hmap, Hlen3, firstn_all. reflexivity.
        -- rewrite map_rev. apply Forall_rev. unfold l. rewrite map_firstn.
           apply Forall_forall. intros x Hx. pose proof (linked_valid g T _ _ _ Hl) as Hv.
           rewrite Forall_forall in Hv. apply Hv. eapply In_firstn_In. exact Hx.
      * exact Hl'.
    + (* spans *)
      cbn [length firstn map snd bspan]. f_equal.
      rewrite map_skipn, <- Hsp, <- map_skipn. f_equal.
      rewrite skipn_length. rewrite <- Hskip. apply firstn_skipn_swap.
    + constructor; [exact Hnode|]. apply Forall_forall. intros x Hx. rewrite Forall_forall in Hloc. apply Hloc.
      clear - Hx. revert Hx. generalize (b_trs c). induction len as [|k IH]; intros [|y ys] Hx; simpl in *; auto; try contradiction.
    + (* mono *)
      unfold evs at 1. rewrite rts_cons, flat_map_app. cbn [flat_map]. rewrite app_nil_r.
      fold (evs (skipn len (b_trs c))).
      destruct l as [|t0 l0] eqn:El.
      * assert (Hl0 : len = 0 \/ b_trs c = []).
        { unfold l in El. destruct len; [left; reflexivity|]. destruct (b_trs c); [right; reflexivity|discriminate]. }
        assert (Hsk : skipn len (b_trs c) = b_trs c) by (destruct Hl0 as [-> | ->]; [reflexivity|apply skipn_nil]).
        assert (Hrem : firstn len ((s, sp0) :: stk) = []) by (apply (map_eq_nil snd); exact Hal).
        rewrite Hsk. cbn [rev resolve map events]. unfold sp. rewrite Hrem. cbn [sp_start sp_end].
        rewrite mono_b_app, Hmono. cbn [andb mono_b]. fold (last_hi 0 (evs (b_trs c))).
        fold (Eoff (b_cx c)).
        replace (last_hi 0 (evs (b_trs c)) <=? Eoff (b_cx c)) with true by (symmetry; apply Nat.leb_le; exact Hlast).
        rewrite Nat.leb_refl. reflexivity.
      * rewrite <- El. rewrite events_resolve_node by (rewrite El; discriminate).
        unfold evs in *. rewrite <- flat_map_app, <- rts_split. exact Hmono.
    + (* last *)
      rewrite HE3. unfold evs at 1. rewrite rts_cons, flat_map_app, last_hi_app. cbn [flat_map]. rewrite app_nil_r.
      fold (evs (skipn len (b_trs c))).
      destruct l as [|t0 l0] eqn:El.
      * assert (Hrem : firstn len ((s, sp0) :: stk) = []) by (apply (map_eq_nil snd); exact Hal).
        cbn [rev resolve map events]. unfold sp. rewrite Hrem. cbn [sp_start sp_end].
        unfold last_hi at 1. cbn [fold_left]. fold (Eoff (b_cx c)). lia.
      * rewrite <- El. rewrite events_resolve_node by (rewrite El; discriminate).
        rewrite <- last_hi_app. unfold evs in *. rewrite <- flat_map_app, <- rts_split. exact Hlast.
    + exact Hcx3.
    + (* text *)
      rewrite HE3. unfold lvs at 1. rewrite rts_cons, flat_map_app. cbn [flat_map]. rewrite app_nil_r.
      rewrite leaves_resolve_node. fold (lvs (skipn len (b_trs c))).
      unfold lvs in *. rewrite <- flat_map_app, <- rts_split. exact Htext.
    + (* layout is whitespace *)
      intros Hsk. specialize (Hlw Hsk). constructor.
      * cbn [resolve]. rewrite layout_is_ws_node. apply forallb_forall. intros x Hx.
        apply in_map_iff in Hx. destruct Hx as [t [<- Ht]]. apply in_rev in Ht.
        rewrite Forall_forall in Hlw. apply Hlw. eapply In_firstn_In. exact Ht.
      * apply Forall_forall. intros x Hx. rewrite Forall_forall in Hlw. apply Hlw.
        clear - Hx. revert Hx. generalize (b_trs c). induction len as [|k IH]; intros [|y ys] Hx; simpl in *; auto; try contradiction.
    + apply Htok2. reflexivity.
    + intros d. rewrite HE3. unfold lvs at 1 2. rewrite rts_cons, flat_map_app. cbn [flat_map]. rewrite app_nil_r.
      rewrite leaves_resolve_node. fold (lvs (skipn len (b_trs c))).
      unfold lvs in *. rewrite <- flat_map_app, <- rts_split. apply Hll.
  - destruct (b_trs c); discriminate.
Qed.


Definition tree_good (t : btree) : Prop :=
  spans_ok_b inp (resolve inp t) = true /\ lossless_b inp (resolve inp t) = true /\
  (bc_skip_ws cfg = true -> layout_is_ws_b mt (resolve inp t) = true) /\
  valid_tree g (erase t) /\ root g (erase t) = g_start g.

Lemma linked_single s0 stk t : linked g T s0 stk [t] -> exists s, stk = [s; s0].
Proof.
  intros H. inversion H as [|s1 s2 stk1 t1 ts1 Htr Hv Hl']; subst.
  inversion Hl'; subst. eexists; reflexivity.
Qed.

Lemma bstep_done_ok fuel c t cx :
  BInv c -> bstep g T inp false (lexf (S fuel)) c = Some (BDone (BOk t) cx) -> tree_good t.
Proof.
  intros [Hl Hsp Hloc Hmono Hlast Hcx Htext Hlw Htok Hll] Hstep.
  unfold bstep in Hstep.
  destruct (b_stk c) as [|[s sp0] stk] eqn:Hstk; [discriminate|].
  destruct (cell T s (tk_kind (b_tok c))) as [|act acts] eqn:Hcell; [discriminate|].
  assert (Hin : In act (cell T s (tk_kind (b_tok c)))) by (rewrite Hcell; left; reflexivity).
  destruct (action_ok g T Hsound _ _ _ Hin) as [st [Hs Hok]].
  pose proof Hcx as [HEok Hposok Hlay Hws0].
  destruct act as [s'|p len|].
  - destruct (lexf (S fuel) _) as [[[tk|pe ex|np] cx2]|]; discriminate.
  - destruct (length ((s, sp0) :: stk) <=? len); [discriminate|].
    destruct (skipn len ((s, sp0) :: stk)) as [|[from spf] stk']; [discriminate|].
    destruct (goto T from (lhs g p - g_nterm g)); [|discriminate].
    cbn [negb andb] in Hstep. destruct (length (b_trs c) <? len); [discriminate|].
    destruct (lexf (S fuel) _) as [[[tk|pe ex|np] cx2]|]; discriminate.
  - destruct (b_trs c) as [|t0 ts] eqn:Htrs; [discriminate|]. inversion Hstep; subst t0 cx; clear Hstep.
    simpl in Hok. apply andb_true_iff in Hok. destruct Hok as [_ Hitems].
    cbn [map fst erase] in Hl.
    assert (Hone : ts = [] /\ root g (erase t) = g_start g).
    { apply orb_true_iff in Hitems. destruct Hitems as [Hi|Hi].
      - assert (Hit : has_item T s 0 1) by (exists st; split; assumption).
        destruct (linked_top_items g T Hsound 0 (is_start_0 T) _ _ _ _ _ Hl Hit) as [Hle [[si [Hsi Hsi0]] Hmap]].
        apply (aug_item_state g T Hsound) in Hsi0. subst si.
        pose proof (linked_start_bottom g T Hsound _ _ _ _ _ Hl Hsi (is_start_0 T)) as Hlen.
        cbn [length] in Hlen. rewrite map_length in Hlen. destruct ts; [|discriminate]. split; [reflexivity|].
        destruct (wf_prod0 g Hwf) as [p0 [Hp0 [_ Hr0]]]. unfold rhs in Hmap. rewrite Hp0, Hr0 in Hmap.
        simpl in Hmap. inversion Hmap. reflexivity.
      - destruct (g_layout g) as [lsym|] eqn:Hlayg; [|discriminate].
        assert (Hit : has_item T s 1 1) by (exists st; split; assumption).
        destruct (linked_top_items g T Hsound 0 (is_start_0 T) _ _ _ _ _ Hl Hit) as [Hle [[si [Hsi Hsi0]] Hmap]].
        pose proof (augl_item_state g T Hsound _ _ Hlayg Hsi0) as Hls.
        assert (Hst : is_start_state T si = true).
        { unfold is_start_state. rewrite Hls. rewrite Nat.eqb_refl. apply orb_true_r. }
        pose proof (linked_start_bottom g T Hsound _ _ _ _ _ Hl Hsi Hst) as Hlen.
        cbn [length] in Hlen. rewrite map_length in Hlen. destruct ts; [|discriminate].
        exfalso. destruct (linked_single _ _ _ Hl) as [s1 Heq]. rewrite Heq in Hsi. simpl in Hsi.
        injection Hsi as Hsi. subst si.
        eapply (wf_layout_state_ne0 g T Hsound); [exact Hls|reflexivity]. }
    destruct Hone as [-> Hroot].
    inversion Hloc as [|? ? Hloct _]; subst.
    assert (Hev : evs [t] = events (resolve inp t)) by (unfold evs, rts; simpl; apply app_nil_r).
    assert (Hlv : lvs [t] = leaves (resolve inp t)) by (unfold lvs, rts; simpl; apply app_nil_r).
    rewrite Hev in Hmono, Hlast. rewrite Hlv in Htext, Hll.
    unfold tree_good. split; [|split; [|split; [|split]]].
    + unfold spans_ok_b. rewrite Hloct, Hmono. cbn [andb].
      apply forallb_forall. intros [lo hi] Hx.
      pose proof (mono_b_all_le _ _ Hmono) as Hall. rewrite Forall_forall in Hall. specialize (Hall _ Hx).
      cbn beta iota in Hall. apply Nat.leb_le. pose proof (pos_ok_off _ HEok) as Hle. unfold Eoff in Hlast. lia.
    + unfold lossless_b. destruct (leaves (resolve inp t)) as [|x xs] eqn:El; [reflexivity|].
      apply list_eqb_eq. rewrite Htext. f_equal. symmetry. apply Hll. discriminate.
    + intros Hsk. specialize (Hlw Hsk). inversion Hlw; assumption.
    + pose proof (linked_valid g T _ _ _ Hl) as Hv. inversion Hv; assumption.
    + exact Hroot.
Qed.

Lemma bloop_ok : forall fuel0 fuel c t cx,
  BInv c -> bloop g T inp fuel0 false (lexf (S fuel)) c = (BOk t, cx) -> tree_good t.
Proof.
  induction fuel0 as [|fuel0 IH]; intros fuel c t cx Hinv H; simpl in H; [discriminate|].
  destruct (bstep g T inp false (lexf (S fuel)) c) as [[c'|o cx']|] eqn:Hstep; [| |discriminate].
  - eapply IH; [eapply bstep_inv; eassumption|exact H].
  - inversion H; subst o cx'. eapply bstep_done_ok; eassumption.
Qed.

Theorem model_tree_ok_main fuel t :
  bparse g T inp mt fuel cfg = BOk t -> tree_good t.
Proof.
  unfold bparse. rewrite Hnl. destruct fuel as [|fuel]; [simpl; discriminate|].
  unfold bparse_ctx. fold (lexf (S fuel)).
  set (cx0 := mkCtx start_pos (mkSpan start_pos start_pos) None 0).
  destruct (lexf (S fuel) cx0) as [[r cx1]|] eqn:Hlex; [|simpl; discriminate].
  destruct (lexctx_after_shift start_pos (mkSpan start_pos start_pos) 0 (start_pos_ok inp) eq_refl) as [Hcx1 [Hsp1 Hst1]].
  fold cx0 in Hcx1, Hsp1, Hst1.
  assert (Hp : pos_ok_b inp (cx_pos (lexctx cx0)) = true) by (destruct Hcx1; assumption).
  destruct (lexf_tok fuel _ _ _ Hp Hlex) as [Heq Htok]. subst cx1.
  destruct r as [tk|pe ex|np]; try (simpl; discriminate).
  intros H. destruct (bloop g T inp (S fuel) false (lexf (S fuel)) _) as [o cx'] eqn:Hloop.
  simpl in H. subst o. eapply bloop_ok; [|exact Hloop].
  constructor; cbn [b_stk b_trs b_cx b_tok map fst erase length firstn].
  - constructor.
  - reflexivity.
  - constructor.
  - reflexivity.
  - unfold evs, rts. simpl. unfold last_hi. simpl. lia.
  - exact Hcx1.
  - unfold lvs, rts, Eoff. simpl. rewrite Hsp1. reflexivity.
  - intros _. constructor.
  - apply Htok. reflexivity.
  - intros d Hne. exfalso. apply Hne. reflexivity.
Qed.

End RoundTrip.

(* the hypotheses on the measured table as a boolean, evaluated on every input *)
Definition mt_ok_b (inp : list nat) (mt : mtable) : bool :=
  forallb (fun off =>
             (off + ws_len mt off <=? length inp) &&
             (ws_len mt (off + ws_len mt off) =? 0) &&
             forallb (fun '(_, n) => off + n <=? length inp) (snd (mt_lookup mt off)))
          (seq 0 (S (length inp))).

Lemma mt_ok_b_spec inp mt : mt_ok_b inp mt = true -> mt_ok inp mt.
Proof.
  unfold mt_ok_b. rewrite forallb_forall. intros H.
  assert (Hoff : forall off, off <= length inp ->
            (off + ws_len mt off <=? length inp) && (ws_len mt (off + ws_len mt off) =? 0) &&
            forallb (fun '(_, n) => off + n <=? length inp) (snd (mt_lookup mt off)) = true).
  { intros off Hle. apply H. apply in_seq. lia. }
  constructor.
  - intros off Hle. specialize (Hoff off Hle). apply andb_true_iff in Hoff. destruct Hoff as [Hoff _].
    apply andb_true_iff in Hoff. destruct Hoff as [Hoff _]. apply Nat.leb_le in Hoff. exact Hoff.
  - intros off Hle. specialize (Hoff off Hle). apply andb_true_iff in Hoff. destruct Hoff as [Hoff _].
    apply andb_true_iff in Hoff. destruct Hoff as [_ Hoff]. apply Nat.eqb_eq in Hoff. exact Hoff.
  - intros off t n Hle Hm. specialize (Hoff off Hle). apply andb_true_iff in Hoff. destruct Hoff as [_ Hoff].
    rewrite forallb_forall in Hoff. unfold match_len in Hm.
    destruct (find (fun e => fst e =? t) (snd (mt_lookup mt off))) as [[t' n']|] eqn:E; [|discriminate].
    inversion Hm; subst n'. apply find_some in E. destruct E as [Hin _].
    specialize (Hoff _ Hin). cbn beta iota in Hoff. apply Nat.leb_le in Hoff. exact Hoff.
Qed.
