(* C09, sugar_language: the theorem on the output grammar. *)
From Coq Require Import String Ascii NArith Permutation.
From RV Require Import Util Spec.Grammar Model.Builder Spec.BuilderSpec Proofs.Builder Proofs.BuilderPanic Proofs.BuilderWf
     Proofs.BuilderTotal Proofs.BuilderAst Proofs.BuilderC09 Proofs.BuilderSugar Proofs.SugarLang.

Definition three_ops : list repop := [OneOrMore; ZeroOrMore; Optional].

(* the helper names a successful sugar use needs are neither rule names nor terminal names *)
Definition use_free (R : list string) (T : smap termdata) (M : smap (string * nat)) (r : symref) : Prop :=
  forall op b, sr_rep r = Some op -> use_base M r = Some b ->
    (exists h, In h three_ops /\ rep_op op = h) /\
    forall h, In h three_ops -> helper_used (rep_op op) h = true ->
              existsb (String.eqb (nt_name b h)) R = false /\ sm_mem (nt_name b h) T = false.

Lemma desugar_free st dps r st' dps' sym :
  desugar st dps r = ROk (st', dps', sym) -> use_free (s_rule_names st) (s_terms st) (s_matches st) r.
Proof.
  unfold desugar, use_free, use_base. destruct (sr_sym r) as [sy|]; [|discriminate].
  destruct (sr_rep r) as [op|]; [|intros _ op b X; discriminate].
  intros H op0 b E1 E2. inversion E1; subst op0. inv_bind H. inv_bind H. inv_bind H. inv_bind H.
  assert (a0 = b).
  { destruct sy as [n|s]; [inversion Hb0; inversion E2; congruence|].
    destruct (sm_get s (s_matches st)) as [[tn i]|]; [inversion Hb0; inversion E2; congruence|discriminate]. }
  subst a0. split.
  - destruct (rep_op op); try discriminate; eexists; (split; [|reflexivity]); simpl; auto.
  - intros h Hin Hu. apply (helper_clash_ok _ _ _ _ _ Hb1 h Hin Hu).
Qed.

Section WithIdent.
  Variable ident_ok : string -> bool.

  Definition env_eq (st st' : bstate) : Prop :=
    s_rule_names st' = s_rule_names st /\ s_terms st' = s_terms st /\ s_matches st' = s_matches st.

  Lemma hsteps_env st dps st' dps' : hsteps st dps st' dps' -> env_eq st st'.
  Proof. intros H. apply hsteps_frame in H. destruct H as [H1 [H2 [_ [_ H5]]]]. repeat split; assumption. Qed.

  Lemma do_assign_free st dps a st' dps' ra :
    do_assign ident_ok st dps a = ROk (st', dps', ra) ->
    use_free (s_rule_names st) (s_terms st) (s_matches st) (assign_ref a).
  Proof.
    unfold do_assign. destruct a as [n r|n r|r]; simpl; intros H.
    - inv_bind H. inv_bind H. destruct a0 as [[st1 dps1] sym]. eapply desugar_free; eauto.
    - inv_bind H. inv_bind H. destruct a0 as [[st1 dps1] sym]. eapply desugar_free; eauto.
    - inv_bind H. destruct a as [[st1 dps1] sym]. eapply desugar_free; eauto.
  Qed.

  Lemma do_assigns_free asg : forall st dps st' dps' ras,
    do_assigns ident_ok st dps asg = ROk (st', dps', ras) ->
    forall a, In a (filter (fun a => negb (is_empty_ref a)) asg) ->
              use_free (s_rule_names st) (s_terms st) (s_matches st) (assign_ref a).
  Proof.
    induction asg as [|a rest IH]; simpl; intros st dps st' dps' ras H b Hin; [contradiction|].
    destruct (is_empty_ref a) eqn:Ee; simpl in Hin; [eapply IH; eauto|].
    inv_bind H. destruct a0 as [[st1 dps1] ra]. inv_bind H. destruct a0 as [[st2 dps2] ras2].
    destruct Hin as [Hin|Hin].
    - subst b. eapply do_assign_free; eauto.
    - apply do_assign_hsteps in Hb. apply hsteps_env in Hb. destruct Hb as [E1 [E2 E3]].
      rewrite <- E1, <- E2, <- E3. eapply IH; eauto.
  Qed.

  Lemma do_alt_free st rpos r rmeta nt_idx ntidx alt st' :
    do_alt ident_ok st rpos r rmeta nt_idx ntidx alt = ROk st' ->
    env_eq st st' /\ forall a, In a (alt_assigns alt) -> use_free (s_rule_names st) (s_terms st) (s_matches st) (assign_ref a).
  Proof.
    unfold do_alt. intros H. inv_bind H. destruct a as [[st1 dps] rhs]. inv_bind H. inversion H; subst; clear H. split.
    - apply do_assigns_hsteps in Hb. apply hsteps_env in Hb. exact Hb.
    - intros x Hin. eapply (do_assigns_free _ _ _ _ _ _ Hb). exact Hin.
  Qed.

  Lemma env_eq_trans a b c : env_eq a b -> env_eq b c -> env_eq a c.
  Proof. unfold env_eq; intros [? [? ?]] [? [? ?]]; repeat split; congruence. Qed.

  Lemma do_alts_free alts : forall st rpos r rmeta nt_idx ntidx st',
    do_alts ident_ok st rpos r rmeta nt_idx ntidx alts = ROk st' ->
    env_eq st st' /\ forall alt a, In alt alts -> In a (alt_assigns alt) ->
                                   use_free (s_rule_names st) (s_terms st) (s_matches st) (assign_ref a).
  Proof.
    induction alts as [|alt rest IH]; simpl; intros st rpos r rmeta nt_idx ntidx st' H.
    - inversion H; subst. split; [repeat split|intros alt a []].
    - inv_bind H. destruct (do_alt_free _ _ _ _ _ _ _ _ Hb) as [E G]. destruct (IH _ _ _ _ _ _ _ H) as [E' G'].
      split; [eapply env_eq_trans; eauto|]. intros alt0 a0 [Hin|Hin] Ha.
      + subst alt0. apply G. exact Ha.
      + destruct E as [E1 [E2 E3]]. rewrite <- E1, <- E2, <- E3. eapply G'; eauto.
  Qed.

  Lemma do_rules_free rs : forall st rpos st',
    do_rules ident_ok st rpos rs = ROk st' ->
    env_eq st st' /\ forall r alt a, In r rs -> In alt (r_rhs r) -> In a (alt_assigns alt) ->
                                     use_free (s_rule_names st) (s_terms st) (s_matches st) (assign_ref a).
  Proof.
    induction rs as [|r rest IH]; simpl; intros st rpos st' H.
    - inversion H; subst. split; [repeat split|intros r alt a []].
    - inv_bind H. destruct (IH _ _ _ H) as [E' G'].
      assert (X : env_eq st a /\ forall alt a0, In alt (r_rhs r) -> In a0 (alt_assigns alt) ->
                                                use_free (s_rule_names st) (s_terms st) (s_matches st) (assign_ref a0)).
      { unfold do_rule in Hb. inv_bind Hb. inv_bind Hb. inv_bind Hb.
        destruct (sm_get (r_name r) (s_nts st)); apply do_alts_free in Hb; exact Hb. }
      destruct X as [E G]. split; [eapply env_eq_trans; eauto|]. intros r0 alt a0 [Hin|Hin] Halt Ha.
      + subst r0. eapply G; eauto.
      + destruct E as [E1 [E2 E3]]. rewrite <- E1, <- E2, <- E3. eapply G'; eauto.
  Qed.

  Lemma rules_phase_free f st0 st1 :
    rules_phase ident_ok f st0 = ROk st1 ->
    s_terms st1 = s_terms st0 /\ s_matches st1 = s_matches st0 /\ s_rule_names st1 = map r_name (file_rules f) /\
    forall r alt a, In r (file_rules f) -> In alt (r_rhs r) -> In a (alt_assigns alt) ->
                    use_free (s_rule_names st1) (s_terms st1) (s_matches st1) (assign_ref a).
  Proof.
    unfold rules_phase, file_rules. destruct (f_rules f) as [rs|]; intros H; [|discriminate].
    unfold extract_rules in H. destruct rs as [|r0 rest]; [discriminate|].
    destruct (do_rules_free _ _ _ _ H) as [[E1 [E2 E3]] G].
    assert (T : forall x y, s_terms (set_rule_names x y) = s_terms x) by reflexivity.
    split; [|split; [|split]].
    - rewrite E2. destruct (find _ _); reflexivity.
    - rewrite E3. destruct (find _ _); reflexivity.
    - rewrite E1. reflexivity.
    - intros r alt a Hr Halt Ha. rewrite E1, E2, E3. eapply G; eauto.
  Qed.
End WithIdent.

(* ------------------------------------------------------------------ helper names determine base and operator *)
Lemma append_length a b : String.length (String.append a b) = String.length a + String.length b.
Proof. induction a as [|c a IH]; simpl; [reflexivity|rewrite IH; reflexivity]. Qed.

Lemma append_inj_l s : forall a b, String.append a s = String.append b s -> a = b.
Proof.
  induction a as [|c a IH]; intros b H; destruct b as [|d b]; simpl in H.
  - reflexivity.
  - exfalso. apply (f_equal String.length) in H. simpl in H. rewrite append_length in H. lia.
  - exfalso. apply (f_equal String.length) in H. simpl in H. rewrite append_length in H. lia.
  - inversion H; subst. f_equal. apply IH. assumption.
Qed.

Lemma nt_name_inj b op b' op' :
  In op three_ops -> In op' three_ops -> nt_name b op = nt_name b' op' -> op = op' /\ b = b'.
Proof.
  intros Ho Ho' H. unfold nt_name in H.
  assert (Hl : last_ascii (helper_suffix op) = last_ascii (helper_suffix op')).
  { assert (N1 : helper_suffix op <> EmptyString) by (destruct op; discriminate).
    assert (N2 : helper_suffix op' <> EmptyString) by (destruct op'; discriminate).
    pose proof (last_ascii_append b _ N1) as L1. pose proof (last_ascii_append b' _ N2) as L2.
    rewrite H in L1. congruence. }
  assert (op = op').
  { unfold three_ops in *. simpl in Ho, Ho'.
    destruct Ho as [E|[E|[E|[]]]]; destruct Ho' as [E'|[E'|[E'|[]]]]; subst op op'; simpl in Hl; try reflexivity; discriminate. }
  subst op'. split; [reflexivity|]. eapply append_inj_l; eauto.
Qed.

Lemma resolved_as_fun st s i j : resolved_as st s i -> resolved_as st s j -> i = j.
Proof.
  unfold resolved_as. destruct s as [n|lit].
  - destruct (sm_get n (s_terms st)); [congruence|]. destruct (sm_get n (s_nts st)); [congruence|contradiction].
  - intros [t1 H1] [t2 H2]. congruence.
Qed.

Section WithIdent2.
  Variable ident_ok : string -> bool.

  Lemma In_prods_nth st q : pos_ok st -> In q (s_prods st) -> nth_error (s_prods st) (pd_idx q) = Some q.
  Proof.
    intros [_ Hpos] Hin. apply In_nth_error in Hin. destruct Hin as [n Hn].
    pose proof (Hpos n q Hn) as E. simpl in E. rewrite E. exact Hn.
  Qed.

  Lemma rules_phase_HI f terms n st1 :
    rules_phase ident_ok f (initial_state f terms n) = ROk st1 ->
    HI st1 [] /\
    forall r alt, In r (file_rules f) -> In alt (r_rhs r) -> uses_ok (s_seps st1) (s_matches (initial_state f terms n)) alt.
  Proof.
    unfold rules_phase, file_rules. destruct (f_rules f) as [rs|]; intros H; [|discriminate].
    destruct (extract_rules_HI _ _ _ _ H eq_refl eq_refl) as [G1 [G2 _]]. split; assumption.
  Qed.

  Lemma assemble_nterm st1 ps2 sn g : assemble st1 ps2 sn = ROk g -> length (bg_terms g) = length (s_terms st1).
  Proof.
    intros Hasm. unfold assemble in Hasm. inv_bind Hasm. inv_bind Hasm. inv_bind Hasm. inv_bind Hasm.
    inversion Hasm; subst g; simpl. rewrite map_length. unfold indexed. rewrite combine_length, seq_length, Nat.min_id.
    rewrite sort_by_length, map_length. reflexivity.
  Qed.

  (* all the facts about a successful build, with one state *)
  Record built (f : file) (g : bgrammar) (st1 : bstate) : Prop := mkBuilt {
    b_pos : pos_ok st1;
    b_hi : HI st1 [];
    b_M : matches_from (s_terms st1) (s_matches st1);
    b_nterm : length (bg_terms g) = length (s_terms st1);
    b_rules : s_rule_names st1 = map r_name (file_rules f);
    b_li : Forall (alt_pred (file_rules f) (s_matches st1)) (s_prods st1);
    b_uses : forall r alt, In r (file_rules f) -> In alt (r_rhs r) -> uses_ok (s_seps st1) (s_matches st1) alt;
    b_free : forall r alt a, In r (file_rules f) -> In alt (r_rhs r) -> In a (alt_assigns alt) ->
                             use_free (s_rule_names st1) (s_terms st1) (s_matches st1) (assign_ref a);
    b_out : forall i p, nth_error (bg_prods g) i = Some p ->
              exists pd, nth_error (s_prods st1) i = Some pd /\ op_origin p = pd_origin pd /\ op_nt p = pd_nt pd /\
                         op_syms p = map ra_sym (pd_rhs pd) /\ Forall2 (resolved_as st1) (op_syms p) (op_rhs p);
    b_len : length (bg_prods g) = length (s_prods st1);
    b_terms : forall k t, In (k, t) (s_terms st1) ->
                exists ot, In ot (bg_terms g) /\ ot_idx ot = td_idx t /\ ot_name ot = td_name t /\ ot_rec ot = td_rec t
  }.

  Lemma build_built f g : build_grammar ident_ok f = BDone g -> exists st1, built f g st1.
  Proof.
    intros H. destruct (build_facts _ _ _ H) as [terms [next_t [st1 [ps2 [rhss [Ht [Hr [Hres [Hasm [Hrs [Hg [HL [Hterms HMf]]]]]]]]]]]]].
    destruct HL as [HM [Hn [Hu [Hp Hc]]]].
    destruct (rules_phase_HI _ _ _ _ Hr) as [Hhi Huses].
    destruct (rules_phase_free _ _ _ _ Hr) as [F1 [F2 [F3 F4]]].
    exists st1. constructor.
    - eapply rules_phase_pos; [exact Hr|]. unfold pos_ok, initial_state; simpl. split; [reflexivity|].
      intros j p Hj; destruct j; discriminate.
    - exact Hhi.
    - rewrite Hterms. exact HMf.
    - eapply assemble_nterm; eauto.
    - exact F3.
    - rewrite HM. exact Hp.
    - rewrite HM. exact Huses.
    - exact F4.
    - intros i p Hi. destruct (output_prod _ _ _ _ _ _ _ Ht Hr Hres Hasm i p Hi)
        as [pd [Hpd [E1 [_ [_ [_ [_ [_ [_ [_ [E9 [_ E11]]]]]]]]]]]].
      exists pd. split; [exact Hpd|split; [exact E1|split; [exact E9|split; [exact E11|]]]].
      rewrite Hg in Hi. rewrite nth_error_map in Hi.
      destruct (nth_error (combine ps2 rhss) i) as [[q syms]|] eqn:Ec; [|discriminate].
      simpl in Hi. inversion Hi; subst p; clear Hi. simpl.
      apply combine_nth_error in Ec. destruct Ec as [Eq Es].
      pose proof (resolve_phase_resolved _ _ Hu Hres) as Hall. rewrite Forall_forall in Hall.
      specialize (Hall q (nth_error_In _ _ Eq)).
      eapply rhs_symbols_resolved; [exact Hall|]. eapply all_rhs_symbols_nth; eauto.
    - rewrite Hg, map_length, combine_length. pose proof (all_rhs_symbols_length _ _ Hrs) as L1.
      pose proof (resolve_phase_keys _ _ Hres) as L2. apply Forall2_len in L2. lia.
    - intros k t Hin. destruct (assemble_terms _ _ _ _ Hasm k t Hin) as [ot [O1 [O2 [O3 [O4 _]]]]]. exists ot. auto.
  Qed.
End WithIdent2.

(* ------------------------------------------------------------------ a helper has exactly its two productions *)
Section Main.
  Variable f : file.
  Variable g : bgrammar.
  Variable st1 : bstate.
  Hypothesis B : built f g st1.

  Let gs := to_spec g.
  Let tl := length (s_terms st1).

  Lemma gs_get_prod q pr :
    get_prod gs q = Some pr ->
    exists po, nth_error (bg_prods g) q = Some po /\ p_lhs pr = op_nt po + tl /\ p_rhs pr = op_rhs po.
  Proof.
    unfold get_prod, gs, to_spec; simpl. rewrite nth_error_map.
    destruct (nth_error (bg_prods g) q) as [po|]; [|discriminate]. intros H; inversion H; subst; simpl.
    exists po. rewrite (b_nterm _ _ _ B). auto.
  Qed.

  Lemma gs_has_prod q po :
    nth_error (bg_prods g) q = Some po -> has_prod gs q (op_nt po + tl) (op_rhs po).
  Proof.
    intros H. unfold has_prod, get_prod, gs, to_spec; simpl. rewrite nth_error_map, H. simpl.
    eexists. split; [reflexivity|]. simpl. rewrite (b_nterm _ _ _ B). auto.
  Qed.

  Lemma out_at i pd :
    nth_error (s_prods st1) i = Some pd ->
    exists po, nth_error (bg_prods g) i = Some po /\ op_nt po = pd_nt pd /\ op_syms po = map ra_sym (pd_rhs pd) /\
               Forall2 (resolved_as st1) (op_syms po) (op_rhs po).
  Proof.
    intros H. assert (Hlt : i < length (bg_prods g)).
    { rewrite (b_len _ _ _ B). apply nth_error_Some. congruence. }
    destruct (nth_error (bg_prods g) i) as [po|] eqn:E; [|apply nth_error_None in E; lia].
    destruct (b_out _ _ _ B i po E) as [pd' [H1 [_ [H3 [H4 H5]]]]]. rewrite H in H1. inversion H1; subst pd'.
    exists po. auto.
  Qed.

  Lemma helper_two_prods h nt :
    In (h, nt) (s_nts st1) -> is_helper_key st1 h ->
    exists rhs0 rhs1 R0 R1,
      doc_shape (s_seps st1) h rhs0 rhs1 /\
      two_prods gs (nd_idx nt + tl) R0 R1 /\
      Forall2 (resolved_as st1) (map ra_sym rhs0) R0 /\ Forall2 (resolved_as st1) (map ra_sym rhs1) R1 /\
      (exists q0 q1, In q0 (bg_prods g) /\ In q1 (bg_prods g) /\
                     op_syms q0 = map ra_sym rhs0 /\ op_rhs q0 = R0 /\ op_syms q1 = map ra_sym rhs1 /\ op_rhs q1 = R1).
  Proof.
    intros Hin Hkey. destruct (b_hi _ _ _ B) as [Hk Hbd Hi Ho Hs].
    destruct (Hs h nt Hin Hkey) as [p0 [rhs0 [rhs1 [Hp [Hq0 [Hq1 Hdoc]]]]]]. rewrite app_nil_r in Hq0, Hq1.
    pose proof (In_prods_nth _ _ (b_pos _ _ _ B) Hq0) as N0. pose proof (In_prods_nth _ _ (b_pos _ _ _ B) Hq1) as N1.
    change (pd_idx (mk_helper_prod p0 (nd_idx nt) 0 rhs0)) with p0 in N0.
    change (pd_idx (mk_helper_prod (S p0) (nd_idx nt) 1 rhs1)) with (S p0) in N1.
    destruct (out_at _ _ N0) as [po0 [O0 [T0 [S0 F0]]]]. destruct (out_at _ _ N1) as [po1 [O1 [T1 [S1 F1]]]].
    change (pd_nt (mk_helper_prod p0 (nd_idx nt) 0 rhs0)) with (nd_idx nt) in T0.
    change (pd_nt (mk_helper_prod (S p0) (nd_idx nt) 1 rhs1)) with (nd_idx nt) in T1.
    change (pd_rhs (mk_helper_prod p0 (nd_idx nt) 0 rhs0)) with rhs0 in S0.
    change (pd_rhs (mk_helper_prod (S p0) (nd_idx nt) 1 rhs1)) with rhs1 in S1.
    exists rhs0, rhs1, (op_rhs po0), (op_rhs po1). split; [exact Hdoc|]. split; [|split; [|split]].
    - unfold two_prods. split.
      + unfold gs, to_spec, g_nterm; simpl. rewrite map_length, (b_nterm _ _ _ B). fold tl. lia.
      + exists p0, (S p0). split; [|split].
        * pose proof (gs_has_prod _ _ O0) as X. rewrite T0 in X. exact X.
        * pose proof (gs_has_prod _ _ O1) as X. rewrite T1 in X. exact X.
        * intros q pr Hq Hl. destruct (gs_get_prod _ _ Hq) as [po [Oq [Lq _]]].
          destruct (b_out _ _ _ B q po Oq) as [pd [Pq [_ [Tq _]]]].
          assert (Hnt : pd_nt pd = nd_idx nt) by lia.
          assert (Hidx : pd_idx pd = q).
          { destruct (b_pos _ _ _ B) as [_ Hpos]. apply (Hpos q pd Pq). }
          destruct (Ho pd) as [k' [nt' [I1 [I2 I3]]]]; [rewrite app_nil_r; eapply nth_error_In; eauto|].
          assert (k' = h) by (eapply Hi; eauto; congruence). subst k'.
          assert (nt' = nt).
          { pose proof (NoDup_keys_get _ _ _ Hk I1) as G1. pose proof (NoDup_keys_get _ _ _ Hk Hin) as G2. congruence. }
          subst nt'. rewrite Hp, Hidx in I3. destruct I3 as [I3|[I3|[]]]; auto.
    - rewrite <- S0. exact F0.
    - rewrite <- S1. exact F1.
    - exists po0, po1. repeat split; auto; eapply nth_error_In; eauto.
  Qed.

  (* a name that is no terminal resolves to the nonterminal of that name *)
  Lemma resolved_nonterm n N :
    sm_mem n (s_terms st1) = false -> resolved_as st1 (GName n) N ->
    exists nt, In (n, nt) (s_nts st1) /\ N = nd_idx nt + tl.
  Proof.
    intros Hf H. simpl in H. apply sm_mem_false_get in Hf. rewrite Hf in H.
    destruct (sm_get n (s_nts st1)) as [nt|] eqn:E; [|contradiction]. exists nt. split; [apply sm_get_In; exact E|exact H].
  Qed.

  Lemma Forall2_map_inv1 {TA TB TC} (R : TB -> TC -> Prop) (fn : TA -> TB) l1 l2 :
    Forall2 R (map fn l1) l2 -> Forall2 (fun a c => R (fn a) c) l1 l2.
  Proof. revert l2. induction l1; intros l2 H; inversion H; subst; constructor; auto. Qed.
  Lemma F2_0 {TA TB} (R : TA -> TB -> Prop) l : Forall2 R [] l -> l = [].
  Proof. intros H; inversion H; reflexivity. Qed.
  Lemma F2_1 {TA TB} (R : TA -> TB -> Prop) a l : Forall2 R [a] l -> exists y, l = [y] /\ R a y.
  Proof. intros H; inversion H as [|? y ? l' Ry H']; subst. apply F2_0 in H'. subst. eauto. Qed.
  Lemma F2_2 {TA TB} (R : TA -> TB -> Prop) a b l : Forall2 R [a; b] l -> exists y z, l = [y; z] /\ R a y /\ R b z.
  Proof. intros H; inversion H as [|? y ? l' Ry H']; subst. apply F2_1 in H'. destruct H' as [z [E Rz]]. subst. eauto. Qed.
  Lemma F2_3 {TA TB} (R : TA -> TB -> Prop) a b c l :
    Forall2 R [a; b; c] l -> exists y z w, l = [y; z; w] /\ R a y /\ R b z /\ R c w.
  Proof. intros H; inversion H as [|? y ? l' Ry H']; subst. apply F2_2 in H'. destruct H' as [z [w [E [Rz Rw]]]]. subst. eauto 8. Qed.

  Lemma map_sym_resolving l : map ra_sym (map resolving l) = map GName l.
  Proof. induction l; simpl; congruence. Qed.

  Lemma Forall2_nth_l {TA TB} (R : TA -> TB -> Prop) l1 l2 k x :
    Forall2 R l1 l2 -> nth_error l1 k = Some x -> exists y, nth_error l2 k = Some y /\ R x y.
  Proof.
    intros H. revert k. induction H; intros k Hk; destruct k; simpl in *; try discriminate.
    - inversion Hk; subst. eauto.
    - eauto.
  Qed.

  Lemma resolved_nonterm_intro n nt :
    sm_mem n (s_terms st1) = false -> In (n, nt) (s_nts st1) -> resolved_as st1 (GName n) (nd_idx nt + tl).
  Proof.
    intros Hf Hin. simpl. apply sm_mem_false_get in Hf. rewrite Hf.
    destruct (b_hi _ _ _ B) as [Hk _ _ _ _]. rewrite (NoDup_keys_get _ _ _ Hk Hin). reflexivity.
  Qed.

  (* the helper b1 of  b+ / b* : productions  b1: b1 [sep] b | b  with the separator recorded for b1 *)
  Lemma plus_helper b nt1 sep :
    In (nt_name b OneOrMore, nt1) (s_nts st1) -> is_helper_key st1 (nt_name b OneOrMore) ->
    sm_mem (nt_name b OneOrMore) (s_terms st1) = false ->
    sm_get (nt_name b OneOrMore) (s_seps st1) = Some sep ->
    plus_doc g (nd_idx nt1 + tl) b sep.
  Proof.
    intros Hin Hkey Hfree Hsep.
    destruct (helper_two_prods _ _ Hin Hkey) as [rhs0 [rhs1 [R0 [R1 [Hdoc [Htwo [F0 [F1 [q0 [q1 [I0 [I1 [S0 [E0 [S1 E1]]]]]]]]]]]]]]].
    destruct Hdoc as [b' [[Hh [sep' [Hs' [Hr0 Hr1]]]]|[[Hh _]|[Hh _]]]];
      try (exfalso; apply nt_name_inj in Hh; [destruct Hh; discriminate|simpl; auto|simpl; auto]).
    apply nt_name_inj in Hh; [|simpl; auto|simpl; auto]. destruct Hh as [_ Hb]. subst b'.
    rewrite Hsep in Hs'. inversion Hs'; subst sep'. clear Hs'.
    subst rhs0 rhs1. rewrite map_sym_resolving in F0, S0. simpl in F1, S1.
    pose proof (resolved_nonterm_intro _ _ Hfree Hin) as Hself.
    apply F2_1 in F1. destruct F1 as [X' [ER1 RX]].
    unfold plus_doc. exists X'. split.
    { exists q1, 0. rewrite S1, E1, ER1. simpl. auto. }
    destruct sep as [s|]; simpl in F0.
    - apply F2_3 in F0. destruct F0 as [N' [sp' [X2 [ER0 [RN [RS RX2]]]]]].
      assert (N' = nd_idx nt1 + tl) by (eapply resolved_as_fun; eauto). assert (X2 = X') by (eapply resolved_as_fun; eauto). subst N' X2.
      exists sp'. split.
      + exists q0, 1. rewrite S0, E0, ER0. simpl. auto.
      + unfold one_or_more_prods. rewrite <- ER0, <- ER1. exact Htwo.
    - apply F2_2 in F0. destruct F0 as [N' [X2 [ER0 [RN RX2]]]].
      assert (N' = nd_idx nt1 + tl) by (eapply resolved_as_fun; eauto). assert (X2 = X') by (eapply resolved_as_fun; eauto). subst N' X2.
      unfold one_or_more_prods. rewrite <- ER0, <- ER1. exact Htwo.
  Qed.

  Theorem sugar_use p i j r alt k a op :
    In p (bg_prods g) -> op_origin p = OAlt i j ->
    nth_error (file_rules f) i = Some r -> nth_error (r_rhs r) j = Some alt ->
    nth_error (alt_assigns alt) k = Some a -> sr_rep (assign_ref a) = Some op ->
    exists b N, use_base (s_matches st1) (assign_ref a) = Some b /\
                nth_error (op_syms p) k = Some (GName (nt_name b (rep_op op))) /\
                nth_error (op_rhs p) k = Some N /\
                sugar_doc g N b (rep_op op) (use_sep (assign_ref a)).
  Proof.
    intros Hp Ho Hr Halt Ha Hop.
    apply In_nth_error in Hp. destruct Hp as [pos Hpos].
    destruct (b_out _ _ _ B pos p Hpos) as [pd [Hpd [E1 [_ [Esyms Hres]]]]].
    pose proof (b_li _ _ _ B) as Hli. rewrite Forall_forall in Hli. specialize (Hli pd (nth_error_In _ _ Hpd) i j).
    rewrite <- E1 in Hli. destruct (Hli Ho) as [r' [alt' [G1 [G2 [_ [_ G5]]]]]].
    rewrite Hr in G1. inversion G1; subst r'. rewrite Halt in G2. inversion G2; subst alt'. clear G1 G2.
    assert (Hk : nth_error (map (fun x => Some (akey x)) (pd_rhs pd)) k = Some (spec_assign (s_matches st1) a)).
    { rewrite G5. rewrite nth_error_map, Ha. reflexivity. }
    rewrite nth_error_map in Hk. destruct (nth_error (pd_rhs pd) k) as [ra|] eqn:Era; [|discriminate].
    simpl in Hk. inversion Hk as [Hkey]. clear Hk.
    unfold spec_assign, spec_sym in Hkey. rewrite Hop in Hkey.
    assert (Hb : exists b, use_base (s_matches st1) (assign_ref a) = Some b /\ ra_sym ra = GName (nt_name b (rep_op op))).
    { unfold use_base. destruct (sr_sym (assign_ref a)) as [[n|s]|]; try discriminate.
      - exists n. split; [reflexivity|]. destruct a; simpl in Hkey; inversion Hkey; reflexivity.
      - destruct (sm_get s (s_matches st1)) as [[tn ii]|]; [|discriminate].
        exists tn. split; [reflexivity|]. destruct a; simpl in Hkey; inversion Hkey; reflexivity. }
    destruct Hb as [b [Hbase Hsym]]. exists b.
    assert (Hs : nth_error (op_syms p) k = Some (GName (nt_name b (rep_op op)))).
    { rewrite Esyms, nth_error_map, Era. simpl. rewrite Hsym. reflexivity. }
    destruct (Forall2_nth_l _ _ _ _ _ Hres Hs) as [N [HN Hresolve]]. exists N.
    split; [exact Hbase|split; [exact Hs|split; [exact HN|]]].
    assert (Hrin : In r (file_rules f)) by (eapply nth_error_In; eauto).
    assert (Haltin : In alt (r_rhs r)) by (eapply nth_error_In; eauto).
    assert (Hain : In a (alt_assigns alt)) by (eapply nth_error_In; eauto).
    destruct (b_free _ _ _ B r alt a Hrin Haltin Hain op b Hop Hbase) as [[h0 [Hh0 Eh0]] Hfree].
    pose proof (b_uses _ _ _ B r alt Hrin Haltin a Hain) as Hrec.
    assert (Hkeyof : forall h, In h three_ops -> helper_used (rep_op op) h = true ->
                               is_helper_key st1 (nt_name b h) /\ sm_mem (nt_name b h) (s_terms st1) = false).
    { intros h Hh Hu. destruct (Hfree h Hh Hu) as [F1 F2]. split; [|exact F2]. split; [exact F1|].
      apply helper_not_reserved. unfold three_ops in Hh. simpl in Hh. destruct Hh as [E|[E|[E|[]]]]; subst h; reflexivity. }
    unfold three_ops in Hh0. simpl in Hh0. rewrite Eh0 in *.
    destruct Hh0 as [E|[E|[E|[]]]]; subst h0; unfold sugar_doc.
    - (* OneOrMore *)
      destruct (Hkeyof OneOrMore ltac:(simpl; auto) eq_refl) as [K1 K2].
      destruct (resolved_nonterm _ _ K2 Hresolve) as [nt [Hin HNeq]]. subst N.
      apply plus_helper; try assumption. apply (Hrec op b Hop); [left; exact Eh0|exact Hbase].
    - (* ZeroOrMore *)
      destruct (Hkeyof ZeroOrMore ltac:(simpl; auto) eq_refl) as [K1 K2].
      destruct (Hkeyof OneOrMore ltac:(simpl; auto) eq_refl) as [L1 L2].
      destruct (resolved_nonterm _ _ K2 Hresolve) as [nt [Hin HNeq]]. subst N.
      destruct (helper_two_prods _ _ Hin K1) as [rhs0 [rhs1 [R0 [R1 [Hdoc [Htwo [F0 [F1 _]]]]]]]].
      destruct Hdoc as [b' [[Hh _]|[[Hh [Hr0 Hr1]]|[Hh _]]]];
        try (exfalso; apply nt_name_inj in Hh; [destruct Hh; discriminate|simpl; auto|simpl; auto]).
      apply nt_name_inj in Hh; [|simpl; auto|simpl; auto]. destruct Hh as [_ Hbb]. subst b' rhs0 rhs1.
      simpl in F0, F1. apply F2_0 in F1. apply F2_1 in F0. destruct F0 as [N1 [ER0 RN1]].
      destruct (resolved_nonterm _ _ L2 RN1) as [nt1 [Hin1 HN1]]. subst N1.
      exists (nd_idx nt1 + tl). split; [unfold zero_or_more_prods; rewrite <- ER0, <- F1; exact Htwo|].
      apply plus_helper; try assumption. apply (Hrec op b Hop); [right; exact Eh0|exact Hbase].
    - (* Optional *)
      destruct (Hkeyof Optional ltac:(simpl; auto) eq_refl) as [K1 K2].
      destruct (resolved_nonterm _ _ K2 Hresolve) as [nt [Hin HNeq]]. subst N.
      destruct (helper_two_prods _ _ Hin K1) as [rhs0 [rhs1 [R0 [R1 [Hdoc [Htwo [F0 [F1 [q0 [q1 [I0 [I1 [S0 [E0 _]]]]]]]]]]]]]].
      destruct Hdoc as [b' [[Hh _]|[[Hh _]|[Hh [Hr0 Hr1]]]]];
        try (exfalso; apply nt_name_inj in Hh; [destruct Hh; discriminate|simpl; auto|simpl; auto]).
      apply nt_name_inj in Hh; [|simpl; auto|simpl; auto]. destruct Hh as [_ Hbb]. subst b' rhs0 rhs1.
      simpl in F0, F1, S0. apply F2_0 in F1. apply F2_1 in F0. destruct F0 as [X [ER0 RX]].
      exists X. split; [|unfold optional_prods; rewrite <- ER0, <- F1; exact Htwo]. exists q0, 0. rewrite S0, E0, ER0. simpl. auto.
  Qed.
End Main.

Theorem sugar_language_main ident_ok f g :
  build_grammar ident_ok f = BDone g ->
  exists M,
    (forall s tn i, sm_get s M = Some (tn, i) ->
                    exists t, In t (bg_terms g) /\ ot_rec t = Some (RStr s) /\ ot_name t = tn /\ ot_idx t = i) /\
    forall p i j r alt k a op,
      In p (bg_prods g) -> op_origin p = OAlt i j ->
      nth_error (file_rules f) i = Some r -> nth_error (r_rhs r) j = Some alt ->
      nth_error (alt_assigns alt) k = Some a -> sr_rep (assign_ref a) = Some op ->
      exists b N, use_base M (assign_ref a) = Some b /\
                  nth_error (op_syms p) k = Some (GName (nt_name b (rep_op op))) /\
                  nth_error (op_rhs p) k = Some N /\
                  sugar_doc g N b (rep_op op) (use_sep (assign_ref a)).
Proof.
  intros H. destruct (build_built ident_ok f g H) as [st1 B]. exists (s_matches st1). split.
  - intros s tn i Hg. apply sm_get_In in Hg. destruct (b_M _ _ _ B _ _ _ Hg) as [kk [t [Hin [Hrec [Hnm Hi]]]]].
    destruct (b_terms _ _ _ B kk t Hin) as [ot [O1 [O2 [O3 O4]]]]. exists ot. split; [exact O1|]. repeat split; congruence.
  - intros p i j r alt k a op. apply (sugar_use f g st1 B).
Qed.

Lemma plus_doc_lang g N b sep :
  plus_doc g N b sep ->
  exists X osep, refers g b X /\ sep_sym g sep osep /\ one_or_more_prods (to_spec g) N X osep.
Proof.
  intros [X [HX H]]. destruct sep as [s|].
  - destruct H as [sp [HS H]]. exists X, (Some sp). simpl. auto.
  - exists X, None. simpl. auto.
Qed.

Lemma sugar_doc_lang g N b op sep : sugar_doc g N b op sep -> sugar_lang g N b op sep.
Proof.
  unfold sugar_doc, sugar_lang. destruct op; try (intros Hf; exact Hf).
  - intros [N1 [H0 H1]]. apply plus_doc_lang in H1. destruct H1 as [X [osep [HX [HS H1]]]].
    exists X, osep. split; [exact HX|split; [exact HS|]]. apply (star_language _ _ _ _ _ H0 H1).
  - intros H. apply plus_doc_lang in H. destruct H as [X [osep [HX [HS H1]]]].
    exists X, osep. split; [exact HX|split; [exact HS|]]. apply (plus_language _ _ _ _ H1).
  - intros [X [HX H]]. exists X. split; [exact HX|]. apply (optional_language _ _ _ H).
Qed.
