(* Where the grammar-builder model can panic (C16). *)
From Coq Require Import String Ascii NArith Permutation.
From RV Require Import Util Spec.Grammar Model.Builder Spec.BuilderSpec Proofs.Builder.

Lemma sep_check_no_panic st b op m p : sep_check st b op m <> RPanic p.
Proof.
  unfold sep_check. destruct op; try discriminate;
    (destruct (sm_get (nt_name b OneOrMore) (s_seps st)) as [ex|]; [destruct (opt_str_eqb ex m)|]; discriminate).
Qed.

Lemma helper_clash_no_panic st b op hops p : helper_clash st b op hops <> RPanic p.
Proof.
  induction hops as [|h rest IH]; simpl; [discriminate|].
  destruct (helper_used op h && (existsb (String.eqb (nt_name b h)) (s_rule_names st) || sm_mem (nt_name b h) (s_terms st)));
    [discriminate|exact IH].
Qed.

(* the unwrap after the is_none() diagnostic can not fail *)
Lemma desugar_no_panic st dps r p : desugar st dps r <> RPanic p.
Proof.
  unfold desugar. destruct (sr_sym r) as [sy|] eqn:Es; [|discriminate].
  destruct (sr_rep r) as [op|]; [|discriminate]. intros H.
  apply bind_RPanic in H. destruct H as [H|[modifier [_ H]]].
  { destruct (rep_mods op) as [[|m [|m2 rest]]|]; discriminate. }
  apply bind_RPanic in H. destruct H as [H|[b [_ H]]].
  { destruct sy as [n|s]; [discriminate|]. destruct (sm_get s (s_matches st)) as [[tn i]|]; discriminate. }
  apply bind_RPanic in H. destruct H as [H|[u [_ H]]]; [eapply helper_clash_no_panic; eauto|].
  apply bind_RPanic in H. destruct H as [H|[st2 [_ H]]]; [eapply sep_check_no_panic; eauto|].
  destruct (rep_op op); try discriminate.
  - destruct (if sm_mem (nt_name b OneOrMore) (s_nts st2) then (st2, dps)
              else create_one st2 dps (nt_name b OneOrMore) b modifier) as [st1 dps1].
    destruct (if sm_mem (nt_name b ZeroOrMore) (s_nts st1) then (st1, dps1)
              else create_zero st1 dps1 (nt_name b ZeroOrMore) (nt_name b OneOrMore)) as [st3 dps3].
    discriminate.
  - destruct (if sm_mem (nt_name b OneOrMore) (s_nts st2) then (st2, dps)
              else create_one st2 dps (nt_name b OneOrMore) b modifier) as [st1 dps1].
    discriminate.
  - destruct (if sm_mem (nt_name b Optional) (s_nts st2) then (st2, dps)
              else create_optional st2 dps (nt_name b Optional) b) as [st1 dps1].
    discriminate.
Qed.

(* a successful desugaring always leaves a symbol: the two later gsymbol.unwrap() can not fail *)
Lemma desugar_some st dps r st' dps' sym : desugar st dps r = ROk (st', dps', sym) -> sym <> None.
Proof.
  unfold desugar. destruct (sr_sym r) as [sy|] eqn:Es; [|discriminate].
  destruct (sr_rep r) as [op|]; [|intros H; inversion H; discriminate].
  intros H. inv_bind H. inv_bind H. inv_bind H. inv_bind H.
  destruct (rep_op op); try discriminate.
  - destruct (if sm_mem (nt_name a0 OneOrMore) (s_nts a2) then (a2, dps)
              else create_one a2 dps (nt_name a0 OneOrMore) a0 a) as [st1 dps1].
    destruct (if sm_mem (nt_name a0 ZeroOrMore) (s_nts st1) then (st1, dps1)
              else create_zero st1 dps1 (nt_name a0 ZeroOrMore) (nt_name a0 OneOrMore)) as [st3 dps3].
    inversion H; discriminate.
  - destruct (if sm_mem (nt_name a0 OneOrMore) (s_nts a2) then (a2, dps)
              else create_one a2 dps (nt_name a0 OneOrMore) a0 a) as [st1 dps1].
    inversion H; discriminate.
  - destruct (if sm_mem (nt_name a0 Optional) (s_nts a2) then (a2, dps)
              else create_optional a2 dps (nt_name a0 Optional) a0) as [st1 dps1].
    inversion H; discriminate.
Qed.

Section WithIdent.
  Variable ident_ok : string -> bool.

  Lemma check_identifier_no_panic n p : check_identifier ident_ok n <> RPanic p.
  Proof. unfold check_identifier. destruct (ident_ok n); discriminate. Qed.

  Lemma do_assign_no_panic st dps a p : do_assign ident_ok st dps a <> RPanic p.
  Proof.
    unfold do_assign. destruct a as [n r|n r|r]; intros H.
    - apply bind_RPanic in H. destruct H as [H|[u [_ H]]]; [eapply check_identifier_no_panic; eauto|].
      apply bind_RPanic in H. destruct H as [H|[[[st1 dps1] sym] [Hd H]]]; [eapply desugar_no_panic; eauto|].
      apply desugar_some in Hd. destruct sym; [discriminate|congruence].
    - apply bind_RPanic in H. destruct H as [H|[u [_ H]]]; [eapply check_identifier_no_panic; eauto|].
      apply bind_RPanic in H. destruct H as [H|[[[st1 dps1] sym] [Hd H]]]; [eapply desugar_no_panic; eauto|].
      apply desugar_some in Hd. destruct sym; [discriminate|congruence].
    - apply bind_RPanic in H. destruct H as [H|[[[st1 dps1] sym] [Hd H]]]; [eapply desugar_no_panic; eauto|].
      apply desugar_some in Hd. destruct sym; [discriminate|congruence].
  Qed.

  Lemma do_assigns_no_panic asg : forall st dps p, do_assigns ident_ok st dps asg <> RPanic p.
  Proof.
    induction asg as [|a rest IH]; simpl; intros st dps p H; [discriminate|].
    destruct (is_empty_ref a); [eapply IH; eauto|].
    apply bind_RPanic in H. destruct H as [H|[[[st1 dps1] ra] [_ H]]]; [eapply do_assign_no_panic; eauto|].
    apply bind_RPanic in H. destruct H as [H|[[[st2 dps2] ras] [_ H]]]; [eapply IH; eauto|discriminate].
  Qed.

  Lemma do_alt_no_panic st rpos r rmeta nt_idx ntidx alt p :
    do_alt ident_ok st rpos r rmeta nt_idx ntidx alt <> RPanic p.
  Proof.
    unfold do_alt. intros H. apply bind_RPanic in H. destruct H as [H|[[[st1 dps1] rhs] [_ H]]]; [eapply do_assigns_no_panic; eauto|].
    apply bind_RPanic in H. destruct H as [H|[u [_ H]]]; [|discriminate].
    destruct (meta_kind _); [eapply check_identifier_no_panic; eauto|discriminate].
  Qed.

  Lemma do_alts_no_panic alts : forall st rpos r rmeta nt_idx ntidx p,
    do_alts ident_ok st rpos r rmeta nt_idx ntidx alts <> RPanic p.
  Proof.
    induction alts as [|alt rest IH]; simpl; intros st rpos r rmeta nt_idx ntidx p H; [discriminate|].
    apply bind_RPanic in H. destruct H as [H|[st1 [_ H]]]; [eapply do_alt_no_panic; eauto|eapply IH; eauto].
  Qed.

  Lemma do_rule_no_panic st rpos r p : do_rule ident_ok st rpos r <> RPanic p.
  Proof.
    unfold do_rule. intros H. apply bind_RPanic in H.
    destruct H as [H|[u [_ H]]]; [eapply check_identifier_no_panic; eauto|].
    apply bind_RPanic in H. destruct H as [H|[u1 [_ H]]]; [destruct (existsb _ _); discriminate|].
    apply bind_RPanic in H. destruct H as [H|[u2 [_ H]]]; [destruct (sm_mem _ _); discriminate|].
    destruct (sm_get (r_name r) (s_nts st)) as [nt|]; eapply do_alts_no_panic; eauto.
  Qed.

  Lemma do_rules_no_panic rs : forall st rpos p, do_rules ident_ok st rpos rs <> RPanic p.
  Proof.
    induction rs as [|r rest IH]; simpl; intros st rpos p H; [discriminate|].
    apply bind_RPanic in H. destruct H as [H|[st1 [_ H]]]; [eapply do_rule_no_panic; eauto|eapply IH; eauto].
  Qed.

  Lemma extract_rules_panic st rs p :
    extract_rules ident_ok st rs = RPanic p -> rs = [] /\ p = PRules0.
  Proof.
    unfold extract_rules. destruct rs as [|r0 rest]; intros H.
    - inversion H; auto.
    - exfalso. eapply do_rules_no_panic; eauto.
  Qed.

  (* ---------------------------------------------------------------- terminals never panic *)
  Lemma collect_terminals_no_panic ts : forall terms n p, collect_terminals ident_ok ts terms n <> RPanic p.
  Proof.
    induction ts as [|t rest IH]; simpl; intros terms n p H; [discriminate|].
    apply bind_RPanic in H. destruct H as [H|[u [_ H]]]; [eapply check_identifier_no_panic; eauto|].
    apply bind_RPanic in H. destruct H as [H|[u1 [_ H]]]; [destruct (sm_mem _ _); discriminate|].
    apply bind_RPanic in H. destruct H as [H|[prio [_ H]]].
    - unfold term_prio in H. destruct (sm_get "priority"%string (tmeta_map (tr_meta t))) as [[n0|s|b|s]|]; try discriminate.
      destruct (N.ltb 99 n0); discriminate.
    - eapply IH; eauto.
  Qed.

  Lemma terms_phase_no_panic f p : terms_phase ident_ok f <> RPanic p.
  Proof. unfold terms_phase. destruct (f_terms f); [apply collect_terminals_no_panic|discriminate]. Qed.

  (* ---------------------------------------------------------------- resolution *)
  Definition str_resolved (a : rassign) : Prop :=
    match ra_sym a with GStr _ => ra_index a <> None | GName _ => True end.

  Lemma resolve_inline_rhs_no_panic m rhs : forall p, resolve_inline_rhs m rhs <> RPanic p.
  Proof.
    induction rhs as [|a rest IH]; simpl; intros p H; [discriminate|].
    apply bind_RPanic in H. destruct H as [H|[a1 [_ H]]].
    - destruct (ra_sym a); [discriminate|]. destruct (sm_get s m) as [[tn i]|]; discriminate.
    - apply bind_RPanic in H. destruct H as [H|[r1 [_ H]]]; [eapply IH; eauto|discriminate].
  Qed.

  Lemma resolve_inline_rhs_resolved m rhs : forall rhs', resolve_inline_rhs m rhs = ROk rhs' -> Forall str_resolved rhs'.
  Proof.
    induction rhs as [|a rest IH]; simpl; intros rhs' H.
    - inversion H; constructor.
    - inv_bind H. inv_bind H. inversion H; subst. constructor; [|eapply IH; eauto].
      unfold str_resolved. destruct (ra_sym a) eqn:Es.
      + inversion Hb; subst. rewrite Es. exact I.
      + destruct (sm_get s m) as [[tn i]|]; [|discriminate]. inversion Hb; subst; simpl. discriminate.
  Qed.

  Lemma resolve_inline_no_panic m ps : forall p, resolve_inline m ps <> RPanic p.
  Proof.
    induction ps as [|x rest IH]; simpl; intros p H; [discriminate|].
    apply bind_RPanic in H. destruct H as [H|[r1 [_ H]]]; [eapply resolve_inline_rhs_no_panic; eauto|].
    apply bind_RPanic in H. destruct H as [H|[r2 [_ H]]]; [eapply IH; eauto|discriminate].
  Qed.

  Lemma resolve_inline_resolved m ps : forall ps', resolve_inline m ps = ROk ps' ->
    Forall (fun p => Forall str_resolved (pd_rhs p)) ps'.
  Proof.
    induction ps as [|x rest IH]; simpl; intros ps' H.
    - inversion H; constructor.
    - inv_bind H. inv_bind H. inversion H; subst. constructor; [|eapply IH; eauto].
      simpl. eapply resolve_inline_rhs_resolved; eauto.
  Qed.

  Lemma resolve_refs_rhs_no_panic terms nts rl pn rhs :
    Forall str_resolved rhs -> forall p, resolve_refs_rhs terms nts rl pn rhs <> RPanic p.
  Proof.
    induction rhs as [|a rest IH]; simpl; intros Hf p H; [discriminate|].
    inversion Hf as [|? ? Ha Hrest]; subst.
    apply bind_RPanic in H. destruct H as [H|[a1 [_ H]]].
    - destruct (ra_index a) eqn:Ei; [discriminate|].
      apply bind_RPanic in H. destruct H as [H|[i [_ H]]]; [|discriminate].
      unfold str_resolved in Ha. unfold resolve_sym in H. destruct (ra_sym a).
      + destruct (sm_get n terms); [discriminate|].
        destruct (existsb (String.eqb n) ["AUG"; "AUGL"]%string); [discriminate|].
        destruct (sm_get n nts); [|discriminate].
        destruct ((rl =? 1) && (nd_idx n0 =? pn)); discriminate.
      + congruence.
    - apply bind_RPanic in H. destruct H as [H|[r1 [_ H]]]; [eapply IH; eauto|discriminate].
  Qed.

  Lemma resolve_refs_no_panic terms nts ps :
    Forall (fun p => Forall str_resolved (pd_rhs p)) ps -> forall p, resolve_refs terms nts ps <> RPanic p.
  Proof.
    induction ps as [|x rest IH]; simpl; intros Hf p H; [discriminate|].
    inversion Hf; subst.
    apply bind_RPanic in H. destruct H as [H|[r1 [_ H]]]; [eapply resolve_refs_rhs_no_panic; eauto|].
    apply bind_RPanic in H. destruct H as [H|[r2 [_ H]]]; [eapply IH; eauto|discriminate].
  Qed.

  Lemma resolve_phase_no_panic st p : resolve_phase st <> RPanic p.
  Proof.
    unfold resolve_phase. intros H. apply bind_RPanic in H. destruct H as [H|[ps1 [H1 H]]].
    - eapply resolve_inline_no_panic; eauto.
    - eapply resolve_refs_no_panic; [|exact H]. eapply resolve_inline_resolved; eauto.
  Qed.

  Lemma resolve_refs_rhs_all terms nts rl pn rhs : forall rhs',
    resolve_refs_rhs terms nts rl pn rhs = ROk rhs' -> Forall (fun a => ra_index a <> None) rhs'.
  Proof.
    induction rhs as [|a rest IH]; simpl; intros rhs' H.
    - inversion H; constructor.
    - inv_bind H. inv_bind H. inversion H; subst. constructor; [|eapply IH; eauto].
      destruct (ra_index a) eqn:Ei.
      + inversion Hb; subst. congruence.
      + inv_bind Hb. inversion Hb; subst; simpl. discriminate.
  Qed.

  Lemma resolve_refs_all terms nts ps : forall ps',
    resolve_refs terms nts ps = ROk ps' -> Forall (fun p => Forall (fun a => ra_index a <> None) (pd_rhs p)) ps'.
  Proof.
    induction ps as [|x rest IH]; simpl; intros ps' H.
    - inversion H; constructor.
    - inv_bind H. inv_bind H. inversion H; subst. constructor; [|eapply IH; eauto].
      simpl. eapply resolve_refs_rhs_all; eauto.
  Qed.

  Lemma rhs_symbols_no_panic rhs : Forall (fun a => ra_index a <> None) rhs -> forall p, rhs_symbols rhs <> RPanic p.
  Proof.
    induction rhs as [|a rest IH]; simpl; intros Hf p H; [discriminate|].
    inversion Hf; subst. destruct (ra_index a); [|congruence].
    apply bind_RPanic in H. destruct H as [H|[r1 [_ H]]]; [eapply IH; eauto|discriminate].
  Qed.

  Lemma all_rhs_symbols_no_panic ps :
    Forall (fun p => Forall (fun a => ra_index a <> None) (pd_rhs p)) ps -> forall p, all_rhs_symbols ps <> RPanic p.
  Proof.
    induction ps as [|x rest IH]; simpl; intros Hf p H; [discriminate|].
    inversion Hf; subst.
    apply bind_RPanic in H. destruct H as [H|[r1 [_ H]]]; [eapply rhs_symbols_no_panic; eauto|].
    apply bind_RPanic in H. destruct H as [H|[r2 [_ H]]]; [eapply IH; eauto|discriminate].
  Qed.

  (* ---------------------------------------------------------------- reachability marks: only the three index sites *)
  Section ReachPanic.
    Variable term_len : nat.
    Variable rhss : list (list nat).
    Variable rec : nat -> marks -> res marks.
    Hypothesis Hrec : forall pos mk p, rec pos mk = RPanic p -> reach_site p.

    Lemma reach_syms_panic syms : forall mk p, reach_syms term_len rec syms mk = RPanic p -> reach_site p.
    Proof.
      induction syms as [|s rest IH]; simpl; intros mk p H; [discriminate|].
      destruct (term_len <=? s).
      - apply bind_RPanic in H. destruct H as [H|[mk1 [_ H]]]; [eapply Hrec; eauto|eapply IH; eauto].
      - eapply IH; eauto.
    Qed.

    Lemma reach_prods_panic ps : forall mk p, reach_prods term_len rhss rec ps mk = RPanic p -> reach_site p.
    Proof.
      induction ps as [|q rest IH]; simpl; intros mk p H; [discriminate|].
      destruct (memb q (m_visited mk)); [eapply IH; eauto|].
      destruct (nth_error rhss q) as [syms|].
      - apply bind_RPanic in H. destruct H as [H|[mk1 [_ H]]]; [eapply reach_syms_panic; eauto|eapply IH; eauto].
      - inversion H. right; left; reflexivity.
    Qed.
  End ReachPanic.

  Lemma mark_reachable_panic fuel : forall term_len nts rhss pos mk p,
    mark_reachable fuel term_len nts rhss pos mk = RPanic p -> reach_site p.
  Proof.
    induction fuel as [|fuel IH]; simpl; intros term_len nts rhss pos mk p H; [discriminate|].
    destruct (nth_error nts pos) as [nt|].
    - eapply reach_prods_panic; [|exact H]. intros pos' mk' p' H'. eapply IH; eauto.
    - inversion H. right; right; reflexivity.
  Qed.

  (* ---------------------------------------------------------------- nonterminal names only accumulate *)
  Definition nts_mono (st st' : bstate) : Prop :=
    forall k, sm_mem k (s_nts st) = true -> sm_mem k (s_nts st') = true.

  Lemma nts_mono_refl st : nts_mono st st.
  Proof. intros k H; exact H. Qed.

  Lemma nts_mono_trans a b c : nts_mono a b -> nts_mono b c -> nts_mono a c.
  Proof. intros H1 H2 k H. apply H2, H1, H. Qed.

  Lemma hsteps_mono st dps st' dps' : hsteps st dps st' dps' -> nts_mono st st'.
  Proof.
    induction 1; [apply nts_mono_refl| |]; (eapply nts_mono_trans; [|exact IHhsteps]).
    - intros k Hk. unfold create_helper; simpl. rewrite sm_mem_insert, Hk. apply orb_true_r.
    - intros k Hk. exact Hk.
  Qed.

  Lemma add_prod_mem nts name nt_idx annot p k :
    sm_mem k (add_prod_to_nt nts name nt_idx annot p) = String.eqb k name || sm_mem k nts.
  Proof.
    unfold add_prod_to_nt. destruct (sm_get name nts) eqn:E.
    - rewrite sm_mem_update. destruct (String.eqb_spec k name); [|reflexivity].
      subst. unfold sm_mem. rewrite E. reflexivity.
    - apply sm_mem_insert.
  Qed.

  Lemma do_alt_mono st rpos r rmeta nt_idx ntidx alt st' :
    do_alt ident_ok st rpos r rmeta nt_idx ntidx alt = ROk st' ->
    nts_mono st st' /\ sm_mem (r_name r) (s_nts st') = true.
  Proof.
    unfold do_alt. intros H. inv_bind H. destruct a as [[st1 dps] rhs]. inv_bind H. inversion H; subst; clear H. simpl.
    apply do_assigns_hsteps in Hb. apply hsteps_mono in Hb. split.
    - intros k Hk. simpl. rewrite add_prod_mem. rewrite (Hb k Hk). apply orb_true_r.
    - rewrite add_prod_mem, String.eqb_refl. reflexivity.
  Qed.

  Lemma do_alts_mono alts : forall st rpos r rmeta nt_idx ntidx st',
    do_alts ident_ok st rpos r rmeta nt_idx ntidx alts = ROk st' ->
    nts_mono st st' /\ (alts <> [] -> sm_mem (r_name r) (s_nts st') = true).
  Proof.
    induction alts as [|alt rest IH]; simpl; intros st rpos r rmeta nt_idx ntidx st' H.
    - inversion H; subst. split; [apply nts_mono_refl|congruence].
    - inv_bind H. apply do_alt_mono in Hb. destruct Hb as [Hm Hin].
      destruct (IH _ _ _ _ _ _ _ H) as [Hm2 _]. split; [eapply nts_mono_trans; eauto|].
      intros _. apply Hm2. exact Hin.
  Qed.

  Lemma do_rule_mono st rpos r st' :
    do_rule ident_ok st rpos r = ROk st' ->
    nts_mono st st' /\ (r_rhs r <> [] -> sm_mem (r_name r) (s_nts st') = true).
  Proof.
    unfold do_rule. intros H. inv_bind H. inv_bind H. inv_bind H.
    destruct (sm_get (r_name r) (s_nts st)) as [nt|]; apply do_alts_mono in H; exact H.
  Qed.

  Lemma do_rules_mono rs : forall st rpos st', do_rules ident_ok st rpos rs = ROk st' -> nts_mono st st'.
  Proof.
    induction rs as [|r rest IH]; simpl; intros st rpos st' H.
    - inversion H; subst. apply nts_mono_refl.
    - inv_bind H. apply do_rule_mono in Hb. eapply nts_mono_trans; [apply Hb|eapply IH; eauto].
  Qed.

  Lemma create_aug_mem st n r k : sm_mem k (s_nts (create_aug st n r)) = String.eqb k n || sm_mem k (s_nts st).
  Proof. unfold create_aug; simpl. apply sm_mem_insert. Qed.

  Lemma extract_rules_names st r0 rest st' :
    extract_rules ident_ok st (r0 :: rest) = ROk st' -> r_rhs r0 <> [] ->
    sm_mem "AUG"%string (s_nts st') = true /\ sm_mem (r_name r0) (s_nts st') = true.
  Proof.
    unfold extract_rules. intros H Hne.
    destruct (find (fun r => String.eqb (lower (r_name r)) "layout") (r0 :: rest)) as [lr|];
      (match type of H with do_rules _ ?st3 _ _ = _ =>
         assert (Haug : sm_mem "AUG"%string (s_nts st3) = true)
           by (change (s_nts (set_rule_names ?x ?y)) with (s_nts x); repeat rewrite create_aug_mem; reflexivity) end;
       cbn [do_rules] in H; inv_bind H; apply do_rule_mono in Hb; destruct Hb as [Hm1 Hin]; apply do_rules_mono in H;
       split; [apply H, Hm1, Haug|apply H, Hin, Hne]).
  Qed.

  (* ---------------------------------------------------------------- all panics of a build *)
  Lemma assemble_panic st1 ps2 sn p :
    assemble st1 ps2 sn = RPanic p ->
    Forall (fun q => Forall (fun a => ra_index a <> None) (pd_rhs q)) ps2 ->
    (p = PNoAug /\ sm_mem "AUG"%string (s_nts st1) = false) \/
    (p = PNoStart /\ sm_mem sn (s_nts st1) = false) \/ reach_site p.
  Proof.
    unfold assemble. intros H Hall.
    apply bind_RPanic in H. destruct H as [H|[aug [_ H]]].
    { left. unfold sm_mem. destruct (sm_get "AUG"%string (s_nts st1)); [discriminate|]. inversion H; auto. }
    apply bind_RPanic in H. destruct H as [H|[start [_ H]]].
    { right; left. unfold sm_mem. destruct (sm_get sn (s_nts st1)); [discriminate|]. inversion H; auto. }
    apply bind_RPanic in H. destruct H as [H|[rhss [_ H]]].
    { exfalso. eapply all_rhs_symbols_no_panic; eauto. }
    apply bind_RPanic in H. destruct H as [H|[mk [_ H]]]; [|discriminate].
    right; right.
    destruct (nth_error (sort_by nd_idx (map snd (s_nts st1))) (start - length (s_terms st1))).
    - eapply mark_reachable_panic; eauto.
    - inversion H. left; reflexivity.
  Qed.

  (* every panic of the builder is the integer overflow of int_const or one of the three index sites of
     mark_reachable_symbols *)
  Theorem builder_panic_sites f p :
    build_grammar ident_ok f = BPanic p ->
    ast_shape_b f = true -> cls_int_overflow f = false -> reach_site p.
  Proof.
    unfold build_grammar, cls_int_overflow. intros H Hshape Hint.
    destruct (ints_ok f); [|discriminate]. simpl in H.
    destruct (build_res ident_ok f) as [g| |p'|] eqn:E; try discriminate. inversion H; subst p'; clear H.
    unfold build_res in E.
    apply bind_RPanic in E. destruct E as [E|[[terms next_t] [Ht E]]]; [exfalso; eapply terms_phase_no_panic; eauto|].
    unfold ast_shape_b in Hshape.
    apply bind_RPanic in E. destruct E as [E|[st1 [Hr E]]].
    { exfalso. unfold rules_phase in E. destruct (f_rules f) as [rs|] eqn:Er; [|discriminate].
      apply extract_rules_panic in E. destruct E as [E1 E2]. subst rs. simpl in Hshape. discriminate. }
    apply bind_RPanic in E. destruct E as [E|[ps2 [Hres E]]]; [exfalso; eapply resolve_phase_no_panic; eauto|].
    assert (Hall : Forall (fun q => Forall (fun a => ra_index a <> None) (pd_rhs q)) ps2).
    { unfold resolve_phase in Hres. inv_bind Hres. eapply resolve_refs_all; eauto. }
    apply assemble_panic in E; [|exact Hall].
    destruct E as [[_ E]|[[_ E]|E]]; [exfalso|exfalso|exact E].
    - unfold rules_phase in Hr. destruct (f_rules f) as [[|r0 rest]|] eqn:Er; try discriminate.
      simpl in Hshape. apply andb_prop in Hshape. destruct Hshape as [Hs _].
      assert (Hne : r_rhs r0 <> []) by (destruct (r_rhs r0); [discriminate|discriminate]).
      destruct (extract_rules_names _ _ _ _ Hr Hne) as [Ha _]. congruence.
    - unfold rules_phase in Hr. unfold start_name in E. destruct (f_rules f) as [[|r0 rest]|] eqn:Er; try discriminate.
      simpl in Hshape. apply andb_prop in Hshape. destruct Hshape as [Hs _].
      assert (Hne : r_rhs r0 <> []) by (destruct (r_rhs r0); [discriminate|discriminate]).
      destruct (extract_rules_names _ _ _ _ Hr Hne) as [_ Ha]. congruence.
  Qed.
End WithIdent.
