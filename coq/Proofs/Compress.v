(* C04: reflection of the checker compress_b into the relation Compresses, and the
   consequences of Compresses (proved from Compresses alone, for all grammars,
   canonical automata and tables). *)
From RV Require Import Spec.Canonical Proofs.Canon.

(* ------------------------------------------------------------------ *)
(* small reflections *)

Lemma In_ttargets n st X s : In s (ttargets n st X) <-> In (X, s) (trans_list n st).
Proof.
  unfold ttargets. rewrite in_flat_map. split.
  - intros [[Y s'] [Hin Hs]]. destruct (Y =? X) eqn:E; [|contradiction].
    apply Nat.eqb_eq in E. destruct Hs as [Hs|[]]. subst. exact Hin.
  - intros Hin. exists (X, s). split; [exact Hin|]. rewrite Nat.eqb_refl. left; reflexivity.
Qed.

Lemma has_action_In act acts : has_action act acts = true <-> In act acts.
Proof.
  unfold has_action. rewrite existsb_exists. split.
  - intros [y [Hy He]]. apply action_eqb_eq in He. subst; exact Hy.
  - intros Hin. exists act. split; [exact Hin|apply action_eqb_eq; reflexivity].
Qed.

Lemma cell_state T t st a : get_state T t = Some st -> cell T t a = nth a (s_actions st) [].
Proof. intros Hs. unfold cell. rewrite Hs. reflexivity. Qed.

Lemma cell_nostate T t a : get_state T t = None -> cell T t a = [].
Proof. intros Hs. unfold cell. rewrite Hs. reflexivity. Qed.

Lemma cell_shift_trans_list nterm T t st a s' :
  get_state T t = Some st -> In (Shift s') (cell T t a) -> In (a, s') (trans_list nterm st).
Proof.
  intros Hs Hin. rewrite (cell_state T t st a Hs) in Hin.
  unfold trans_list. apply in_or_app. left. apply in_flat_map.
  exists (a, nth a (s_actions st) []). split.
  - apply In_indexed. eapply nth_In_nonempty. exact Hin.
  - unfold shifts_of. apply in_flat_map. exists (Shift s'). split; [exact Hin|left; reflexivity].
Qed.

Lemma item_is_spec p i it : item_is p i it = true <-> i_prod it = p /\ i_pos it = i.
Proof. unfold item_is. rewrite andb_true_iff, !Nat.eqb_eq. tauto. Qed.

Lemma item_la_b_spec st p i a :
  item_la_b st p i a = true ->
  exists it, In it (s_items st) /\ i_prod it = p /\ i_pos it = i /\ In a (i_follow it).
Proof.
  unfold item_la_b. rewrite existsb_exists. intros [it [Hin Hb]].
  apply andb_true_iff in Hb. destruct Hb as [H1 H2]. apply item_is_spec in H1. apply memb_In in H2.
  exists it. tauto.
Qed.

Lemma nodup_actions_spec l : nodup_actions_b l = true -> NoDup l.
Proof.
  induction l as [|x r IH]; cbn; intros H; [constructor|].
  apply andb_true_iff in H. destruct H as [H1 H2]. constructor; [|apply IH; exact H2].
  intros Hin. apply has_action_In in Hin. rewrite Hin in H1. discriminate.
Qed.

Lemma NoDup_all_equal {A} (l : list A) :
  NoDup l -> (forall x y, In x l -> In y l -> x = y) -> length l <= 1.
Proof.
  intros Hnd Heq. destruct l as [|x [|y r]]; cbn; try lia.
  exfalso. inversion Hnd as [|x' l' Hnin _]; subst. apply Hnin.
  rewrite (Heq x y); [left; reflexivity|left; reflexivity|right; left; reflexivity].
Qed.

(* ------------------------------------------------------------------ *)
(* reflection of the checker *)

Section Reflect.
Variable g : grammar.
Variable C : canon.
Variable T : table.
Variable rl : rel.
Hypothesis Hck : compress_with g C T rl = true.

Let R := Rof rl.

Lemma parts :
  ck_len C rl = true /\ ck_start g T rl = true /\ ck_trans g C T rl = true /\
  ck_onto C T rl = true /\ ck_core C T rl = true /\ ck_la_kept C T rl = true /\
  ck_la_sound C T rl = true /\ ck_red_kept g C T rl = true /\ ck_red_sound g C T rl = true /\
  ck_rn_kept g T = true /\ ck_rn_len g T = true /\ ck_nodup T = true /\ ck_items_wf g T = true.
Proof.
  pose proof Hck as H. unfold compress_with, compress_parts_with in H. cbn [forallb] in H.
  repeat (let H' := fresh "P" in apply andb_true_iff in H; destruct H as [H' H]).
  repeat split; assumption.
Qed.

Lemma R_c_lt c t : R c t -> c < c_n C.
Proof.
  intros Hr. destruct parts as [Hl _]. unfold ck_len in Hl. apply Nat.eqb_eq in Hl. rewrite <- Hl.
  unfold R, Rof, rel_get in Hr. destruct (Nat.lt_ge_cases c (length rl)) as [Hlt|Hge]; [exact Hlt|].
  rewrite nth_overflow in Hr; [contradiction|exact Hge].
Qed.

Lemma for_pairs_spec f :
  for_pairs C T rl f = true ->
  forall c t, R c t -> exists st, get_state T t = Some st /\ f c (c_items C c) st = true.
Proof.
  unfold for_pairs. intros Hf c t Hr. rewrite forallb_forall in Hf.
  assert (Hc : In c (seq 0 (length rl))).
  { apply in_seq. split; [lia|]. cbn. destruct parts as [Hl _]. unfold ck_len in Hl. apply Nat.eqb_eq in Hl.
    rewrite Hl. apply (R_c_lt c t Hr). }
  specialize (Hf c Hc). rewrite forallb_forall in Hf. specialize (Hf t Hr).
  destruct (get_state T t) as [st|]; [|discriminate]. exists st. split; [reflexivity|exact Hf].
Qed.

Lemma for_tstates_spec f :
  for_tstates C T rl f = true ->
  forall t st, get_state T t = Some st -> f t (pre_of C rl t) st = true.
Proof.
  unfold for_tstates. intros Hf t st Hs. rewrite forallb_forall in Hf.
  apply (Hf (t, st)). apply In_indexed. exact Hs.
Qed.

Lemma pre_of_R t c : In c (pre_of C rl t) -> R c t.
Proof. unfold pre_of. rewrite filter_In. intros [_ Hm]. apply memb_In in Hm. exact Hm. Qed.

Lemma in_some_pre_spec t x :
  in_some_pre C (pre_of C rl t) x = true -> exists c, R c t /\ In x (c_items C c).
Proof.
  unfold in_some_pre. rewrite existsb_exists. intros [c [Hc Hm]]. exists c.
  split; [apply pre_of_R; exact Hc|apply cmem_In; exact Hm].
Qed.

Lemma R_state c t : R c t -> exists st, get_state T t = Some st.
Proof.
  intros Hr. destruct parts as [_ [_ [_ [_ [Hcore _]]]]].
  destruct (for_pairs_spec _ Hcore c t Hr) as [st [Hs _]]. exists st; exact Hs.
Qed.

Lemma r_start :
  R 0 0 /\ match g_layout g, t_layout T with
           | None, None => True
           | Some _, Some l => R 1 l
           | _, _ => False
           end.
Proof.
  destruct parts as [_ [Hs _]]. unfold ck_start in Hs. apply andb_true_iff in Hs. destruct Hs as [H0 H1].
  split; [apply memb_In; exact H0|].
  destruct (g_layout g), (t_layout T); try discriminate; try exact Logic.I. apply memb_In; exact H1.
Qed.

Lemma r_trans c t : R c t ->
  exists st row, get_state T t = Some st /\ nth_error (c_trans C) c = Some row /\
    (forall X c', In (X, c') row -> exists t', ttargets (g_nterm g) st X = [t'] /\ R c' t') /\
    (forall X s, In (X, s) (trans_list (g_nterm g) st) -> assoc X row <> None).
Proof.
  intros Hr. destruct parts as [_ [_ [Ht _]]]. destruct (for_pairs_spec _ Ht c t Hr) as [st [Hs Hf]].
  destruct (nth_error (c_trans C) c) as [row|]; [|discriminate].
  apply andb_true_iff in Hf. destruct Hf as [F1 F2]. rewrite forallb_forall in F1, F2.
  exists st, row. split; [exact Hs|]. split; [reflexivity|]. split.
  - intros X c' Hin. specialize (F1 (X, c') Hin). cbn in F1.
    destruct (ttargets (g_nterm g) st X) as [|t' [|? ?]]; try discriminate.
    exists t'. split; [reflexivity|apply memb_In; exact F1].
  - intros X s Hin. specialize (F2 (X, s) Hin). cbn in F2. destruct (assoc X row); [discriminate|discriminate F2].
Qed.

Lemma r_step c t X c' : R c t -> c_goto C c X = Some c' ->
  exists t', R c' t' /\ forall s, t_trans g T t X s <-> s = t'.
Proof.
  intros Hr Hg. destruct (r_trans c t Hr) as [st [row [Hs [Hrow [F1 _]]]]].
  unfold c_goto in Hg. rewrite Hrow in Hg. apply assoc_In in Hg.
  destruct (F1 X c' Hg) as [t' [Htt Hr']]. exists t'. split; [exact Hr'|].
  intros s. unfold t_trans. split.
  - intros [st' [Hs' Hin]]. rewrite Hs in Hs'. inversion Hs'; subst st'.
    apply In_ttargets in Hin. rewrite Htt in Hin. destruct Hin as [Hin|[]]. symmetry; exact Hin.
  - intros ->. exists st. split; [exact Hs|]. apply In_ttargets. rewrite Htt. left; reflexivity.
Qed.

Lemma r_nostep c t X : R c t -> c_goto C c X = None -> forall s, ~ t_trans g T t X s.
Proof.
  intros Hr Hg s [st' [Hs' Hin]]. destruct (r_trans c t Hr) as [st [row [Hs [Hrow [_ F2]]]]].
  rewrite Hs in Hs'. inversion Hs'; subst st'. unfold c_goto in Hg. rewrite Hrow in Hg.
  exact (F2 X s Hin Hg).
Qed.

Lemma r_onto t : t < length (t_states T) -> exists c, R c t.
Proof.
  intros Hlt. destruct parts as [_ [_ [_ [Ho _]]]].
  destruct (nth_error (t_states T) t) as [st|] eqn:Hs; [|apply nth_error_None in Hs; lia].
  pose proof (for_tstates_spec _ Ho t st Hs) as Hf. cbn in Hf.
  destruct (pre_of C rl t) as [|c r] eqn:E; [discriminate|].
  exists c. apply pre_of_R. rewrite E. left; reflexivity.
Qed.

Lemma r_dom c t : R c t -> c < c_n C /\ t < length (t_states T).
Proof.
  intros Hr. split; [apply (R_c_lt c t Hr)|]. destruct (R_state c t Hr) as [st Hs].
  apply nth_error_Some. unfold get_state in Hs. rewrite Hs. discriminate.
Qed.

Lemma r_core c t : R c t -> same_core C T c t.
Proof.
  intros Hr. destruct parts as [_ [_ [_ [_ [Hcore _]]]]].
  destruct (for_pairs_spec _ Hcore c t Hr) as [st [Hs Hf]].
  apply andb_true_iff in Hf. destruct Hf as [F1 F2]. rewrite forallb_forall in F1, F2.
  intros p i. split.
  - intros [a Hin]. specialize (F1 (p, i, a) Hin). cbn in F1. apply existsb_exists in F1.
    destruct F1 as [it [Hit Hb]]. apply item_is_spec in Hb. exists st, it. tauto.
  - intros [st' [it [Hs' [Hit [Hp Hi]]]]]. rewrite Hs in Hs'. inversion Hs'; subst st'.
    specialize (F2 it Hit). apply existsb_exists in F2. destruct F2 as [[[q j] a] [Hin Hb]].
    apply item_is_spec in Hb. destruct Hb as [Hb1 Hb2]. exists a. rewrite <- Hp, <- Hi, Hb1, Hb2. exact Hin.
Qed.

Lemma r_la_kept c t p i a : R c t -> In (p, i, a) (c_items C c) -> t_item_la T t p i a.
Proof.
  intros Hr Hin. destruct parts as [_ [_ [_ [_ [_ [Hk _]]]]]].
  destruct (for_pairs_spec _ Hk c t Hr) as [st [Hs Hf]]. rewrite forallb_forall in Hf.
  specialize (Hf (p, i, a) Hin). cbn in Hf. apply item_la_b_spec in Hf.
  destruct Hf as [it Hit]. exists st, it. tauto.
Qed.

Lemma r_la_sound t p i a : t_item_la T t p i a -> exists c, R c t /\ In (p, i, a) (c_items C c).
Proof.
  intros [st [it [Hs [Hit [Hp [Hi Ha]]]]]]. destruct parts as [_ [_ [_ [_ [_ [_ [Hk _]]]]]]].
  pose proof (for_tstates_spec _ Hk t st Hs) as Hf. cbn in Hf. rewrite forallb_forall in Hf.
  specialize (Hf it Hit). rewrite forallb_forall in Hf. specialize (Hf a Ha).
  rewrite Hp, Hi in Hf. apply in_some_pre_spec; exact Hf.
Qed.

Lemma r_red_kept_gen c t p a : R c t -> In (p, length (rhs g p), a) (c_items C c) ->
  if is_aug_prod g p then In Accept (cell T t STOP) else In (Reduce p (length (rhs g p))) (cell T t a).
Proof.
  intros Hr Hin. destruct parts as [_ [_ [_ [_ [_ [_ [_ [Hk _]]]]]]]].
  destruct (for_pairs_spec _ Hk c t Hr) as [st [Hs Hf]]. rewrite forallb_forall in Hf.
  specialize (Hf _ Hin). cbn in Hf. rewrite Nat.eqb_refl in Hf.
  destruct (is_aug_prod g p); apply has_action_In in Hf.
  - rewrite (cell_state T t st STOP Hs). exact Hf.
  - rewrite (cell_state T t st a Hs). exact Hf.
Qed.

Lemma cell_in_indexed t st a act : get_state T t = Some st -> In act (cell T t a) ->
  In (a, nth a (s_actions st) []) (indexed (s_actions st)) /\ In act (nth a (s_actions st) []).
Proof.
  intros Hs Hin. rewrite (cell_state T t st a Hs) in Hin. split; [|exact Hin].
  apply In_indexed. eapply nth_In_nonempty. exact Hin.
Qed.

Lemma r_action_sound t st a act : get_state T t = Some st -> In act (cell T t a) ->
  match act with
  | Shift _ => True
  | Reduce p len =>
      is_aug_prod g p = false /\
      (if len =? length (rhs g p) then in_some_pre C (pre_of C rl t) (p, len, a) = true
       else len < length (rhs g p) /\ rn_entry_b T st p len a = true)
  | Accept =>
      a = STOP /\
      exists c, In c (pre_of C rl t) /\
                exists x, In x (c_items C c) /\
                          (let '(p, i, _) := x in is_aug_prod g p && (i =? length (rhs g p))) = true
  end.
Proof.
  intros Hs Hin. destruct parts as [_ [_ [_ [_ [_ [_ [_ [_ [Hk _]]]]]]]]].
  pose proof (for_tstates_spec _ Hk t st Hs) as Hf. cbn in Hf. rewrite forallb_forall in Hf.
  destruct (cell_in_indexed t st a act Hs Hin) as [Hix Hact].
  specialize (Hf _ Hix). cbn in Hf. rewrite forallb_forall in Hf. specialize (Hf act Hact).
  destruct act as [s'|p len|]; [exact Logic.I| |].
  - apply andb_true_iff in Hf. destruct Hf as [F1 F2]. apply negb_true_iff in F1. split; [exact F1|].
    destruct (len =? length (rhs g p)); [exact F2|].
    apply andb_true_iff in F2. destruct F2 as [F2 F3]. apply Nat.ltb_lt in F2. tauto.
  - apply andb_true_iff in Hf. destruct Hf as [F1 F2]. apply Nat.eqb_eq in F1. split; [exact F1|].
    apply existsb_exists in F2. destruct F2 as [c [Hc F2]]. exists c. split; [exact Hc|].
    apply existsb_exists in F2. destruct F2 as [x [Hx F2]]. exists x. split; [exact Hx|exact F2].
Qed.

Lemma rn_entry_spec t st p len a : get_state T t = Some st -> rn_entry_b T st p len a = true ->
  exists rn k, t_rn T = Some rn /\ nth_error rn p = Some k /\ k <= len /\ t_item_la T t p len a.
Proof.
  intros Hs. unfold rn_entry_b. destruct (t_rn T) as [rn|]; [|discriminate].
  destruct (nth_error rn p) as [k|] eqn:Ek; [|discriminate]. intros Hb.
  apply andb_true_iff in Hb. destruct Hb as [H1 H2]. apply Nat.leb_le in H1.
  apply item_la_b_spec in H2. destruct H2 as [it Hit].
  exists rn, k. split; [reflexivity|]. split; [exact Ek|]. split; [exact H1|].
  exists st, it. tauto.
Qed.

Lemma r_red_sound t a p len : In (Reduce p len) (cell T t a) ->
  is_aug_prod g p = false /\
  ((len = length (rhs g p) /\ exists c, R c t /\ In (p, len, a) (c_items C c)) \/
   (len < length (rhs g p) /\
    exists rn k, t_rn T = Some rn /\ nth_error rn p = Some k /\ k <= len /\ t_item_la T t p len a)).
Proof.
  intros Hin. destruct (get_state T t) as [st|] eqn:Hs; [|rewrite (cell_nostate T t a Hs) in Hin; contradiction].
  pose proof (r_action_sound t st a _ Hs Hin) as [F1 F2]. split; [exact F1|].
  destruct (len =? length (rhs g p)) eqn:E.
  - left. apply Nat.eqb_eq in E. split; [exact E|]. apply in_some_pre_spec; exact F2.
  - right. destruct F2 as [F2 F3]. split; [exact F2|]. apply (rn_entry_spec t st p len a Hs F3).
Qed.

Lemma r_acc_sound t a : In Accept (cell T t a) ->
  a = STOP /\ exists c p b, R c t /\ is_aug_prod g p = true /\ In (p, length (rhs g p), b) (c_items C c).
Proof.
  intros Hin. destruct (get_state T t) as [st|] eqn:Hs; [|rewrite (cell_nostate T t a Hs) in Hin; contradiction].
  pose proof (r_action_sound t st a _ Hs Hin) as [F1 [c [Hc [[[p i] b] [Hx Hb]]]]]. split; [exact F1|].
  apply andb_true_iff in Hb. destruct Hb as [Hb1 Hb2]. apply Nat.eqb_eq in Hb2. subst i.
  exists c, p, b. split; [apply pre_of_R; exact Hc|]. split; [exact Hb1|exact Hx].
Qed.

Lemma r_rn_kept rn t p len a k : t_rn T = Some rn -> nth_error rn p = Some k ->
  is_aug_prod g p = false -> k <= len -> len < length (rhs g p) ->
  t_item_la T t p len a -> In (Reduce p len) (cell T t a).
Proof.
  intros Hrn Hk Haug Hle Hlt [st [it [Hs [Hit [Hp [Hi Ha]]]]]].
  destruct parts as [_ [_ [_ [_ [_ [_ [_ [_ [_ [Hck' _]]]]]]]]]]. unfold ck_rn_kept in Hck'. rewrite Hrn in Hck'.
  rewrite forallb_forall in Hck'. assert (Hst : In st (t_states T)) by (eapply nth_error_In; exact Hs).
  specialize (Hck' st Hst). rewrite forallb_forall in Hck'. specialize (Hck' it Hit). cbn zeta in Hck'.
  rewrite Hp, Hi, Haug, Hk in Hck'.
  assert (E : (k <=? len) && (len <? length (rhs g p)) = true).
  { apply andb_true_iff. split; [apply Nat.leb_le; exact Hle|apply Nat.ltb_lt; exact Hlt]. }
  rewrite E in Hck'. rewrite forallb_forall in Hck'. specialize (Hck' a Ha).
  apply has_action_In in Hck'. rewrite (cell_state T t st a Hs). exact Hck'.
Qed.

Lemma r_rn_len rn : t_rn T = Some rn ->
  length rn = length (g_prods g) /\ forall p k, nth_error rn p = Some k -> rn_least g p k.
Proof.
  intros Hrn. destruct parts as [_ [_ [_ [_ [_ [_ [_ [_ [_ [_ [Hck' _]]]]]]]]]]].
  unfold ck_rn_len in Hck'. rewrite Hrn in Hck'. destruct (nullable_set g) as [N|] eqn:EN; [|discriminate].
  apply andb_true_iff in Hck'. destruct Hck' as [Hl Hf]. apply Nat.eqb_eq in Hl. split; [exact Hl|].
  intros p k Hk. assert (Hp : p < length (g_prods g)).
  { rewrite <- Hl. apply nth_error_Some. rewrite Hk. discriminate. }
  destruct (nth_error (g_prods g) p) as [pr|] eqn:Epr; [|apply nth_error_None in Epr; lia].
  rewrite forallb_forall in Hf. specialize (Hf (p, pr)). cbn in Hf. rewrite Hk in Hf.
  assert (Hk' : k = rn_len N (p_rhs pr)). { apply Nat.eqb_eq, Hf, In_indexed; exact Epr. }
  unfold rn_least, rhs, get_prod. rewrite Epr. subst k.
  apply rn_len_spec. apply nullable_set_spec; exact EN.
Qed.

Lemma r_nodup t a : NoDup (cell T t a).
Proof.
  destruct (get_state T t) as [st|] eqn:Hs; [|rewrite (cell_nostate T t a Hs); constructor].
  rewrite (cell_state T t st a Hs). destruct parts as [_ [_ [_ [_ [_ [_ [_ [_ [_ [_ [_ [Hnd _]]]]]]]]]]]].
  unfold ck_nodup in Hnd. rewrite forallb_forall in Hnd.
  assert (Hst : In st (t_states T)) by (eapply nth_error_In; exact Hs). specialize (Hnd st Hst).
  rewrite forallb_forall in Hnd.
  destruct (Nat.lt_ge_cases a (length (s_actions st))) as [Hlt|Hge].
  - apply nodup_actions_spec, Hnd, nth_In, Hlt.
  - rewrite nth_overflow; [constructor|exact Hge].
Qed.

Theorem compress_with_sound : Compresses_by g C T R.
Proof.
  constructor.
  - exact r_start.
  - exact r_step.
  - exact r_nostep.
  - exact r_onto.
  - exact r_dom.
  - exact r_core.
  - exact r_la_kept.
  - exact r_la_sound.
  - intros c t p a Hr Hin Haug. pose proof (r_red_kept_gen c t p a Hr Hin) as H. rewrite Haug in H. exact H.
  - intros c t p a Hr Hin Haug. pose proof (r_red_kept_gen c t p a Hr Hin) as H. rewrite Haug in H. exact H.
  - exact r_red_sound.
  - exact r_acc_sound.
  - exact r_rn_kept.
  - exact r_rn_len.
  - exact r_nodup.
Qed.

End Reflect.

Theorem compress_sound_main g C T : compress_b g C T = true -> Compresses g C T.
Proof.
  intros H. exists (Rof (walk_rel g C T)). apply compress_with_sound. exact H.
Qed.

(* ------------------------------------------------------------------ *)
(* consequences of Compresses alone *)

Section Consequences.
Variable g : grammar.
Variable C : canon.
Variable T : table.
Variable R : nat -> nat -> Prop.
Hypothesis HC : Compresses_by g C T R.

(* (i) h is total on the reachable canonical states *)
Lemma compresses_total_main c : creach g C c -> exists t, R c t.
Proof.
  induction 1 as [c Hroot|c X c' _ [t Ht] Hg].
  - destruct (cb_start _ _ _ _ HC) as [H0 H1]. destruct Hroot as [->|[-> Hl]]; [exists 0; exact H0|].
    destruct (g_layout g); [|congruence]. destruct (t_layout T) as [l|]; [exists l; exact H1|contradiction].
  - destruct (cb_step _ _ _ _ HC c t X c' Ht Hg) as [t' [Hr _]]. exists t'; exact Hr.
Qed.

Lemma same_core_trans c c' t : R c t -> R c' t -> c_same_core C c c'.
Proof.
  intros H1 H2 p i. rewrite (cb_core _ _ _ _ HC c t H1 p i), (cb_core _ _ _ _ HC c' t H2 p i). tauto.
Qed.

(* every lookahead the table uses is an LALR(1) lookahead *)
Lemma lookaheads_are_lalr_main t p i a : t_item_la T t p i a ->
  exists c, R c t /\ In (p, i, a) (c_items C c) /\ same_core C T c t.
Proof.
  intros H. destruct (cb_la_sound _ _ _ _ HC t p i a H) as [c [Hr Hin]].
  exists c. split; [exact Hr|]. split; [exact Hin|]. apply (cb_core _ _ _ _ HC c t Hr).
Qed.

Lemma no_invented_reduce_main t a p len : In (Reduce p len) (cell T t a) ->
  (len = length (rhs g p) /\ exists c, R c t /\ In (p, len, a) (c_items C c)) \/
  (len < length (rhs g p) /\ exists rn k, t_rn T = Some rn /\ nth_error rn p = Some k /\ k <= len /\
     nullable_seq g (skipn len (rhs g p)) /\
     exists c, R c t /\ In (p, len, a) (c_items C c)).
Proof.
  intros H. destruct (cb_red_sound _ _ _ _ HC t a p len H) as [_ [[H1 H2]|[H1 [rn [k [Hrn [Hk [Hle Hla]]]]]]]].
  - left. tauto.
  - right. split; [exact H1|]. exists rn, k. split; [exact Hrn|]. split; [exact Hk|]. split; [exact Hle|].
    split.
    + destruct (cb_rn_len _ _ _ _ HC rn Hrn) as [_ Hl]. destruct (Hl p k Hk) as [_ [Hn _]].
      replace (skipn len (rhs g p)) with (skipn (len - k) (skipn k (rhs g p))).
      * revert Hn. generalize (skipn k (rhs g p)). generalize (len - k). clear.
        induction n as [|n IH]; intros l Hn; [exact Hn|].
        destruct l as [|x r]; [exact Hn|]. cbn. apply IH. inversion Hn; assumption.
      * rewrite skipn_skipn. f_equal. lia.
    + apply (cb_la_sound _ _ _ _ HC t p len a Hla).
Qed.

Lemma reduce_iff_main t a p : t_rn T = None -> t < length (t_states T) ->
  (In (Reduce p (length (rhs g p))) (cell T t a) <->
   is_aug_prod g p = false /\ exists c, R c t /\ In (p, length (rhs g p), a) (c_items C c)).
Proof.
  intros Hrn Hlt. split.
  - intros H. destruct (cb_red_sound _ _ _ _ HC t a p _ H) as [Ha [[_ H2]|[H1 _]]]; [tauto|lia].
  - intros [Ha [c [Hr Hin]]]. apply (cb_red_kept _ _ _ _ HC c t p a Hr Hin Ha).
Qed.

Definition abs_action (act : action) : aact :=
  match act with Shift _ => AShift | Reduce p _ => AReduce p | Accept => AAccept end.

Lemma abs_in_lalr c t a act : t_rn T = None -> R c t -> In act (cell T t a) ->
  lalr_act g C c a (abs_action act).
Proof.
  intros Hrn Hr Hin. destruct act as [s'|p len|]; cbn.
  - destruct (get_state T t) as [st|] eqn:Hs; [|rewrite (cell_nostate T t a Hs) in Hin; contradiction].
    assert (Htr : t_trans g T t a s').
    { exists st. split; [exact Hs|]. eapply cell_shift_trans_list; [exact Hs|exact Hin]. }
    destruct (c_goto C c a) as [c'|] eqn:Eg.
    + eapply LShift; exact Eg.
    + exfalso. exact (cb_nostep _ _ _ _ HC c t a Hr Eg s' Htr).
  - destruct (cb_red_sound _ _ _ _ HC t a p len Hin) as [Ha [[H1 [c' [Hr' Hin']]]|[_ [rn [k [Hrn' _]]]]]]; [|congruence].
    subst len. apply (LReduce g C c a c' p).
    + apply (cb_dom _ _ _ _ HC c' t Hr').
    + apply (same_core_trans c c' t Hr Hr').
    + exact Ha.
    + exact Hin'.
  - destruct (cb_acc_sound _ _ _ _ HC t a Hin) as [Ha [c' [p [b [Hr' [Hp Hin']]]]]].
    apply (LAccept g C c a c' p b).
    + apply (cb_dom _ _ _ _ HC c' t Hr').
    + apply (same_core_trans c c' t Hr Hr').
    + exact Hp.
    + exact Ha.
    + exact Hin'.
Qed.

Lemma abs_injective c t a x y : t_rn T = None -> R c t -> In x (cell T t a) -> In y (cell T t a) ->
  abs_action x = abs_action y -> x = y.
Proof.
  intros Hrn Hr Hx Hy Habs.
  destruct (get_state T t) as [st|] eqn:Hs; [|rewrite (cell_nostate T t a Hs) in Hx; contradiction].
  destruct x as [s1|p1 l1|], y as [s2|p2 l2|]; cbn in Habs; try discriminate; try reflexivity.
  - assert (H1 : t_trans g T t a s1).
    { exists st. split; [exact Hs|]. eapply cell_shift_trans_list; [exact Hs|exact Hx]. }
    assert (H2 : t_trans g T t a s2).
    { exists st. split; [exact Hs|]. eapply cell_shift_trans_list; [exact Hs|exact Hy]. }
    destruct (c_goto C c a) as [c'|] eqn:Eg.
    + destruct (cb_step _ _ _ _ HC c t a c' Hr Eg) as [t' [_ Hu]].
      apply Hu in H1. apply Hu in H2. congruence.
    + exfalso. exact (cb_nostep _ _ _ _ HC c t a Hr Eg s1 H1).
  - inversion Habs; subst p2.
    destruct (cb_red_sound _ _ _ _ HC t a p1 l1 Hx) as [_ [[E1 _]|[_ [rn [k [Hrn' _]]]]]]; [|congruence].
    destruct (cb_red_sound _ _ _ _ HC t a p1 l2 Hy) as [_ [[E2 _]|[_ [rn [k [Hrn' _]]]]]]; [|congruence].
    congruence.
Qed.

(* an LALR(1) grammar (full same-core merge conflict-free) has no multi-action cell in T,
   whatever the table type (LALR merges at most as much) *)
Lemma lalr_grammar_no_conflict_main : t_rn T = None -> lalr_conflict_free g C ->
  forall t a, length (cell T t a) <= 1.
Proof.
  intros Hrn Hcf t a.
  destruct (get_state T t) as [st|] eqn:Hs; [|rewrite (cell_nostate T t a Hs); cbn; lia].
  assert (Hlt : t < length (t_states T)).
  { apply nth_error_Some. unfold get_state in Hs. rewrite Hs. discriminate. }
  destruct (cb_onto _ _ _ _ HC t Hlt) as [c Hr].
  apply NoDup_all_equal; [apply (cb_nodup _ _ _ _ HC)|].
  intros x y Hx Hy. apply (abs_injective c t a x y Hrn Hr Hx Hy).
  apply (Hcf c a); [apply (cb_dom _ _ _ _ HC c t Hr)| |]; eapply abs_in_lalr; eauto.
Qed.

End Consequences.

(* ------------------------------------------------------------------ *)
(* the executable LALR(1) conflict test is sound *)

Definition plt (x y : nat * nat) : Prop := fst x < fst y \/ (fst x = fst y /\ snd x < snd y).

Lemma core_sorted_tail x l : core_sorted_b (x :: l) = true -> core_sorted_b l = true.
Proof.
  destruct x as [p i]. cbn. destruct l as [|[q j] r]; [reflexivity|].
  intros H. apply andb_true_iff in H. tauto.
Qed.

Lemma core_sorted_head : forall l x y, core_sorted_b (x :: l) = true -> In y l -> plt x y.
Proof.
  induction l as [|z r IH]; intros x y Hs Hin; [contradiction|].
  assert (Hxz : plt x z).
  { destruct x as [p i], z as [q j]. cbn in Hs. apply andb_true_iff in Hs. destruct Hs as [Hs _].
    unfold plt; cbn. apply orb_true_iff in Hs. destruct Hs as [Hs|Hs].
    - apply Nat.ltb_lt in Hs. left; exact Hs.
    - apply andb_true_iff in Hs. destruct Hs as [H1 H2]. apply Nat.eqb_eq in H1. apply Nat.ltb_lt in H2. right; tauto. }
  destruct Hin as [<-|Hin]; [exact Hxz|].
  pose proof (IH z y (core_sorted_tail x _ Hs) Hin) as Hzy.
  unfold plt in *. lia.
Qed.

Lemma core_sorted_unique : forall l1 l2,
  core_sorted_b l1 = true -> core_sorted_b l2 = true -> (forall x, In x l1 <-> In x l2) -> l1 = l2.
Proof.
  induction l1 as [|x r1 IH]; intros l2 H1 H2 Heq.
  - destruct l2 as [|y r2]; [reflexivity|]. exfalso. apply (Heq y). left; reflexivity.
  - destruct l2 as [|y r2]; [exfalso; apply (Heq x); left; reflexivity|].
    assert (Hxy : x = y).
    { assert (Hx : In x (y :: r2)) by (apply Heq; left; reflexivity).
      assert (Hy : In y (x :: r1)) by (apply Heq; left; reflexivity).
      destruct Hx as [Hx|Hx]; [symmetry; exact Hx|]. destruct Hy as [Hy|Hy]; [exact Hy|].
      pose proof (core_sorted_head r2 y x H2 Hx) as A. pose proof (core_sorted_head r1 x y H1 Hy) as B.
      unfold plt in *. lia. }
    subst y. f_equal. apply IH; [eapply core_sorted_tail; exact H1|eapply core_sorted_tail; exact H2|].
    intros z. split; intros Hz.
    + assert (Hz' : In z (x :: r2)) by (apply Heq; right; exact Hz).
      destruct Hz' as [<-|Hz']; [|exact Hz'].
      pose proof (core_sorted_head r1 x x H1 Hz) as A. unfold plt in A. lia.
    + assert (Hz' : In z (x :: r1)) by (apply Heq; right; exact Hz).
      destruct Hz' as [<-|Hz']; [|exact Hz'].
      pose proof (core_sorted_head r2 x x H2 Hz) as A. unfold plt in A. lia.
Qed.

Lemma core_of_cons p i b r :
  core_of ((p, i, b) :: r) =
  match core_of r with
  | [] => [(p, i)]
  | (q, j) :: _ => if (p =? q) && (i =? j) then core_of r else (p, i) :: core_of r
  end.
Proof. reflexivity. Qed.

Lemma core_of_spec : forall Ic p i, In (p, i) (core_of Ic) <-> exists a, In (p, i, a) Ic.
Proof.
  induction Ic as [|[[q j] b] r IH]; intros p i.
  - cbn. split; [tauto|]. intros [a []].
  - rewrite core_of_cons. destruct (core_of r) as [|[q' j'] r'] eqn:E.
    + split.
      * intros [H|[]]. inversion H; subst. exists b. left; reflexivity.
      * intros [a [H|H]]; [inversion H; subst; left; reflexivity|].
        exfalso. assert (Hx : In (p, i) []) by (apply IH; exists a; exact H). exact Hx.
    + destruct ((q =? q') && (j =? j')) eqn:Eq.
      * apply andb_true_iff in Eq. destruct Eq as [E1 E2]. apply Nat.eqb_eq in E1, E2. subst q' j'.
        rewrite IH. split.
        -- intros [a H]. exists a. right; exact H.
        -- intros [a [H|H]]; [|exists a; exact H]. inversion H; subst.
           apply IH. left; reflexivity.
      * split.
        -- intros H. destruct H as [H|H]; [inversion H; subst; exists b; left; reflexivity|].
           apply IH in H. destruct H as [a H]. exists a; right; exact H.
        -- intros [a [H|H]]; [inversion H; subst; left; reflexivity|right; apply IH; exists a; exact H].
Qed.

Lemma core_eqb_refl : forall l, core_eqb l l = true.
Proof. induction l as [|[p i] r IH]; cbn; [reflexivity|]. rewrite !Nat.eqb_refl. exact IH. Qed.

Lemma aact_eqb_eq x y : aact_eqb x y = true -> x = y.
Proof. destruct x, y; cbn; intros H; try discriminate; try reflexivity. apply Nat.eqb_eq in H. subst; reflexivity. Qed.

Lemma In_combine_nth {A B} : forall (l1 : list A) (l2 : list B) i x y,
  nth_error l1 i = Some x -> nth_error l2 i = Some y -> In (x, y) (combine l1 l2).
Proof.
  induction l1 as [|a r IH]; intros l2 i x y H1 H2; destruct i; cbn in H1; try discriminate.
  - destruct l2 as [|b r2]; cbn in H2; [discriminate|]. inversion H1; inversion H2; subst. left; reflexivity.
  - destruct l2 as [|b r2]; cbn in H2; [discriminate|]. right. eapply IH; eassumption.
Qed.

Section LalrB.
Variable g : grammar.
Variable C : canon.
Hypothesis Hb : lalr_conflict_free_b g C = true.

Let all := map (fun '(row, Ic) => (core_of Ic, cstate_acts g row Ic)) (combine (c_trans C) (c_states C)).

Lemma lalr_parts :
  length (c_trans C) = c_n C /\
  (forall k a, In (k, a) all -> core_sorted_b k = true) /\
  (forall k1 a1 k2 a2, In (k1, a1) all -> In (k2, a2) all -> k1 = k2 -> acts_compatible a1 a2 = true).
Proof.
  pose proof Hb as H. unfold lalr_conflict_free_b in H. cbv zeta in H. fold all in H.
  apply andb_true_iff in H. destruct H as [H1 H]. apply andb_true_iff in H. destruct H as [H2 H3].
  apply Nat.eqb_eq in H1. split; [exact H1|]. rewrite forallb_forall in H2, H3. split.
  - intros k a Hin. exact (H2 (k, a) Hin).
  - intros k1 a1 k2 a2 Hi1 Hi2 ->. specialize (H3 (k2, a1) Hi1). cbn in H3. rewrite forallb_forall in H3.
    specialize (H3 (k2, a2) Hi2). cbn in H3. rewrite core_eqb_refl in H3. exact H3.
Qed.

Lemma state_in_all c : c < c_n C ->
  exists row, nth_error (c_trans C) c = Some row /\
              In (core_of (c_items C c), cstate_acts g row (c_items C c)) all.
Proof.
  intros Hc. destruct lalr_parts as [Hl _].
  destruct (nth_error (c_trans C) c) as [row|] eqn:Er; [|apply nth_error_None in Er; lia].
  destruct (nth_error (c_states C) c) as [Ic|] eqn:Es; [|apply nth_error_None in Es; unfold c_n in Hc; lia].
  exists row. split; [reflexivity|].
  assert (Hi : c_items C c = Ic) by (unfold c_items; eapply nth_error_nth_default; exact Es).
  rewrite Hi. unfold all. apply in_map_iff. exists (row, Ic). split; [reflexivity|].
  eapply In_combine_nth; eassumption.
Qed.

Lemma lalr_act_in c a x : c < c_n C -> lalr_act g C c a x ->
  exists c1 row1, c1 < c_n C /\ c_same_core C c c1 /\ nth_error (c_trans C) c1 = Some row1 /\
                  In (a, x) (cstate_acts g row1 (c_items C c1)).
Proof.
  intros Hc Hact. destruct Hact as [c' Hg|c' p Hc' Hsc Haug Hin|c' p b Hc' Hsc Haug Ha Hin].
  - destruct (state_in_all c Hc) as [row [Hrow _]]. exists c, row. split; [exact Hc|].
    split; [intros p i; tauto|]. split; [exact Hrow|].
    unfold c_goto in Hg. rewrite Hrow in Hg. apply assoc_In in Hg.
    unfold cstate_acts. apply in_or_app. left. apply in_map_iff. exists (a, c'). split; [reflexivity|exact Hg].
  - destruct (state_in_all c' Hc') as [row [Hrow _]]. exists c', row. split; [exact Hc'|].
    split; [exact Hsc|]. split; [exact Hrow|].
    unfold cstate_acts. apply in_or_app. right. apply in_flat_map. exists (p, length (rhs g p), a).
    split; [exact Hin|]. cbn. rewrite Nat.eqb_refl, Haug. left; reflexivity.
  - destruct (state_in_all c' Hc') as [row [Hrow _]]. exists c', row. split; [exact Hc'|].
    split; [exact Hsc|]. split; [exact Hrow|].
    unfold cstate_acts. apply in_or_app. right. apply in_flat_map. exists (p, length (rhs g p), b).
    split; [exact Hin|]. cbn. rewrite Nat.eqb_refl, Haug. left. subst a. reflexivity.
Qed.

Theorem lalr_conflict_free_b_sound : lalr_conflict_free g C.
Proof.
  intros c a x y Hc Hx Hy.
  destruct (lalr_act_in c a x Hc Hx) as [c1 [row1 [Hc1 [Hs1 [Hr1 Hi1]]]]].
  destruct (lalr_act_in c a y Hc Hy) as [c2 [row2 [Hc2 [Hs2 [Hr2 Hi2]]]]].
  destruct lalr_parts as [_ [Hsorted Hcompat]].
  destruct (state_in_all c1 Hc1) as [r1 [Hr1' Ha1]]. rewrite Hr1 in Hr1'. inversion Hr1'; subst r1.
  destruct (state_in_all c2 Hc2) as [r2 [Hr2' Ha2]]. rewrite Hr2 in Hr2'. inversion Hr2'; subst r2.
  assert (Hk : core_of (c_items C c1) = core_of (c_items C c2)).
  { apply core_sorted_unique; [eapply Hsorted; exact Ha1|eapply Hsorted; exact Ha2|].
    intros [p i]. rewrite !core_of_spec. rewrite <- (Hs1 p i), <- (Hs2 p i). tauto. }
  pose proof (Hcompat _ _ _ _ Ha1 Ha2 Hk) as Hcp. unfold acts_compatible in Hcp.
  rewrite forallb_forall in Hcp. specialize (Hcp (a, x) Hi1). cbn in Hcp.
  rewrite forallb_forall in Hcp. specialize (Hcp (a, y) Hi2). cbn in Hcp.
  rewrite Nat.eqb_refl in Hcp. apply aact_eqb_eq; exact Hcp.
Qed.

End LalrB.
