//! rv — verification harness for rustemo.
//!
//! Reads a case file (see DESIGN.md §14), runs the REAL grammar compiler
//! (through the `verif` hook) and the REAL, unmodified runtimes (LRParser,
//! GlrParser, StringLexer, TreeBuilder) driven by the dumped table, and writes
//! canonical outcomes.
//!
//! usage: rv run <casefile> <outfile> [start_case start_input]
use std::fmt::Write as FmtWrite;
use std::io::Write;
use std::panic::{catch_unwind, AssertUnwindSafe};
use std::sync::atomic::{AtomicBool, AtomicI64, AtomicU64, Ordering};
use std::sync::RwLock;

use rustemo::{
    Action, Forest, GlrParser, GssHead, LRContext, LRParser, Lexer, Parser, ParserDefinition,
    State, StringLexer, Token, TokenRecognizer, TreeBuilder, TreeNode,
};
use rustemo_compiler::{ParserAlgo, Settings, TableType};

mod custom;

// ---------------------------------------------------------------- globals
static LONGEST: AtomicBool = AtomicBool::new(true);
static GORDER: AtomicBool = AtomicBool::new(true);
static LAYOUT_STATE: AtomicI64 = AtomicI64::new(-1);
static PROD_NT: RwLock<Vec<usize>> = RwLock::new(Vec::new());
static PROGRESS: AtomicU64 = AtomicU64::new(0);
static SPPF: AtomicBool = AtomicBool::new(false);
static NOFOREST: AtomicBool = AtomicBool::new(false);

pub const NREC: usize = 128;

#[derive(Clone, Copy, PartialEq, Eq, PartialOrd, Ord, Hash, Default)]
pub struct St(pub usize);
impl std::fmt::Debug for St {
    fn fmt(&self, f: &mut std::fmt::Formatter<'_>) -> std::fmt::Result {
        write!(f, "S{}", self.0)
    }
}
impl State for St {
    fn default_layout() -> Option<Self> {
        let v = LAYOUT_STATE.load(Ordering::SeqCst);
        if v < 0 {
            None
        } else {
            Some(St(v as usize))
        }
    }
}
impl From<St> for usize {
    fn from(s: St) -> usize {
        s.0
    }
}
#[derive(Clone, Copy, PartialEq, Eq, PartialOrd, Ord, Hash, Default)]
pub struct Tk(pub usize);
impl std::fmt::Debug for Tk {
    fn fmt(&self, f: &mut std::fmt::Formatter<'_>) -> std::fmt::Result {
        write!(f, "<T{}>", self.0)
    }
}
impl From<Tk> for usize {
    fn from(s: Tk) -> usize {
        s.0
    }
}
impl From<Pk> for usize {
    fn from(s: Pk) -> usize {
        s.0
    }
}
#[derive(Clone, Copy, PartialEq, Eq, Default)]
pub struct Pk(pub usize);
impl std::fmt::Debug for Pk {
    fn fmt(&self, f: &mut std::fmt::Formatter<'_>) -> std::fmt::Result {
        write!(f, "P{}", self.0)
    }
}
#[derive(Clone, Copy, PartialEq, Eq, Default, Debug)]
pub struct Nk(pub usize);
impl From<Pk> for Nk {
    fn from(p: Pk) -> Nk {
        Nk(PROD_NT.read().unwrap()[p.0])
    }
}

// ---------------------------------------------------------------- hex
pub fn unhex(s: &str) -> Vec<u8> {
    if s == "-" {
        return vec![];
    }
    (0..s.len() / 2)
        .map(|i| u8::from_str_radix(&s[2 * i..2 * i + 2], 16).unwrap())
        .collect()
}
pub fn hex(b: &[u8]) -> String {
    if b.is_empty() {
        return "-".into();
    }
    let mut s = String::with_capacity(b.len() * 2);
    for x in b {
        write!(s, "{x:02x}").unwrap();
    }
    s
}

// ---------------------------------------------------------------- dump reader
#[derive(Debug, Clone)]
pub enum RecKind {
    Stop,
    Str(String),
    Re(String),
    None,
}

#[derive(Debug, Default)]
pub struct Dump {
    pub nterm: usize,
    pub nnonterm: usize,
    pub recs: Vec<RecKind>,
    pub prod_nt: Vec<usize>,
    pub augl: i64,
    pub layout_state: i64,
    pub actions: Vec<Vec<Vec<Action<St, Pk>>>>,
    pub gotos: Vec<Vec<Option<usize>>>,
    pub expected: Vec<Vec<(Tk, bool)>>,
    pub missing_rec: bool,
}

pub fn read_dump(text: &str) -> Dump {
    let mut d = Dump::default();
    let mut cur: usize = 0;
    for line in text.lines() {
        let w: Vec<&str> = line.split(' ').collect();
        match w[0] {
            "NTERM" => d.nterm = w[1].parse().unwrap(),
            "NNONTERM" => d.nnonterm = w[1].parse().unwrap(),
            "TERM" => {
                let idx: usize = w[1].parse().unwrap();
                let txt = String::from_utf8(unhex(w[6])).unwrap();
                let k = if idx == 0 {
                    RecKind::Stop
                } else {
                    match w[5] {
                        "S" => RecKind::Str(txt),
                        "R" => RecKind::Re(txt),
                        _ => RecKind::None,
                    }
                };
                d.recs.push(k);
            }
            "PROD" => {
                let lhs: usize = w[2].parse().unwrap();
                d.prod_nt.push(lhs - d.nterm);
            }
            "SPECIAL" => d.augl = w[4].parse().unwrap(),
            "MISSINGREC" => d.missing_rec = w[1] == "1",
            "LAYOUT" => d.layout_state = w[1].parse().unwrap(),
            "STATE" => {
                cur = w[1].parse().unwrap();
                assert_eq!(cur, d.actions.len());
                d.actions.push(vec![vec![]; d.nterm]);
                d.gotos.push(vec![None; d.nnonterm]);
                d.expected.push(vec![]);
            }
            "ACT" => {
                let t: usize = w[1].parse().unwrap();
                for a in &w[2..] {
                    let act = if let Some(s) = a.strip_prefix('S') {
                        Action::Shift(St(s.parse().unwrap()))
                    } else if let Some(r) = a.strip_prefix('R') {
                        let (p, l) = r.split_once(',').unwrap();
                        Action::Reduce(Pk(p.parse().unwrap()), l.parse().unwrap())
                    } else {
                        Action::Accept
                    };
                    d.actions[cur][t].push(act);
                }
            }
            "GOTO" => {
                let n: usize = w[1].parse().unwrap();
                d.gotos[cur][n] = Some(w[2].parse().unwrap());
            }
            "SORTED" => {
                for e in &w[1..] {
                    let (t, f) = e.split_once(':').unwrap();
                    d.expected[cur].push((Tk(t.parse().unwrap()), f == "1"));
                }
            }
            _ => {}
        }
    }
    d
}

// ---------------------------------------------------------------- definition
pub struct Def {
    actions: Vec<Vec<Vec<Action<St, Pk>>>>,
    gotos: Vec<Vec<Option<usize>>>,
    expected: Vec<Vec<(Tk, bool)>>,
}
impl ParserDefinition<St, Pk, Tk, Nk> for Def {
    fn actions(&self, state: St, token: Tk) -> Vec<Action<St, Pk>> {
        // generated parsers return an empty vector for cells without actions
        self.actions[state.0][token.0].clone()
    }
    fn goto(&self, state: St, nonterm: Nk) -> St {
        // generated: `unwrap()` (arrays) / `goto_invalid` panic (functions)
        St(self.gotos[state.0][nonterm.0].expect("Invalid goto"))
    }
    fn expected_token_kinds(&self, state: St) -> Vec<(Tk, bool)> {
        self.expected[state.0].clone()
    }
    fn longest_match() -> bool {
        LONGEST.load(Ordering::SeqCst)
    }
    fn grammar_order() -> bool {
        GORDER.load(Ordering::SeqCst)
    }
}

// ---------------------------------------------------------------- recognizers
pub enum Rec {
    Stop,
    Str(String),
    Re(rustemo::regex::Regex),
    Fancy(rustemo::fancy_regex::Regex),
    Never,
}
impl<'i> TokenRecognizer<'i> for Rec {
    fn recognize(&self, input: &'i str) -> Option<&'i str> {
        match self {
            Rec::Stop => {
                if input.is_empty() {
                    Some(&input[0..0])
                } else {
                    None
                }
            }
            Rec::Str(s) => {
                if input.starts_with(s.as_str()) {
                    Some(&input[..s.len()])
                } else {
                    None
                }
            }
            Rec::Re(r) => r.find(input).map(|m| m.as_str()),
            Rec::Fancy(r) => match r.find(input) {
                Ok(Some(m)) => Some(m.as_str()),
                _ => None,
            },
            Rec::Never => None,
        }
    }
}

fn build_recs(d: &Dump, fancy: bool) -> Result<&'static [Rec; NREC], String> {
    let mut v: Vec<Rec> = Vec::new();
    for r in &d.recs {
        v.push(match r {
            RecKind::Stop => Rec::Stop,
            RecKind::Str(s) => Rec::Str(s.clone()),
            RecKind::Re(r) => {
                let pat = format!("^{r}");
                if fancy {
                    Rec::Fancy(
                        rustemo::fancy_regex::Regex::new(&pat).map_err(|e| format!("{e}"))?,
                    )
                } else {
                    Rec::Re(rustemo::regex::Regex::new(&pat).map_err(|e| format!("{e}"))?)
                }
            }
            RecKind::None => Rec::Never,
        });
    }
    if v.len() > NREC {
        return Err("too many terminals".into());
    }
    while v.len() < NREC {
        v.push(Rec::Never);
    }
    let b: Box<[Rec; NREC]> = v.try_into().map_err(|_| "len".to_string())?;
    Ok(Box::leak(b))
}

// ---------------------------------------------------------------- output
fn pos(p: rustemo::Position) -> String {
    match p.line_col {
        Some(lc) => format!("{}/{}/{}", p.pos, lc.line, lc.column),
        None => format!("{}/-/-", p.pos),
    }
}
fn lay(l: Option<&str>) -> String {
    match l {
        None => "~".into(),
        Some(s) => format!("L{}", hex(s.as_bytes())),
    }
}
fn ptr_range(input: &str, v: &str) -> String {
    // where does the value live relative to the input buffer (C13: the value
    // is the slice at the span). `-` if it is not a sub-slice of the input.
    let ib = input.as_ptr() as usize;
    let vb = v.as_ptr() as usize;
    if vb >= ib && vb + v.len() <= ib + input.len() {
        format!("{}", vb - ib)
    } else {
        "-".into()
    }
}
pub fn sexp(input: &str, n: &TreeNode<'_, str, Pk, Tk>, out: &mut String) {
    match n {
        TreeNode::TermNode { token, layout } => {
            write!(
                out,
                "(T {} {} {} {} {} {})",
                token.kind.0,
                pos(token.span.start),
                pos(token.span.end),
                lay(*layout),
                hex(token.value.as_bytes()),
                ptr_range(input, token.value)
            )
            .unwrap();
        }
        TreeNode::NonTermNode {
            prod,
            span,
            children,
            layout,
        } => {
            write!(
                out,
                "(N {} {} {} {}",
                prod.0,
                pos(span.start),
                pos(span.end),
                lay(*layout)
            )
            .unwrap();
            for c in children {
                out.push(' ');
                sexp(input, c, out);
            }
            out.push(')');
        }
    }
}

fn err_str(e: &rustemo::Error) -> String {
    match e {
        rustemo::Error::ParseError(pe) => {
            let (p, l, c) = match pe.span {
                Some(sp) => (
                    sp.start.pos as i64,
                    sp.start.line().map(|x| x as i64).unwrap_or(-1),
                    sp.start.column().map(|x| x as i64).unwrap_or(-1),
                ),
                None => (-1, -1, -1),
            };
            let endp = pe.span.map(|sp| sp.end.pos as i64).unwrap_or(-1);
            // expected kinds from the message: tokens are Debug-printed as <Tn>
            let mut exp: Vec<usize> = vec![];
            let m = &pe.message;
            let mut i = 0;
            let b = m.as_bytes();
            while i + 2 < b.len() {
                if b[i] == b'<' && b[i + 1] == b'T' {
                    let mut j = i + 2;
                    let mut n = 0usize;
                    let mut any = false;
                    while j < b.len() && b[j].is_ascii_digit() {
                        n = n * 10 + (b[j] - b'0') as usize;
                        j += 1;
                        any = true;
                    }
                    if any && j < b.len() && b[j] == b'>' {
                        exp.push(n);
                    }
                    i = j;
                } else {
                    i += 1;
                }
            }
            let kind = if m.starts_with("Expected") { "E" } else { "O" };
            format!(
                "ERR {kind} {p} {l} {c} {endp} {}",
                if exp.is_empty() {
                    "-".to_string()
                } else {
                    exp.iter()
                        .map(|x| x.to_string())
                        .collect::<Vec<_>>()
                        .join(",")
                }
            )
        }
        rustemo::Error::IOError(_) => "ERR IO".into(),
    }
}

fn panic_msg(e: Box<dyn std::any::Any + Send>) -> String {
    let s = if let Some(s) = e.downcast_ref::<&str>() {
        s.to_string()
    } else if let Some(s) = e.downcast_ref::<String>() {
        s.clone()
    } else {
        "?".to_string()
    };
    hex(s.as_bytes())
}

// ---------------------------------------------------------------- runners
type LCtx<'i> = LRContext<'i, str, St, Tk>;
type GCtx<'i> = GssHead<'i, str, St, Tk>;

pub struct RunCfg {
    pub partial: bool,
    pub skip_ws: bool,
    pub has_layout: bool,
}

pub fn run_lr_with<'i, L>(def: &'static Def, cfg: &RunCfg, lexer: L, input: &'i str) -> String
where
    L: Lexer<'i, LCtx<'i>, St, Tk, Input = str>,
{
    let r = catch_unwind(AssertUnwindSafe(|| {
        let parser: LRParser<
            'i,
            LCtx<'i>,
            St,
            Pk,
            Tk,
            Nk,
            Def,
            L,
            TreeBuilder<'i, str, Pk, Tk>,
            str,
        > = LRParser::new(
            def,
            St(0),
            cfg.partial,
            cfg.has_layout,
            lexer,
            TreeBuilder::new(),
        );
        match parser.parse(input) {
            Ok(t) => {
                let mut s = String::from("OK ");
                sexp(input, &t, &mut s);
                s
            }
            Err(e) => err_str(&e),
        }
    }));
    match r {
        Ok(s) => s,
        Err(e) => format!("PANIC {}", panic_msg(e)),
    }
}

pub fn run_lr(def: &'static Def, recs: &'static [Rec; NREC], cfg: &RunCfg, input: &str) -> String {
    let lexer: StringLexer<LCtx, St, Tk, Rec, NREC> = StringLexer::new(cfg.skip_ws, recs);
    run_lr_with(def, cfg, lexer, input)
}


/// All inputs of a case parsed in order by ONE LRParser instance (a user keeps a parser and calls
/// parse repeatedly): results must not depend on what was parsed before.
pub fn run_lr_sequence(def: &'static Def, recs: &'static [Rec; NREC], cfg: &RunCfg, inputs: &[String]) -> Vec<String> {
    let lexer: StringLexer<LCtx, St, Tk, Rec, NREC> = StringLexer::new(cfg.skip_ws, recs);
    let parser: LRParser<LCtx, St, Pk, Tk, Nk, Def, StringLexer<LCtx, St, Tk, Rec, NREC>, TreeBuilder<str, Pk, Tk>, str> =
        LRParser::new(def, St(0), cfg.partial, cfg.has_layout, lexer, TreeBuilder::new());
    let mut out = vec![];
    for input in inputs {
        let r = catch_unwind(AssertUnwindSafe(|| match parser.parse(input) {
            Ok(t) => {
                let mut s = String::from("OK ");
                sexp(input, &t, &mut s);
                s
            }
            Err(e) => err_str(&e),
        }));
        PROGRESS.fetch_add(1, Ordering::SeqCst);
        match r {
            Ok(s) => out.push(s),
            Err(e) => {
                // a panic inside parse leaves the RefCell borrowed: stop the sequence here
                out.push(format!("PANIC {}", panic_msg(e)));
                break;
            }
        }
    }
    out
}

const MAX_TREES: usize = 300;

pub fn forest_str(input: &str, forest: &Forest<'_, str, Pk, Tk>) -> String {
    let n = forest.solutions();
    let amb = forest.ambiguities();
    let mut s = format!("FOREST {n} {amb}");
    let lim = n.min(MAX_TREES);
    let mut by_index: Vec<String> = vec![];
    let mut idx_ok = true;
    for i in 0..lim {
        match forest.get_tree(i) {
            Some(t) => {
                let mut b = TreeBuilder::new();
                let tn: TreeNode<'_, str, Pk, Tk> = t.build::<_, St>(&mut b);
                let mut x = String::new();
                sexp(input, &tn, &mut x);
                by_index.push(x);
            }
            None => {
                idx_ok = false;
                by_index.push("NONE".into());
            }
        }
    }
    // iteration agrees with indexing
    let mut iter_ok = true;
    let mut cnt = 0usize;
    for (i, t) in forest.iter().enumerate() {
        cnt += 1;
        if i < lim {
            let mut b = TreeBuilder::new();
            let tn: TreeNode<'_, str, Pk, Tk> = t.build::<_, St>(&mut b);
            let mut x = String::new();
            sexp(input, &tn, &mut x);
            if x != by_index[i] {
                iter_ok = false;
            }
        }
        if cnt > 100_000 {
            break;
        }
    }
    if cnt <= 100_000 && cnt != n {
        iter_ok = false;
    }
    let oor_none = forest.get_tree(n).is_none() && forest.get_tree(n + 1).is_none();
    write!(
        s,
        " IDX{} ITER{} OOR{}",
        idx_ok as u8, iter_ok as u8, oor_none as u8
    )
    .unwrap();
    for t in by_index {
        s.push_str(" | ");
        s.push_str(&t);
    }
    s
}

pub fn run_glr(def: &'static Def, recs: &'static [Rec; NREC], cfg: &RunCfg, input: &str) -> String {
    let r = catch_unwind(AssertUnwindSafe(|| {
        let lexer: StringLexer<GCtx, St, Tk, Rec, NREC> = StringLexer::new(cfg.skip_ws, recs);
        let parser: GlrParser<
            St,
            StringLexer<GCtx, St, Tk, Rec, NREC>,
            Pk,
            Tk,
            Nk,
            Def,
            str,
            TreeBuilder<str, Pk, Tk>,
        > = GlrParser::new(def, cfg.partial, cfg.has_layout, lexer);
        match parser.parse(input) {
            Ok(f) => {
                if NOFOREST.load(Ordering::SeqCst) {
                    // C15: only whether parse() returns; the forest is not inspected
                    return "FOREST ? ?".to_string();
                }
                let mut s = forest_str(input, &f);
                if SPPF.load(Ordering::SeqCst) {
                    s.push_str(" || SPPF ");
                    s.push_str(&f.verif_dump().replace('\n', " ; "));
                }
                s
            }
            Err(e) => err_str(&e),
        }
    }));
    match r {
        Ok(s) => s,
        Err(e) => format!("PANIC {}", panic_msg(e)),
    }
}

/// All inputs of a case parsed in order by ONE GlrParser instance; only acceptance is reported
/// (RESULT GLRS i OK <solutions> | ERR ... | PANIC ...): it must equal what a fresh parser says.
pub fn run_glr_sequence(def: &'static Def, recs: &'static [Rec; NREC], cfg: &RunCfg, inputs: &[String]) -> Vec<String> {
    let lexer: StringLexer<GCtx, St, Tk, Rec, NREC> = StringLexer::new(cfg.skip_ws, recs);
    let parser: GlrParser<St, StringLexer<GCtx, St, Tk, Rec, NREC>, Pk, Tk, Nk, Def, str, TreeBuilder<str, Pk, Tk>> =
        GlrParser::new(def, cfg.partial, cfg.has_layout, lexer);
    let mut out = vec![];
    for input in inputs {
        let r = catch_unwind(AssertUnwindSafe(|| match parser.parse(input) {
            Ok(_) => "OK".to_string(),
            Err(e) => err_str(&e),
        }));
        PROGRESS.fetch_add(1, Ordering::SeqCst);
        match r {
            Ok(s) => out.push(s),
            Err(e) => {
                out.push(format!("PANIC {}", panic_msg(e)));
                break;
            }
        }
    }
    out
}

/// measured behaviour of the real recognizers / whitespace test on this input
fn match_table(recs: &'static [Rec; NREC], nterm: usize, input: &str, out: &mut String, i: usize) {
    let mut offs: Vec<usize> = input.char_indices().map(|(k, _)| k).collect();
    offs.push(input.len());
    for o in offs {
        let rest = &input[o..];
        let ws: usize = rest
            .chars()
            .take_while(|c| c.is_whitespace())
            .map(|c| c.len_utf8())
            .sum();
        write!(out, "MATCH {i} {o} {ws}").unwrap();
        for t in 0..nterm {
            let r = catch_unwind(AssertUnwindSafe(|| recs[t].recognize(rest)));
            match r {
                Ok(Some(m)) => {
                    // offset of the match relative to `rest` (a recognizer is
                    // supposed to return a prefix; measured, not assumed)
                    let rel = (m.as_ptr() as usize).wrapping_sub(rest.as_ptr() as usize);
                    if rel == 0 {
                        write!(out, " {t}:{}", m.len()).unwrap();
                    } else {
                        write!(out, " {t}:{}@{}", m.len(), rel).unwrap();
                    }
                }
                Ok(None) => {}
                Err(_) => write!(out, " {t}:P").unwrap(),
            }
        }
        out.push('\n');
    }
}

// ---------------------------------------------------------------- cases
#[derive(Default, Debug)]
struct Case {
    id: String,
    algo: String,
    table: String,
    ps: bool,
    pse: bool,
    ms: bool,
    lm: bool,
    go: bool,
    partial: bool,
    skip_ws: bool,
    fancy: bool,
    run: String,
    lexer: String,
    want_match: bool,
    sppf: bool,
    noforest: bool,
    seq: bool,
    grammar: String,
    inputs: Vec<String>,
}

fn parse_cases(text: &str) -> Vec<Case> {
    let mut v = vec![];
    let mut c = Case::default();
    for line in text.lines() {
        let w: Vec<&str> = line.split(' ').collect();
        match w[0] {
            "CASE" => {
                c = Case {
                    id: w[1].into(),
                    algo: "LR".into(),
                    table: "LALR_PAGER".into(),
                    ps: false,
                    pse: true,
                    ms: true,
                    lm: true,
                    go: true,
                    partial: false,
                    skip_ws: true,
                    fancy: false,
                    run: "LR".into(),
                    lexer: "default".into(),
                    want_match: false,
                    sppf: false,
                    noforest: false,
                    seq: false,
                    grammar: String::new(),
                    inputs: vec![],
                }
            }
            "ALGO" => c.algo = w[1].into(),
            "TABLE" => c.table = w[1].into(),
            "FLAGS" => {
                for kv in &w[1..] {
                    let (k, val) = kv.split_once('=').unwrap();
                    let b = val == "1";
                    match k {
                        "ps" => c.ps = b,
                        "pse" => c.pse = b,
                        "ms" => c.ms = b,
                        "lm" => c.lm = b,
                        "go" => c.go = b,
                        "partial" => c.partial = b,
                        "skipws" => c.skip_ws = b,
                        "fancy" => c.fancy = b,
                        "match" => c.want_match = b,
                        "sppf" => c.sppf = b,
                        "noforest" => c.noforest = b,
                        "seq" => c.seq = b,
                        _ => panic!("flag {k}"),
                    }
                }
            }
            "RUN" => c.run = w[1].into(),
            "LEXER" => c.lexer = w[1].into(),
            "GRAMMAR" => c.grammar = String::from_utf8(unhex(w[1])).unwrap(),
            "INPUT" => c.inputs.push(String::from_utf8(unhex(w[1])).unwrap()),
            "ENDCASE" => v.push(std::mem::take(&mut c)),
            "" => {}
            other => panic!("bad case line {other}"),
        }
    }
    v
}

fn settings_of(c: &Case) -> Settings {
    let algo = if c.algo == "GLR" {
        ParserAlgo::GLR
    } else {
        ParserAlgo::LR
    };
    let tt = match c.table.as_str() {
        "LALR" => TableType::LALR,
        "LALR_RN" => TableType::LALR_RN,
        _ => TableType::LALR_PAGER,
    };
    let mut s = Settings::new()
        .parser_algo(algo)
        .table_type(tt)
        .prefer_shifts(c.ps)
        .prefer_shifts_over_empty(c.pse)
        .lexical_disamb_most_specific(c.ms)
        .lexical_disamb_longest_match(c.lm);
    if c.algo == "GLR" || c.go {
        s = s.lexical_disamb_grammar_order(c.go);
    }
    s.partial_parse(c.partial)
        .skip_ws(c.skip_ws)
        .fancy_regex(c.fancy)
}

fn main() {
    let args: Vec<String> = std::env::args().collect();
    if args.len() < 4 || args[1] != "run" {
        eprintln!("usage: rv run <casefile> <outfile> [start_case start_input]");
        std::process::exit(2);
    }
    let start_case: usize = args.get(4).map(|x| x.parse().unwrap()).unwrap_or(0);
    let start_input: usize = args.get(5).map(|x| x.parse().unwrap()).unwrap_or(0);
    let timeout_s: u64 = std::env::var("RV_TIMEOUT")
        .ok()
        .and_then(|x| x.parse().ok())
        .unwrap_or(10);
    let text = std::fs::read_to_string(&args[2]).unwrap();
    let cases = parse_cases(&text);
    let mut out = std::fs::OpenOptions::new()
        .create(true)
        .append(true)
        .open(&args[3])
        .unwrap();
    // silence panic messages (they are captured)
    std::panic::set_hook(Box::new(|_| {}));

    // watchdog: if no progress for timeout_s seconds, exit 3 (driver resumes)
    std::thread::spawn(move || {
        let mut last = PROGRESS.load(Ordering::SeqCst);
        let mut idle = 0u64;
        loop {
            std::thread::sleep(std::time::Duration::from_millis(250));
            let now = PROGRESS.load(Ordering::SeqCst);
            if now == last {
                idle += 250;
                if idle >= timeout_s * 1000 {
                    std::process::exit(3);
                }
            } else {
                idle = 0;
                last = now;
            }
        }
    });

    for (ci, c) in cases.iter().enumerate() {
        if ci < start_case {
            continue;
        }
        let resume = ci == start_case && start_input > 0;
        let settings = settings_of(c);
        PROGRESS.fetch_add(1, Ordering::SeqCst);
        let dump_text = rustemo_compiler::verif::dump(&c.grammar, &settings);
        PROGRESS.fetch_add(1, Ordering::SeqCst);
        let mut buf = String::new();
        if !resume {
            writeln!(buf, "CASE {} {}", c.id, ci).unwrap();
            buf.push_str(&dump_text);
        }
        let ok = dump_text.starts_with("OK\n");
        // the compiler rejects a grammar with conflicts in LR mode: there is no parser to run
        let rejected = c.algo == "LR" && !dump_text.contains("\nCONFLICTS 0\n");
        if ok && c.run != "NONE" && !rejected {
            let d = read_dump(&dump_text);
            match build_recs(&d, c.fancy) {
                Err(e) => {
                    if !resume {
                        writeln!(buf, "RECERROR {}", hex(e.as_bytes())).unwrap();
                    }
                }
                Ok(recs) => {
                    SPPF.store(c.sppf, Ordering::SeqCst);
                    NOFOREST.store(c.noforest, Ordering::SeqCst);
                    LONGEST.store(c.lm, Ordering::SeqCst);
                    GORDER.store(c.go, Ordering::SeqCst);
                    LAYOUT_STATE.store(d.layout_state, Ordering::SeqCst);
                    *PROD_NT.write().unwrap() = d.prod_nt.clone();
                    let has_layout = d.augl >= 0;
                    let cfg = RunCfg {
                        partial: c.partial,
                        skip_ws: c.skip_ws && !has_layout,
                        has_layout,
                    };
                    let nterm = d.nterm;
                    let def: &'static Def = Box::leak(Box::new(Def {
                        actions: d.actions,
                        gotos: d.gotos,
                        expected: d.expected,
                    }));
                    out.write_all(buf.as_bytes()).unwrap();
                    out.flush().unwrap();
                    buf.clear();
                    for (ii, inp) in c.inputs.iter().enumerate() {
                        if resume && ii < start_input {
                            continue;
                        }
                        // marker first so a hang/crash is attributable
                        writeln!(out, "BEGIN {ii}").unwrap();
                        out.flush().unwrap();
                        let mut b = String::new();
                        if c.want_match {
                            match_table(recs, nterm, inp, &mut b, ii);
                        }
                        if c.run == "LR" || c.run == "BOTH" {
                            let r = if c.lexer == "default" {
                                run_lr(def, recs, &cfg, inp)
                            } else {
                                custom::run_lr_custom(def, recs, &cfg, inp, &c.lexer, nterm)
                            };
                            writeln!(b, "RESULT LR {ii} {r}").unwrap();
                            PROGRESS.fetch_add(1, Ordering::SeqCst);
                        }
                        if c.run == "GLR" || c.run == "BOTH" {
                            let r = run_glr(def, recs, &cfg, inp);
                            writeln!(b, "RESULT GLR {ii} {r}").unwrap();
                            PROGRESS.fetch_add(1, Ordering::SeqCst);
                        }
                        out.write_all(b.as_bytes()).unwrap();
                        out.flush().unwrap();
                    }
                    if c.seq && !resume && c.lexer == "default" {
                        writeln!(out, "BEGIN {}", c.inputs.len()).unwrap();
                        out.flush().unwrap();
                        let mut b = String::new();
                        if c.run == "GLR" {
                            for (ii, r) in run_glr_sequence(def, recs, &cfg, &c.inputs).iter().enumerate() {
                                writeln!(b, "RESULT GLRS {ii} {r}").unwrap();
                            }
                        } else {
                            for (ii, r) in run_lr_sequence(def, recs, &cfg, &c.inputs).iter().enumerate() {
                                writeln!(b, "RESULT LRS {ii} {r}").unwrap();
                            }
                        }
                        out.write_all(b.as_bytes()).unwrap();
                        out.flush().unwrap();
                    }
                }
            }
        }
        buf.push_str("ENDCASE\n");
        out.write_all(buf.as_bytes()).unwrap();
        out.flush().unwrap();
    }
    writeln!(out, "DONE").unwrap();
}

#[allow(dead_code)]
fn _unused(_: Token<'_, str, Tk>) {}
