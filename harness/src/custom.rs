//! User-style custom lexers (C15): lexers that do not honour the expected set.
use rustemo::{Context, Input, Lexer, Token, TokenRecognizer};

use crate::{run_lr_with, Def, LCtx, Rec, RunCfg, St, Tk, NREC};

pub struct CustomLexer {
    mode: String,
    recs: &'static [Rec; NREC],
    nterm: usize,
}

fn skip_ws<'i>(context: &mut LCtx<'i>, input: &'i str) {
    let skipped_len: usize = input[context.position().pos..]
        .chars()
        .take_while(|x| x.is_whitespace())
        .map(|c| c.len_utf8())
        .sum();
    if skipped_len > 0 {
        let skipped = &input[context.position().pos..context.position().pos + skipped_len];
        context.set_layout_ahead(Some(skipped));
        context.set_position(skipped.position_after(context.position()));
    } else {
        context.set_layout_ahead(None);
    }
}

impl<'i> Lexer<'i, LCtx<'i>, St, Tk> for CustomLexer {
    type Input = str;

    fn next_tokens(
        &self,
        context: &mut LCtx<'i>,
        input: &'i str,
        expected: Vec<(Tk, bool)>,
    ) -> Box<dyn Iterator<Item = Token<'i, str, Tk>> + 'i> {
        skip_ws(context, input);
        let p = context.position();
        let rest = &input[p.pos..];
        let mut toks: Vec<Token<'i, str, Tk>> = vec![];
        match self.mode.as_str() {
            // Tries every terminal of the grammar in index order, whatever the
            // parser expects (what a hand written context-free lexer does).
            "all" => {
                for t in (1..self.nterm).chain(std::iter::once(0)) {
                    if let Some(m) = self.recs[t].recognize(rest) {
                        toks.push(Token {
                            kind: Tk(t),
                            value: m,
                            span: m.span_from(p),
                        });
                        break;
                    }
                }
            }
            // Always answers with the first terminal that is NOT expected.
            "foreign" => {
                let exp: Vec<usize> = expected.iter().map(|e| e.0 .0).collect();
                if let Some(t) = (0..self.nterm).find(|t| !exp.contains(t)) {
                    let m = &rest[0..0];
                    toks.push(Token {
                        kind: Tk(t),
                        value: m,
                        span: m.span_from(p),
                    });
                }
            }
            // Zero-length token of the first expected kind.
            "zero" => {
                if let Some((t, _)) = expected.first() {
                    let m = &rest[0..0];
                    toks.push(Token {
                        kind: *t,
                        value: m,
                        span: m.span_from(p),
                    });
                }
            }
            _ => {}
        }
        Box::new(toks.into_iter())
    }
}

pub fn run_lr_custom(
    def: &'static Def,
    recs: &'static [Rec; NREC],
    cfg: &RunCfg,
    input: &str,
    mode: &str,
    nterm: usize,
) -> String {
    let lexer = CustomLexer {
        mode: mode.to_string(),
        recs,
        nterm,
    };
    run_lr_with(def, cfg, lexer, input)
}
