//! rvgen — drives the REAL `rustemo_compiler::Settings … process_grammar` for the
//! generator-level properties (C18 regeneration of actions, C17 determinism and
//! CLI/API equivalence) and prints what it observed in a line oriented format.
//!
//! usage:
//!   rvgen gen  <grammar-file> [setter[:arg] ...]   observe actions file before, run, observe after
//!   rvgen list <file.rs>                          items of one Rust file
//!   rvgen info <grammar-file>                     terminals / nonterminals of the real grammar
//!   rvgen settings [setter[:arg] ...]             Debug rendering of the real Settings value
//!   rvgen multi [setter ...] -- <grammar> ...      process several grammars in one process, in order
//!
//! A setter is the name of a public `Settings` method, applied in the given order:
//!   in_source_tree  actions_in_source_tree  force:true  builder_loc_info:true
//!   parser_algo:glr  table_type:lalr-pager  builder_type:generic  lexer_type:custom
//!   generator_table_type:arrays  out_dir_root:<path>  out_dir_actions_root:<path> root_dir:<path> ...
//!
//! Output of `gen` (every line written by rvgen itself starts with `@`; the compiler prints
//! its own progress lines on the same stream):
//!   SETTINGS <hex of {:?}>                  (or SETTINGSPANIC <hex message>)
//!   BEFORE ABSENT | BEFORE UNPARSABLE <hex> | BEFORE <n> followed by n ITEM lines
//!   RESULT OK | RESULT ERR <hex> | RESULT PANIC <hex>
//!   AFTER  … same shape as BEFORE
//!   ITEM <idx> <kind> <name|-> <token hash> <token hash after one prettyplease round trip> <drift>
//!        <hex of the item rendered alone by prettyplease>
//! kind is Enum / Struct / Type / Fn exactly for the four `syn::Item` variants whose names the
//! generator collects, `Other:<variant>` for everything else, and `Attrs` (index -1) for the
//! file-level inner attributes.
use std::panic::{catch_unwind, AssertUnwindSafe};
use std::path::{Path, PathBuf};

use quote::ToTokens;
use rustemo_compiler::{
    BuilderType, GeneratorTableType, LexerType, ParserAlgo, Settings, TableType,
};

fn hex(s: &str) -> String {
    if s.is_empty() {
        return "-".to_string();
    }
    s.bytes().map(|b| format!("{b:02x}")).collect()
}

fn fnv(s: &str) -> String {
    let mut h: u64 = 0xcbf29ce484222325;
    for b in s.bytes() {
        h ^= b as u64;
        h = h.wrapping_mul(0x100000001b3);
    }
    format!("{h:016x}")
}

fn panic_message(e: Box<dyn std::any::Any + Send>) -> String {
    if let Some(s) = e.downcast_ref::<&str>() {
        s.to_string()
    } else if let Some(s) = e.downcast_ref::<String>() {
        s.clone()
    } else {
        "?".to_string()
    }
}

fn parse_bool(s: &str) -> bool {
    matches!(s, "true" | "1")
}

fn apply(s: Settings, call: &str) -> Settings {
    let (name, arg) = match call.split_once(':') {
        Some((n, a)) => (n, a),
        None => (call, ""),
    };
    match name {
        "in_source_tree" => s.in_source_tree(),
        "actions_in_source_tree" => s.actions_in_source_tree(),
        "force" => s.force(parse_bool(arg)),
        "dot" => s.dot(parse_bool(arg)),
        "actions" => s.actions(parse_bool(arg)),
        "trace" => s.trace(parse_bool(arg)),
        "exclude" => s.exclude(if arg.is_empty() {
            vec![]
        } else {
            arg.split(',').map(|x| x.to_string()).collect()
        }),
        "prefer_shifts" => s.prefer_shifts(parse_bool(arg)),
        "prefer_shifts_over_empty" => s.prefer_shifts_over_empty(parse_bool(arg)),
        "fancy_regex" => s.fancy_regex(parse_bool(arg)),
        "partial_parse" => s.partial_parse(parse_bool(arg)),
        "skip_ws" => s.skip_ws(parse_bool(arg)),
        "print_table" => s.print_table(parse_bool(arg)),
        "builder_loc_info" => s.builder_loc_info(parse_bool(arg)),
        "input_type" => s.input_type(arg.to_string()),
        "lexical_disamb_most_specific" => s.lexical_disamb_most_specific(parse_bool(arg)),
        "lexical_disamb_longest_match" => s.lexical_disamb_longest_match(parse_bool(arg)),
        "lexical_disamb_grammar_order" => s.lexical_disamb_grammar_order(parse_bool(arg)),
        "out_dir_root" => s.out_dir_root(PathBuf::from(arg)),
        "out_dir_actions_root" => s.out_dir_actions_root(PathBuf::from(arg)),
        "root_dir" => s.root_dir(PathBuf::from(arg)),
        "table_type" => s.table_type(match arg {
            "lalr" => TableType::LALR,
            "lalr-pager" => TableType::LALR_PAGER,
            "lalr-rn" => TableType::LALR_RN,
            _ => panic!("rvgen: bad table_type {arg}"),
        }),
        "parser_algo" => s.parser_algo(match arg {
            "lr" => ParserAlgo::LR,
            "glr" => ParserAlgo::GLR,
            _ => panic!("rvgen: bad parser_algo {arg}"),
        }),
        "generator_table_type" => s.generator_table_type(match arg {
            "arrays" => GeneratorTableType::Arrays,
            "functions" => GeneratorTableType::Functions,
            _ => panic!("rvgen: bad generator_table_type {arg}"),
        }),
        "lexer_type" => s.lexer_type(match arg {
            "default" => LexerType::Default,
            "custom" => LexerType::Custom,
            _ => panic!("rvgen: bad lexer_type {arg}"),
        }),
        "builder_type" => s.builder_type(match arg {
            "default" => BuilderType::Default,
            "generic" => BuilderType::Generic,
            "custom" => BuilderType::Custom,
            _ => panic!("rvgen: bad builder_type {arg}"),
        }),
        _ => panic!("rvgen: unknown setter {name}"),
    }
}

fn settings_of(calls: &[String]) -> Result<Settings, String> {
    catch_unwind(AssertUnwindSafe(|| {
        let mut s = Settings::new();
        for c in calls {
            s = apply(s, c);
        }
        s
    }))
    .map_err(panic_message)
}

fn render_alone(item: &syn::Item) -> String {
    let f = syn::File {
        shebang: None,
        attrs: vec![],
        items: vec![item.clone()],
    };
    prettyplease::unparse(&f)
}

/// token texts of a stream, commas left out (used to classify what the pretty printer changed)
fn tokens_no_comma(ts: proc_macro2::TokenStream, out: &mut Vec<String>) {
    for tt in ts {
        match tt {
            proc_macro2::TokenTree::Group(g) => {
                out.push(format!("{:?}(", g.delimiter()));
                tokens_no_comma(g.stream(), out);
                out.push(")".to_string());
            }
            proc_macro2::TokenTree::Punct(p) if p.as_char() == ',' => {}
            other => out.push(other.to_string()),
        }
    }
}

/// `=> ()` and `=> {}` made equal (prettyplease prints a unit arm body as an empty block)
fn unit_arms(v: &[String]) -> Vec<String> {
    let mut out: Vec<String> = vec![];
    let mut i = 0;
    while i < v.len() {
        if i + 3 < v.len()
            && v[i] == "="
            && v[i + 1] == ">"
            && v[i + 2] == "Parenthesis("
            && v[i + 3] == ")"
        {
            out.push("=".into());
            out.push(">".into());
            out.push("Brace(".into());
            out.push(")".into());
            i += 4;
        } else {
            out.push(v[i].clone());
            i += 1;
        }
    }
    out
}

/// (hash of the item's tokens, hash after one round trip through prettyplease, drift class)
/// drift: `=` none, `,` only commas differ, `u` commas and unit match-arm bodies `()` / `{}` differ,
/// `!` something else differs, `?` the printed item does not parse
fn identity(item: &syn::Item) -> (String, String, char) {
    let raw = item.to_token_stream();
    let raw_s = raw.to_string();
    let h_raw = fnv(&raw_s);
    let printed = render_alone(item);
    match syn::parse_file(&printed) {
        Ok(f) if f.items.len() == 1 => {
            let norm = f.items[0].to_token_stream();
            let norm_s = norm.to_string();
            let h_norm = fnv(&norm_s);
            if h_norm == h_raw {
                (h_raw, h_norm, '=')
            } else {
                let (mut a, mut b) = (vec![], vec![]);
                tokens_no_comma(raw, &mut a);
                tokens_no_comma(norm, &mut b);
                let class = if a == b {
                    ','
                } else if unit_arms(&a) == unit_arms(&b) {
                    'u'
                } else {
                    '!'
                };
                (h_raw, h_norm, class)
            }
        }
        _ => (h_raw.clone(), h_raw, '?'),
    }
}

fn describe(item: &syn::Item) -> (String, String) {
    match item {
        syn::Item::Enum(e) => ("Enum".into(), e.ident.to_string()),
        syn::Item::Struct(e) => ("Struct".into(), e.ident.to_string()),
        syn::Item::Type(e) => ("Type".into(), e.ident.to_string()),
        syn::Item::Fn(f) => ("Fn".into(), f.sig.ident.to_string()),
        syn::Item::Const(_) => ("Other:Const".into(), "-".into()),
        syn::Item::ExternCrate(_) => ("Other:ExternCrate".into(), "-".into()),
        syn::Item::ForeignMod(_) => ("Other:ForeignMod".into(), "-".into()),
        syn::Item::Impl(_) => ("Other:Impl".into(), "-".into()),
        syn::Item::Macro(_) => ("Other:Macro".into(), "-".into()),
        syn::Item::Macro2(_) => ("Other:Macro2".into(), "-".into()),
        syn::Item::Mod(_) => ("Other:Mod".into(), "-".into()),
        syn::Item::Static(_) => ("Other:Static".into(), "-".into()),
        syn::Item::Trait(_) => ("Other:Trait".into(), "-".into()),
        syn::Item::TraitAlias(_) => ("Other:TraitAlias".into(), "-".into()),
        syn::Item::Union(_) => ("Other:Union".into(), "-".into()),
        syn::Item::Use(_) => ("Other:Use".into(), "-".into()),
        syn::Item::Verbatim(_) => ("Other:Verbatim".into(), "-".into()),
        _ => ("Other:Unknown".into(), "-".into()),
    }
}

fn list_file(tag: &str, path: &Path) {
    if !path.exists() {
        println!("@{tag} ABSENT");
        return;
    }
    let text = match std::fs::read_to_string(path) {
        Ok(t) => t,
        Err(e) => {
            println!("@{tag} UNPARSABLE {}", hex(&format!("{e}")));
            return;
        }
    };
    // the same call the generator makes (generator/actions/mod.rs:73)
    let parsed = catch_unwind(AssertUnwindSafe(|| syn::parse_file(&text)));
    let file = match parsed {
        Ok(Ok(f)) => f,
        Ok(Err(e)) => {
            println!("@{tag} UNPARSABLE {}", hex(&format!("{e}")));
            return;
        }
        Err(e) => {
            println!("@{tag} UNPARSABLE {}", hex(&panic_message(e)));
            return;
        }
    };
    println!("@{tag} {}", file.items.len());
    if !file.attrs.is_empty() || file.shebang.is_some() {
        let mut toks = String::new();
        if let Some(s) = &file.shebang {
            toks.push_str(s);
        }
        for a in &file.attrs {
            toks.push_str(&a.to_token_stream().to_string());
            toks.push(' ');
        }
        let alone = syn::File {
            shebang: file.shebang.clone(),
            attrs: file.attrs.clone(),
            items: vec![],
        };
        println!(
            "@ITEM -1 Attrs - {} {} = {}",
            fnv(&toks),
            fnv(&toks),
            hex(&prettyplease::unparse(&alone))
        );
    }
    for (i, item) in file.items.iter().enumerate() {
        let (kind, name) = describe(item);
        let (h_raw, h_norm, drift) = identity(item);
        println!(
            "@ITEM {i} {kind} {name} {h_raw} {h_norm} {drift} {}",
            hex(&render_alone(item))
        );
    }
}

fn actions_path(grammar: &Path, s: Option<&Settings>) -> PathBuf {
    // <grammar dir>/<stem>_actions.rs unless RVGEN_ACTIONS names the file explicitly
    let _ = s;
    if let Ok(p) = std::env::var("RVGEN_ACTIONS") {
        return PathBuf::from(p);
    }
    let stem = grammar.file_stem().unwrap().to_string_lossy().to_string();
    grammar.parent().unwrap().join(format!("{stem}_actions.rs"))
}

fn main() {
    let args: Vec<String> = std::env::args().collect();
    if args.len() < 2 {
        eprintln!("usage: rvgen gen|list|info|settings ...");
        std::process::exit(2);
    }
    // panic messages are captured, not printed
    std::panic::set_hook(Box::new(|_| {}));
    match args[1].as_str() {
        "list" => {
            list_file("ITEMS", Path::new(&args[2]));
        }
        "settings" => match settings_of(&args[2..]) {
            Ok(s) => println!("@SETTINGS {}", hex(&format!("{s:?}"))),
            Err(m) => println!("@SETTINGSPANIC {}", hex(&m)),
        },
        "info" => {
            let text = std::fs::read_to_string(&args[2]).unwrap();
            let s = settings_of(&args[3..]).unwrap_or_else(|_| Settings::new());
            let d = rustemo_compiler::verif::dump(&text, &s);
            for line in d.lines() {
                let k = line.split(' ').next().unwrap_or("");
                if matches!(
                    k,
                    "OK" | "ERROR" | "PANIC" | "TERM" | "NONTERM" | "PROD" | "SPECIAL"
                ) {
                    println!("@{line}");
                }
            }
        }
        "gen" => {
            let grammar = PathBuf::from(&args[2]);
            let s = match settings_of(&args[3..]) {
                Ok(s) => s,
                Err(m) => {
                    println!("@SETTINGSPANIC {}", hex(&m));
                    return;
                }
            };
            println!("@SETTINGS {}", hex(&format!("{s:?}")));
            let af = actions_path(&grammar, Some(&s));
            list_file("BEFORE", &af);
            let r = catch_unwind(AssertUnwindSafe(|| s.process_grammar(&grammar)));
            match r {
                Ok(Ok(())) => println!("@RESULT OK"),
                Ok(Err(e)) => println!("@RESULT ERR {}", hex(&format!("{e}"))),
                Err(e) => println!("@RESULT PANIC {}", hex(&panic_message(e))),
            }
            list_file("AFTER", &af);
        }
        "multi" => {
            // rvgen multi [setter ...] -- <grammar> <grammar> ...   (one process, given order)
            let sep = args.iter().position(|a| a == "--").unwrap_or(args.len());
            let s = match settings_of(&args[2..sep]) {
                Ok(s) => s,
                Err(m) => {
                    println!("@SETTINGSPANIC {}", hex(&m));
                    return;
                }
            };
            println!("@SETTINGS {}", hex(&format!("{s:?}")));
            for g in args.iter().skip(sep + 1) {
                let grammar = PathBuf::from(g);
                let r = catch_unwind(AssertUnwindSafe(|| s.process_grammar(&grammar)));
                match r {
                    Ok(Ok(())) => println!("@RESULT OK"),
                    Ok(Err(e)) => println!("@RESULT ERR {}", hex(&format!("{e}"))),
                    Err(e) => println!("@RESULT PANIC {}", hex(&panic_message(e))),
                }
            }
        }
        _ => {
            eprintln!("usage: rvgen gen|list|info|settings|multi ...");
            std::process::exit(2);
        }
    }
}
