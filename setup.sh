#!/bin/sh
# Build everything the checks need, offline, from files on disk.
set -e
cd "$(dirname "$0")"
export CARGO_NET_OFFLINE=true
mkdir -p .cache work evidence replays
( cd coq && coq_makefile -f _CoqProject -o Makefile >/dev/null && timeout 3000 make -j16 >/dev/null )
CARGO_TARGET_DIR="$PWD/.cache/target" cargo build --offline --manifest-path harness/Cargo.toml
# the real rcomp binary (C17 compares its output with the API's; C16 runs it)
CARGO_TARGET_DIR="$PWD/.cache/target-repo" cargo build --offline --manifest-path /repo/Cargo.toml -p rustemo-compiler --bin rcomp
# dependencies of the batch crates that compile the REAL generated parsers (C08, C10, C11)
python3 gen/batch.py warm
echo setup-ok
