#!/bin/bash
# usage: catchmatrix.sh <prop lower> <check ids...>
# Runs the named quick checks against both seeded changes of a property, in that property's scratch worktree
# (tools/mutcheck.sh: a copy of /verif whose harness path-depends on the worktree; /repo is not touched).
p=$1; shift
WT=/tmp/mut-$p; ID=${p^^}
mkdir -p /var/tmp/catch
for X in A B; do
  MC=/var/tmp/mutcheck-$p /verif/tools/mutcheck.sh $WT /verif/seeded/$ID-$X/patch.diff "$@" > /var/tmp/catch/$ID-$X.txt 2>&1
done
rm -rf /var/tmp/mutcheck-$p
echo "CATCHDONE $p"
