#!/bin/bash
# usage: mutcheck.sh <worktree> <patch-file> <ID> [<ID>...]
# Runs the checks against a patched scratch worktree WITHOUT touching /repo: a copy of /verif whose harness
# path-depends on the worktree. (The registered checks themselves always run against /repo.)
set -u
WT=$1; PATCH=$2; shift 2
MC=${MC:-/var/tmp/mutcheck}
mkdir -p $MC $MC/target
rsync -a --delete --exclude .cache --exclude work --exclude .git --exclude replays --exclude evidence /verif/ $MC/verif/
mkdir -p $MC/verif/.cache $MC/verif/replays $MC/verif/evidence
sed -i "s#/repo/#$WT/#g" $MC/verif/harness/Cargo.toml
( cd $WT && git checkout -q -- . && git checkout -q --detach $(git -C /repo rev-parse HEAD) && patch -p1 -s --forward < "$PATCH" ) || { echo "patch does not apply"; ( cd $WT && git checkout -q -- . ); exit 2; }
export CARGO_TARGET_DIR=$MC/target
# rvlib uses <verif>/.cache/target/debug/rv
rm -rf $MC/verif/.cache/target; ln -s $MC/target $MC/verif/.cache/target
for id in "$@"; do
  echo "=== $id on $(basename $PATCH)"
  ( cd $MC/verif && RV_REPO=$WT timeout 3000 ./check $id --tier quick 2>&1 | grep -E "^(VIOLATION|PASS|KNOWN|Traceback|.*Error)" | cut -c1-220 | sort | uniq -c | sort -rn | head -8 )
  ( cd $MC/verif && python3 - <<PY
import json,glob,collections
c=collections.Counter()
for f in glob.glob('replays/$id-*.json'):
    p=json.load(open(f)); c[p['key']]+=1
print(dict(c))
PY
  )
  rm -f $MC/verif/replays/*.json
done
( cd $WT && git checkout -q -- . )
