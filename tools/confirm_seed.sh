#!/bin/bash
# usage: confirm_seed.sh <worktree> <A|B> <ID> <outdir>
# Confirms one seeded change in its scratch worktree (rebased on /repo HEAD):
#   1. the unedited suite passes with the patch (cargo test --workspace --no-fail-fast --offline)
#   2. the agent's demonstration fails with the patch and passes without it.
# Writes /verif/seeded/<ID>-<X>/{patch.diff,demo/} and <outdir>/<ID>-<X>.json
set -u
WT=$1; X=$2; ID=$3; OUT=$4
HEAD=$(git -C /repo rev-parse HEAD)
id=$ID-$X
mkdir -p $OUT
L=$OUT/$id.log; : > $L
cd $WT || exit 2
git checkout -q -- . ; git checkout -q --detach $HEAD; git clean -fdq tests/tests rustemo-compiler/tests 2>/dev/null
if ! patch -p1 -s --forward < SEED/$X.diff >> $L 2>&1; then echo "$id PATCH-FAILED"; git checkout -q -- .; exit 2; fi
mkdir -p /verif/seeded/$id
git diff > /verif/seeded/$id/patch.diff
CARGO_TARGET_DIR=$WT/target timeout 3000 cargo test --workspace --no-fail-fast --offline > $OUT/$id.suite.log 2>&1
passed=$(grep -h "^test result" $OUT/$id.suite.log | sed 's/.* \([0-9]*\) passed.*/\1/' | paste -sd+ | bc)
failed=$(grep -h "^test result" $OUT/$id.suite.log | sed 's/.*; \([0-9]*\) failed.*/\1/' | paste -sd+ | bc)
git checkout -q -- tests 2>/dev/null   # the suite regenerates tracked files under tests/
patch -p1 -s --forward -N < SEED/$X.diff >/dev/null 2>&1   # re-apply hunks under tests/ if any were dropped
demo() {
  D=SEED/${X}_demo
  F="^test result|panicked|FAILED|^error|DEMO|PASS|FAIL"
  if [ -f $D/run.sh ]; then
    ( CARGO_TARGET_DIR=$WT/target timeout 1500 sh $D/run.sh > $OUT/$id.demo.$1.log 2>&1; echo "exit=$?"; grep -hE "$F" $OUT/$id.demo.$1.log | head -6 )
  elif [ -f $D/Cargo.toml ] || [ -f $D/crate/Cargo.toml ]; then
    C=$D; [ -f $D/crate/Cargo.toml ] && C=$D/crate
    ( cd $C && CARGO_TARGET_DIR=$WT/target RUST_BACKTRACE=0 timeout 1500 cargo test --offline > $OUT/$id.demo.$1.log 2>&1; echo "exit=$?"; grep -hE "$F" $OUT/$id.demo.$1.log | head -8 )
  else
    f=$(ls $D/*.rs | head -1); n=$(basename $f .rs)
    if grep -q "rustemo_compiler\|rcomp" $f; then pkg=rustemo-compiler; dir=rustemo-compiler/tests; else pkg=rustemo-tests; dir=tests/tests; fi
    mkdir -p $dir; cp $f $dir/
    ( CARGO_TARGET_DIR=$WT/target RUST_BACKTRACE=0 timeout 1500 cargo test -p $pkg --test $n --offline > $OUT/$id.demo.$1.log 2>&1; echo "exit=$?"; grep -hE "$F" $OUT/$id.demo.$1.log | head -8 )
    rm -f $dir/$n.rs; rmdir $dir 2>/dev/null
  fi
}
with=$(demo with)
git checkout -q -- .
without=$(demo without)
git checkout -q -- . ; git clean -fdq rustemo-compiler/tests tests/tests 2>/dev/null
echo "$id suite_passed=$passed suite_failed=$failed"
echo "  WITH:    $(echo "$with" | tr '\n' '|' | cut -c1-300)"
echo "  WITHOUT: $(echo "$without" | tr '\n' '|' | cut -c1-300)"
mkdir -p /verif/seeded/$id/demo && cp -r SEED/${X}_demo/. /verif/seeded/$id/demo/ 2>/dev/null
rm -rf /verif/seeded/$id/demo/target /verif/seeded/$id/demo/work /verif/seeded/$id/demo/crate/target
python3 - "$id" "$passed" "$failed" "$with" "$without" "$OUT" <<'PY'
import json,sys
id,passed,failed,w,wo,out=sys.argv[1:7]
json.dump(dict(id=id,suite_passed_with_patch=passed,suite_failed_with_patch=failed,demo_with_patch=w,demo_without_patch=wo),open('%s/%s.json'%(out,id),'w'),indent=1)
PY
