#!/usr/bin/env python3
"""Writes /verif/seeded/<ID>-<X>/meta.json from (1) the sub-agent's own SEED/meta.json (what the change breaks and
needs), (2) my confirmation run (tools/confirm_seed.sh: suite with the patch, demonstration with and without),
(3) the catch matrix (tools/catchmatrix.sh / tools/mutcheck.sh: which quick checks report it, with which keys)."""
import glob
import json
import os
import re
import sys

CONF = sys.argv[1] if len(sys.argv) > 1 else "/var/tmp/confirm_seeds"
CATCH = sys.argv[2] if len(sys.argv) > 2 else "/var/tmp/catch"
OVERRIDE = {"C03-A": {"C03": {"forest-tree-not-over-input": 1}}}
props = {}
for l in open("/verif/properties.jsonl"):
    p = json.loads(l)
    props[p["id"]] = p["title"]


def catch_of(sid):
    res = {}
    for f in sorted(glob.glob(os.path.join(CATCH, sid + "*.txt"))):
        cur = None
        for line in open(f, errors="replace"):
            m = re.match(r"=== (C\d\d) on", line)
            if m:
                cur = m.group(1)
                res.setdefault(cur, {})
            elif cur and line.startswith("{"):
                try:
                    d = eval(line.strip(), {}, {})
                except Exception:
                    d = {}
                if d or not res[cur]:
                    res[cur] = d
    for k, v in OVERRIDE.get(sid, {}).items():
        res[k] = v
    return res


for d in sorted(glob.glob("/verif/seeded/C??-?")):
    sid = os.path.basename(d)
    pid, x = sid.split("-")
    agent = {}
    ap = "/tmp/mut-%s/SEED/meta.json" % pid.lower()
    if x == "C":
        ap = "/tmp/mut-%s/SEED/metaC.json" % pid.lower()
    if os.path.exists(ap):
        try:
            am = json.load(open(ap))
            pa = am.get("patches", am.get("seeds", {}))
            agent = pa.get(x, {}) if isinstance(pa, dict) else next((q for q in pa if q.get("id", q.get("name")) == x), {})
        except Exception as e:
            agent = {"unreadable": str(e)}
    if not agent and os.path.exists(os.path.join(d, "meta.json")):
        agent = json.load(open(os.path.join(d, "meta.json"))).get("agent", {})
    conf = {}
    cp = os.path.join(CONF, sid + ".json")
    if os.path.exists(cp):
        conf = json.load(open(cp))
    elif os.path.exists(os.path.join(d, "meta.json")):
        conf = json.load(open(os.path.join(d, "meta.json"))).get("confirmed", {})
    caught = catch_of(sid)
    if not caught and os.path.exists(os.path.join(d, "meta.json")):
        caught = json.load(open(os.path.join(d, "meta.json"))).get("checks", {})
    meta = dict(
        id=sid, property=pid, property_title=props.get(pid, ""),
        breaks=agent.get("breaks_sentence", agent.get("property_sentence_broken", agent.get("breaks", ""))),
        what_changed=next((agent[k] for k in ("what_changed", "summary", "what", "what_it_does", "mechanism", "slip", "title", "effect") if agent.get(k)), ""),
        needs_to_manifest=agent.get("needs_to_manifest", agent.get("needs", "")),
        files_functions=next((agent[k] for k in ("files_functions", "touches", "files", "functions") if agent.get(k)), ""),
        produced_by="fresh sub-agent given only the text of the property and a scratch git worktree of /repo",
        confirmed=dict(
            how="tools/confirm_seed.sh in the scratch worktree rebased on /repo HEAD: cargo test --workspace --no-fail-fast "
                "--offline with the patch; the agent's demonstration with the patch and without it",
            suite_passed_with_patch=conf.get("suite_passed_with_patch"), suite_failed_with_patch=conf.get("suite_failed_with_patch"),
            demo_with_patch=conf.get("demo_with_patch", "")[:600], demo_without_patch=conf.get("demo_without_patch", "")[:300]),
        checks=dict((c, ("CAUGHT " + ", ".join("%s x%d" % kv for kv in sorted(k.items()))) if k else "passes (not caught by this check)")
                    for c, k in sorted(caught.items())),
        checks_how="tools/mutcheck.sh <worktree> patch.diff <IDs>: ./check <ID> --tier quick from a copy of /verif whose "
                   "harness path-depends on the patched worktree (RV_REPO); /repo itself is never patched by this route",
        agent=agent)
    json.dump(meta, open(os.path.join(d, "meta.json"), "w"), indent=1)
    print(sid, {c: (sorted(k) if k else "-") for c, k in caught.items()})
