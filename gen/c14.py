"""C14 — the generic parse tree is lossless: tokens and layout reconstruct the input.

(T) Properties/C14.v: meaning of lossless_b (concatenation statement), skip-run maximality lemma for the model's
    `skip`, layout/leaf bookkeeping lemmas (see file); the full model-level round-trip theorem is partial.
(V/O) lossless_b (layout ++ value over the leaves == input up to the end of the last token) and, under
    whitespace skipping, layout_is_ws_b (each stored layout is a maximal whitespace run) evaluated on EVERY
    real tree; with a Layout rule each stored layout must be accepted by the real parser of the Layout
    sub-grammar compiled separately.
(C) real LRParser == byte-level model (trees with layout) on every input.
(O) inserting layout between the tokens of a sentence never changes the tree: the same token sequence
    rendered with different layouts gives the same tree (productions, token kinds, values)."""
import random
import re

from rvlib import *  # noqa
import grammars as GR
import bytecommon as BC
from common import TRUSTED_BASE

LEVEL = "proof"
SALT = 14


def strip_tree(t):
    if t[0] == "T":
        return ("T", t[1], t[6])
    return ("N", t[1], tuple(strip_tree(c) for c in t[2]))


def layout_subgrammar(bg):
    """the Layout rule of bg as a stand-alone grammar whose start rule is `Lay` (renamed so that it is an
    ordinary rule), or None"""
    if not bg.layout:
        return None
    rules, terms, _ = bg.layout
    rules = re.sub(r"\bLayout\b", "Lay", rules)
    return rules + "\nterminals\n" + terms + "\n"


def run(rep, tier, seed):
    rng = random.Random(seed * 7919 + SALT)
    cases, texts_all, bgl = BC.make_byte_cases(tier, seed, SALT, layout_prob=0.4, partial_prob=0.15)
    # re-renderings of the same token sequences with different layouts
    variants = []   # per case: list of (input index group)
    for c, texts, bg in zip(cases, texts_all, bgl):
        groups = []
        base = [t for t in texts if t[1] in ("valid", "valid-layout") and t[2] is not None][:4]
        for (_, _, w) in base:
            idxs = []
            lexemes = [rng.choice(bg.lex[t][2]) for t in w]     # same token texts, only the layout varies
            for _ in range(3):
                if bg.layout:
                    seps = [rng.choice(bg.layout[2]) for _ in w]
                else:
                    seps = [rng.choice([" ", "  ", "\n", "\t", " \n ", "\u00a0", "\r\n"]) for _ in w]
                if seps and rng.random() < 0.5:
                    seps[0] = ""
                text = "".join(s + l for s, l in zip(seps, lexemes))
                idxs.append(len(c.inputs))
                c.inputs.append(text)
                texts.append((text, "variant", w))
            groups.append(idxs)
        variants.append(groups)
    results = run_cases(cases, "c14")
    items = []
    stats = dict(cases=len(cases), accepted=0, with_layout_rule=0)
    for r, texts in zip(results, texts_all):
        if r.status == "OK" and r.dump is not None and r.dump.conflicts == 0 and not r.dump.missing_rec and not r.recerror:
            stats["accepted"] += 1
            if r.dump.augl >= 0:
                stats["with_layout_rule"] += 1
            items.append((r.case.id, r, [t[0] for t in texts]))

    def extra(n, i, rtree, inp, mt):
        ex = ["lossless_b %s (%s)" % (inp, rtree)]
        return ex

    def extra_ws(n, i, rtree, inp, mt):
        return ["lossless_b %s (%s)" % (inp, rtree), "layout_is_ws_b %s (%s)" % (mt, rtree)]

    ws_items = [it for it in items if it[1].dump.augl < 0 and it[1].case.flags.get("skipws", 1)]
    other_items = [it for it in items if not (it[1].dump.augl < 0 and it[1].case.flags.get("skipws", 1))]
    ev = BC.byte_jobs("c14w", ws_items, extra=extra_ws)
    ev.update(BC.byte_jobs("c14l", other_items, extra=extra))
    n_inputs = n_trees = n_layout_leaves = n_variant_groups = n_mtok = n_mtbad = 0
    samples = []
    layout_strings = {}   # case id -> set of layout strings stored in real trees
    byid = {c.id: (c, bg, groups) for c, bg, groups in zip(cases, bgl, variants)}
    for tag, r, texts in items:
        e = ev.get(tag)
        base = dict(grammar=r.case.grammar, table=r.case.table, flags=r.case.flags)
        if e is None or "error" in e:
            rep.violation("coq-eval", "Coq evaluation of the case failed", dict(base, err=(e or {}).get("error")), found_input=False)
            continue
        bad = [i for i, b in e["extra"].items() if not b]
        if bad:
            i = bad[0]
            rep.violation("not-lossless", "layout ++ token text of the leaves does not reproduce the consumed input, or a "
                          "stored layout is not a maximal whitespace run", dict(base, input=texts[i], real=r.results.get(("LR", i))))
            continue
        for i, b in e["corr"].items():
            n_inputs += 1
            if not b:
                rep.violation("corr-bytes", "real LRParser and the byte-level Gallina model disagree",
                              dict(base, input=texts[i], real=r.results.get(("LR", i)),
                                   model=BC.show_model(r, texts[i], r.matches[i]),
                                   obligation="correspondence Model.LRBytes.bparse vs rustemo::LRParser"), found_input=False)
                break
        n_trees += len(e["extra"])
        n_mtok += sum(1 for b in e.get("mtok", {}).values() if b)
        n_mtbad += sum(1 for b in e.get("mtok", {}).values() if not b)
        # layout invariance on the real results
        c, bg, groups = byid[tag]
        # layout insertion is only layout when the parser skips it (whitespace skipping on, or a Layout rule); with
        # partial parsing the re-renderings of one SENTENCE must still give one tree (only accepted variants are compared)
        layout_mode = bool(r.dump.augl >= 0 or r.case.flags.get("skipws", 1))
        for idxs in (groups if layout_mode else []):
            outs = [r.results.get(("LR", i), "") for i in idxs]
            oks = [o for o in outs if o.startswith("OK")]
            if len(oks) >= 2:
                n_variant_groups += 1
                ts = [strip_tree(parse_sexp(o.split(" ", 1)[1])) for o in oks]
                if any(t != ts[0] for t in ts[1:]):
                    rep.violation("layout-changes-tree", "the same token sequence with different layout gives different trees",
                                  dict(base, inputs=[texts[i] for i in idxs], reals=outs))
                    break
            if oks and len(oks) != len(outs):
                # accepted with one layout, rejected with another: only a violation if the rejected text really has
                # the same tokens; rendering with adjacent tokens may fuse lexemes, so compare measured tokenisation
                pass
        # collect stored layouts for the Layout-rule oracle
        if r.dump.augl >= 0:
            for i in range(len(texts)):
                o = r.results.get(("LR", i), "")
                if o.startswith("OK"):
                    for leaf in tree_leaves(parse_sexp(o.split(" ", 1)[1])):
                        if leaf[5] is not None:
                            layout_strings.setdefault(tag, set()).add(leaf[5])
                            n_layout_leaves += 1
        if len(samples) < 4 and e["extra"]:
            i = sorted(e["extra"])[-1]
            samples.append(dict(shape=r.case.meta["shape"], grammar=r.case.grammar, input=texts[i],
                                real=r.results.get(("LR", i), "")[:300]))
    # stored layout is a sentence of the Layout rule: separately compiled Layout sub-grammar, real parser
    lcases, lmeta = [], []
    for tag, strs in layout_strings.items():
        c, bg, _ = byid[tag]
        sub = layout_subgrammar(bg)
        if sub is None:
            continue
        ss = sorted(strs)[:40]
        lcases.append(Case("lay_" + tag, sub, [s.decode(errors="replace") for s in ss], algo="LR", table="LALR_PAGER", run="LR",
                           flags=dict(ps=1, pse=1, skipws=0)))
        lmeta.append((tag, ss))
    n_layout_checked = 0
    if lcases:
        lres = run_cases(lcases, "c14lay")
        for lr, (tag, ss) in zip(lres, lmeta):
            if lr.status != "OK" or lr.dump is None or lr.dump.conflicts != 0:
                rep.notes.append("Layout sub-grammar of %s did not compile stand-alone (%s): oracle skipped" % (tag, lr.status))
                continue
            for i, sbytes in enumerate(ss):
                o = lr.results.get(("LR", i), "")
                n_layout_checked += 1
                if not o.startswith("OK"):
                    c, bg, _ = byid[tag]
                    rounds = layout_rounds(lr.case.grammar, sbytes)
                    if rounds is not None and rounds >= 2:
                        # the parser runs the layout sub-parser again when no token follows a parsed layout; the stored
                        # layout is then what several rounds skipped (recorded finding, see KNOWN_FINDINGS.txt)
                        rep.violation("layout-spans-several-rounds", "a layout stored in the tree is not ONE sentence of the "
                                      "Layout rule but the concatenation of %d (the layout sub-parser ran %d times before "
                                      "the token)" % (rounds, rounds),
                                      dict(grammar=c.grammar, layout=repr(sbytes), rounds=rounds))
                        continue
                    rep.violation("layout-not-in-layout-language", "a layout stored in the tree is not a sentence of the "
                                  "Layout rule", dict(grammar=c.grammar, layout=repr(sbytes), oracle=o[:200]))
                    break
    pt = rep.theorems or {}
    nthm = len(pt.get("theorems", []))
    rep.coverage = dict(
        obligations=nthm + n_trees, discharged=(pt.get("closed", 0) if not rep.violations else 0) + n_trees,
        checker_cmd="make -C coq Properties/C14.vo ; coqc work/c14*_*.v (vm_compute of lossless_b, layout_is_ws_b, bout_eqb)",
        trusted_base=TRUSTED_BASE, theorems=pt.get("theorems", []), programs=stats["accepted"],
        evaluations=n_inputs, distinct_nontrivial=n_trees,
        rule="byte-level grammars (40% with a Layout rule: whitespace+line comments, nested comments) x rendered "
             "sentences with random layout, non-sentences, garbage; every accepted input's tree is checked by lossless_b "
             "(+ layout_is_ws_b under whitespace skipping); each valid token sequence is re-rendered 3x with different "
             "layout and the trees compared; stored layouts are parsed by the separately compiled Layout sub-grammar",
        trees_checked=n_trees, inputs_meeting_mt_ok_b=n_mtok, inputs_not_meeting_mt_ok_b=n_mtbad, variant_groups_compared=n_variant_groups, layout_leaves=n_layout_leaves,
        layouts_checked_against_layout_rule=n_layout_checked, stats=stats, samples=samples)
    rep.assumptions = ["recognizers insensitive to what follows a token boundary (needed for layout-insertion invariance; "
                       "measured: only sequences that re-tokenise identically are compared)"]


def layout_rounds(sub, sbytes):
    """number of partial parses of the stand-alone Layout grammar that consume `sbytes` exactly, each from where the
    one before stopped (the way the parser skips layout in rounds); None if that does not consume it"""
    rest, rounds = sbytes, 0
    while rest and rounds < 12:
        c = Case("layround", sub, [rest.decode(errors="replace")], algo="LR", table="LALR_PAGER", run="LR",
                 flags=dict(ps=1, pse=1, skipws=0, partial=1))
        r = run_cases([c], "c14round", shards=1)[0]
        o = r.results.get(("LR", 0), "")
        if not o.startswith("OK"):
            return None
        t = parse_sexp(o.split(" ", 1)[1])
        k = t[4][0]
        if k <= 0:
            return None
        rest = rest[k:]
        rounds += 1
    return rounds if not rest else None


def replay(rep, path):
    import json
    p = json.load(open(path))
    inputs = p.get("inputs") or [p.get("input", "")]
    c = Case("replay", p["grammar"], inputs, algo="LR", table=p.get("table", "LALR_PAGER"), run="LR",
             flags=dict(p.get("flags", {}), match=1))
    r = run_cases([c], "c14replay", shards=1)[0]
    for i in range(len(inputs)):
        print("real   :", r.results.get(("LR", i)))
    rep.coverage = dict(obligations=1, discharged=1, checker_cmd="replay", trusted_base=[])
