"""C11 — generated parser and actions compile for every accepted grammar and setting.

Level "other": rustc's type checker has no Gallina model. What is logic is proved
(Properties/C11.v: the choice-name de-duplication of grammar/types/mod.rs:448-474 is modelled in
Model/Names.v; `choice_names_unique` is refuted with a witness and proved on the complement of a
decidable class). The rest is exploration of the REAL tool chain: the real generator
(`Settings::process_grammar`, run from the build.rs of scratch crates) writes parser and actions
for generated grammars x {LR, GLR} x {Default, Generic, Custom builder} x {Arrays, Functions} x
builder_loc_info x fancy_regex x {default, custom lexer}; `cargo check` type-checks them against
the runtime crate, with every parser constructed and `parse` called so the generic impls are
instantiated; for Custom builder / lexer a trivial user implementation is supplied.

A grammar is in scope iff the real generator ACCEPTS it (returns Ok). When rustc rejects code
generated for an accepted grammar that is a violation; it is attributed to the single grammar by
the path of the generated file in the diagnostic (bisection of the batch as fall-back) and keyed by
rustc error code + generator site (file, enclosing generated item)."""
import itertools
import os
import random
import re
import time

from rvlib import *  # noqa
import batch as B
import astgrammars as AG
import gtext as GT
from common import TRUSTED_BASE

LEVEL = "other"
NEEDS_HARNESS = False
HERE = os.path.dirname(os.path.abspath(__file__))

DIMS = dict(algo=["LR", "GLR"], builder=["default", "generic", "custom"], layout=["arrays", "functions"],
            loc=[0, 1], fancy=[0, 1], lexer=["default", "custom"])
ALL_CONFIGS = [dict(zip(DIMS, v)) for v in itertools.product(*DIMS.values())]


def cfg_settings(c):
    s = dict(algo=c["algo"], builder=c["builder"], layout=c["layout"], loc=c["loc"], fancy=c["fancy"],
             lexer=c["lexer"], dump=int(c["builder"] == "default"))
    if c["algo"] == "GLR":
        s.update(table="LALR_RN", ps=0, pse=0, go=0)
    else:
        s.update(table="LALR_PAGER", ps=0, pse=1, go=1)
    return s


def cfg_tag(c):
    return "%s/%s/%s/loc%d/fancy%d/lexer-%s" % (c["algo"], c["builder"], c["layout"], c["loc"], c["fancy"], c["lexer"])


KNOWN_PARSER_ITEMS = {"State", "TokenKind", "ProdKind", "NonTermKind", "Symbol", "Terminal", "NonTerminal",
                      "DefaultBuilder", "Recognizer", "TokenRecognizer", "PARSER_DEFINITION", "RECOGNIZERS",
                      "Input", "Context"}


def site_of(path, line, which):
    """the generated item enclosing an error line, normalised so that it does not depend on the grammar"""
    try:
        lines = open(path, errors="replace").read().split("\n")
    except OSError:
        return which + "/?"
    inner = None
    i = min(max(line - 1, 0), len(lines) - 1)
    while i >= 0:
        l = lines[i]
        m = re.match(r"    (?:pub )?fn (\w+)", l)
        if m and inner is None:
            inner = m.group(1)
        m = re.match(r"(?:pub(?:\([a-z ]+\))? )?(enum|struct|fn|type|static|const|use|mod) (\w+)", l)
        if m:
            kind, name = m.group(1), m.group(2)
            if which == "parser" and name in KNOWN_PARSER_ITEMS:
                return "parser/%s-%s" % (kind, name)
            if which == "parser" and kind == "fn":
                name = re.sub(r"_s\d+$", "", name)
                name = "action_fn" if name.startswith("action_") else "goto_fn" if name.startswith("goto_") else name
                return "parser/fn-%s" % name
            return "%s/%s" % (which, kind)
        if l.startswith("impl"):
            # prettyplease breaks long impl headers over several lines
            j, hdr = i, l
            while "{" not in hdr and j + 1 < len(lines) and j < i + 6:
                j += 1
                hdr += " " + lines[j].strip()
            l = hdr
        m = re.match(r"impl(?:<[^>]*>)? (?:(\w+)(?:<.*>)? for )?(\w+)", l)
        if m:
            tr, ty = m.group(1) or "", m.group(2)
            if ty not in KNOWN_PARSER_ITEMS and not ty.endswith("Parser") and not ty.endswith("Definition"):
                ty = "T"
            elif ty.endswith("ParserDefinition"):
                ty = "ParserDefinition"
            elif ty.endswith("Parser"):
                ty = "Parser"
            s = "%s/impl-%s-%s" % (which, tr, ty)
            if inner:
                s += "." + inner
            return s
        i -= 1
    return which + "/top"


def canonical_error(it):
    """the diagnostic that names the finding: the first one rustc reported for this item's generated files
    (rustc reports the primary error before its consequences; the order is deterministic for a fixed source)"""
    return it.rustc_errors[0]


def error_key(bt, it):
    code, msg, fname, line, rendered = canonical_error(it)
    which = "actions" if fname.endswith("_actions.rs") else "parser" if fname == it.name + ".rs" else "user-code"
    path = B.generated_source(bt, it, "actions" if which == "actions" else "parser")
    site = site_of(path, line or 1, which) if path and which != "user-code" else which
    if code == "no-code":
        code = "syntax" if "expected" in msg else "nocode"
    return "rustc-%s-%s" % (code, site.replace("/", "-")), site


# --------------------------------------------------------------------- known-finding classes
# A recorded finding is identified by its key AND by a predicate on the failing grammar/settings (the class the
# recorded defect lives in). The same rustc diagnostic on a grammar outside the class gets the key suffix
# "-outside-known-class" and is reported as a violation.
RUST_STD_SHADOW = {"String", "Option", "Vec", "Box"}


def _rules_named(pg, names):
    return any(n in names for n in pg.rule_names)


def _terms_named(pg, names):
    return any(n in names for n in pg.terminals)


def _assign_named(pg, names):
    return any(r.name in names for _, _, alts in pg.rules for a in alts for r in a.refs if r.name)


def _dup_kind(pg, st):
    for _, _, alts in pg.rules:
        ks = [a.kind for a in alts if a.kind]
        if len(ks) != len(set(ks)):
            return True
    return False


def _dedup_collision(pg, st):
    """choice names: N occurs twice and N<digits> occurs too (Model/Names.v prefix_clash_b)"""
    for _, _, alts in pg.rules:
        names = []
        for a in alts:
            rc = [r for r in a.refs if pg.has_content(r.sym)]
            if a.kind:
                names.append(a.kind)
            elif len(rc) == 1 and rc[0].name is None:
                names.append(rc[0].sym)
            elif not rc and len(a.refs) == 1:
                names.append(a.refs[0].sym)
        for n in set(names):
            if names.count(n) > 1 and any(m != n and m.startswith(n) and m[len(n):].isdigit() for m in names):
                return True
    return False


def _kind_is_rule_name(pg, st):
    """type names made from a production {Kind} are global: a kind equal to a rule name, or one kind used in two rules"""
    kinds = {a.kind for _, _, alts in pg.rules for a in alts if a.kind}
    if any(k in pg.rule_names for k in kinds):
        return True
    seen = {}
    for name, _, alts in pg.rules:
        for a in alts:
            if a.kind:
                if seen.setdefault(a.kind, name) != name:
                    return True
    return False


def _field_name_collision(pg, st):
    for _, _, alts in pg.rules:
        for a in alts:
            auto = [GT.snake(r.sym) for r in a.refs if r.name is None and pg.has_content(r.sym)]
            if any(r.name in auto or r.name in ("_ctx", "ctx", "context") for r in a.refs if r.name):
                return True
    return False


def _self_recursive_optional_ref(pg, st):
    """X: <no-content symbols> X <no-content symbols> | EMPTY   (an optional alias of itself)"""
    for name, _, alts in pg.rules:
        if not any(not a.refs for a in alts):
            continue
        rest = [a for a in alts if a.refs]
        if len(rest) == 1:
            rc = [r for r in rest[0].refs if pg.has_content(r.sym)]
            if len(rc) == 1 and rc[0].sym == name and rc[0].op == "":
                return True
    return False


def _glr_default_nullable_tail(pg, st):
    if st.get("algo") != "GLR" or st.get("builder") != "default":
        return False
    nl = pg.nullable()
    for _, _, alts in pg.rules:
        for a in alts:
            if len(a.refs) >= 2 and (a.refs[-1].sym in nl or a.refs[-1].op in ("*", "?")):
                return True
    return False


KNOWN_CLASSES = {
    "rustc-E0428-parser-enum-ProdKind": _dup_kind,
    "rustc-E0428-actions-fn": _dedup_collision,
    "rustc-E0428-actions-struct": _kind_is_rule_name,
    "rustc-E0428-actions-type": _kind_is_rule_name,
    "rustc-E0415-actions-fn": _field_name_collision,
    "rustc-E0391-actions-type": lambda pg, st: _self_recursive_optional_ref(pg, st) or _terms_named(pg, {"String"}),
    "rustc-E0308-parser-impl-LRBuilder-DefaultBuilder.reduce_action": _glr_default_nullable_tail,
    "rustc-E0255-actions-type": lambda pg, st: st.get("loc") and _rules_named(pg, {"C", "ValSpan", "Context", "TokenKind"}),
    "rustc-E0255-actions-struct": lambda pg, st: _rules_named(pg, {"Context", "TokenKind"}),
    "rustc-E0106-parser-enum-NonTerminal": lambda pg, st: _rules_named(pg, {"Ctx", "Token"}),
    "rustc-E0106-parser-enum-Terminal": lambda pg, st: _terms_named(pg, {"Ctx", "Token"}),
    "rustc-E0277-parser-enum-NonTerminal": lambda pg, st: _rules_named(pg, {"Input"}),
    "rustc-E0277-parser-enum-Terminal": lambda pg, st: _terms_named(pg, {"Input"}),
    "rustc-E0072-actions-struct": lambda pg, st: _rules_named(pg, {"String"}),
    "rustc-E0107-actions-type": lambda pg, st: _rules_named(pg, {"Option", "Vec"}),
    "rustc-syntax-actions-struct": lambda pg, st: _assign_named(pg, {"dyn", "async"}),
}


def classify_known(key, grammar, settings):
    cls = KNOWN_CLASSES.get(key)
    if cls is None:
        return key
    try:
        inside = bool(cls(GT.PGrammar(grammar), settings))
    except Exception:
        inside = False
    return key if inside else key + "-outside-known-class"


# --------------------------------------------------------------------- Model/Names.v  vs  the generated enums
def choice_names(d):
    """per ordinary nonterminal: [(choice name before de-duplication, production is EMPTY)], following
    grammar/types/mod.rs:38-49,62-170 (choice_name and the rhs_with_content case analysis)"""
    special = {d.empty, d.aug} | ({d.augl} if d.augl >= 0 else set())

    def has_content(sym):
        if sym == d.empty:
            return False
        return sym >= d.nterm or d.terms[sym]["has_content"]

    def symname(sym):
        return d.terms[sym]["name"] if sym < d.nterm else d.nonterms[sym - d.nterm]["name"]
    out = {}
    for nt in d.nonterms:
        if nt["idx"] + d.nterm in special:
            continue
        cs = []
        for pi in nt["prods"]:
            p = d.prods[pi]
            rc = [(sym, nm) for sym, (nm, _) in zip(p["rhs"], p["assign"]) if has_content(sym)]
            if p["kind"]:
                n = p["kind"]
            elif not rc and len(p["rhs"]) == 1:
                n = symname(p["rhs"][0])
            elif len(rc) == 1 and rc[0][1] is None:
                n = symname(rc[0][0])
            elif not p["rhs"]:
                n = "Empty"
            else:
                n = "C%d" % (p["ntidx"] + 1)
            cs.append((n, not p["rhs"]))
        out[nt["name"]] = cs
    return out


def enum_variants(actions_text):
    """`pub enum X { A(..), B, .. }` of a generated actions file -> {X: [variant names]}"""
    res = {}
    for m in re.finditer(r"pub enum (\w+) \{(.*?)\n\}", actions_text, re.S):
        vs = []
        for line in m.group(2).split("\n"):
            mm = re.match(r"\s+(\w+)\s*(?:\(.*\))?,?\s*$", line)
            if mm:
                vs.append(mm.group(1))
        res[m.group(1)] = vs
    return res


def gl_str(x):
    return '"%s"%%string' % x


def names_jobs(todo):
    """todo: [(tag, cs names)] -> one Coq file; per entry: prefix_clash_b and make_unique for every iteration
    order of the distinct names (at most 24 orders)."""
    body = ["From RV Require Import Model.Names.\nOpen Scope nat_scope.\n"]
    layout = []
    for tag, cs in todo:
        distinct = sorted(set(cs))
        dups = [n for n in distinct if cs.count(n) > 1]
        rest = [n for n in distinct if cs.count(n) <= 1]
        orders = [list(p) + rest for p in itertools.permutations(dups)][:24]
        L = gl_list([gl_str(x) for x in cs])
        body.append("Eval vm_compute in (prefix_clash_b %s)." % L)
        for o in orders:
            body.append("Eval vm_compute in (make_unique %s %s)." % (gl_list([gl_str(x) for x in o]), L))
        layout.append((tag, len(orders)))
    return "\n".join(body) + "\n", layout


def parse_names_out(out, layout):
    answers, cur = [], None
    for line in out.split("\n"):
        if line.lstrip().startswith("= "):
            if cur is not None:
                answers.append(cur)
            cur = line
        elif cur is not None:
            cur += " " + line
    if cur is not None:
        answers.append(cur)
    res, i = {}, 0
    for tag, n in layout:
        clash = "true" in answers[i].split(":")[0]
        lists = [re.findall(r'"([^"]*)"', a.split(" : ")[0]) for a in answers[i + 1:i + 1 + n]]
        res[tag] = (clash, lists)
        i += 1 + n
    return res


def make_items(tier, seed):
    rng = random.Random(seed * 7919 + 11)
    grammars = []   # (shape, text, features, group)
    for shape, text, _ in AG.handwritten():
        grammars.append((shape, text, [shape], "main"))
    for g in AG.feature_cover(rng, 1 if tier == "quick" else 3):
        grammars.append((g.shape, g.text(), g.features, "main"))
    nrand = 10 if tier == "quick" else 150
    for _ in range(nrand):
        g = AG.random_ag(rng)
        grammars.append((g.shape, g.text(), g.features, "main"))
    odd = AG.odd_name_grammars()
    seen, uniq = set(), []
    for x in grammars:
        if x[1] not in seen:
            seen.add(x[1])
            uniq.append(x)
    grammars = uniq
    per_grammar = 3 if tier == "quick" else 8
    order = list(ALL_CONFIGS)
    rng.shuffle(order)
    items, k = [], 0
    ci = 0
    nhand = len(AG.handwritten())
    forced = [dict(algo="GLR", builder="default", layout="functions", loc=0, fancy=0, lexer="default"),
              dict(algo="LR", builder="default", layout="arrays", loc=1, fancy=0, lexer="default")]
    for gi, (shape, text, feats, group) in enumerate(grammars):
        cfgs = []
        if gi < nhand:
            cfgs = list(forced)
        while len(cfgs) < per_grammar:
            cfgs.append(order[ci % len(order)])
            ci += 1
        for c in cfgs:
            it = B.Item("p%d" % k, text, cfg_settings(c), meta=dict(shape=shape, features=feats, group=group, cfg=c,
                                                                   gi=gi))
            items.append(it)
            k += 1
    for oi, (shape, text, _) in enumerate(odd):
        cfgs = [dict(algo="LR", builder="default", layout="functions", loc=0, fancy=0, lexer="default")]
        if True:
            cfgs.append(dict(algo="GLR", builder="default", layout="arrays", loc=1, fancy=0, lexer="default"))
        for c in cfgs:
            it = B.Item("p%d" % k, text, cfg_settings(c), meta=dict(shape=shape, features=[shape.split(":")[0]],
                                                                   group="odd%d" % (oi % 8), cfg=c,
                                                                   gi=len(grammars) + oi))
            items.append(it)
            k += 1
    return items, len(grammars), len(odd)


def bisect(items, main_rs, tag, depth=0):
    """fall-back when rustc errors cannot be attributed through file paths: build halves"""
    if len(items) <= 1 or depth > 8:
        return items
    mid = len(items) // 2
    bad = []
    for half, t in ((items[:mid], "a"), (items[mid:], "b")):
        clones = [B.Item(it.name, it.grammar, it.settings, meta=dict(it.meta, group="")) for it in half]
        bt = B.Batch(tag + t, clones, main_rs, per_member=len(clones), check_only=True)
        bt.prepare()
        ok = bt.build(max_rounds=1)
        bt.cleanup()
        if not ok:
            bad.extend(bisect(half, main_rs, tag + t, depth + 1))
    return bad


def run(rep, tier, seed):
    main_rs = open(os.path.join(HERE, "c11_main.rs")).read()
    items, n_main, n_odd = make_items(tier, seed)
    bt = B.Batch("c11", items, main_rs, per_member=12 if tier == "quick" else 40, check_only=True)
    bt.prepare()
    ok = bt.build(max_rounds=6)
    rep.notes.append("batch timings: %s (members=%d, items=%d)" % (bt.timings, len(bt.members), len(items)))
    accepted = rejected = gen_panics = 0
    reject_classes, cfg_seen, feat_seen, dim_counts = {}, {}, {}, {}
    panic_shapes = {}
    checked_ok = 0
    findings = {}
    samples = []
    for it in items:
        c = it.meta["cfg"]
        if it.gen_status in ("ERR", "PANIC", "MISSING"):
            rejected += 1
            cls = re.sub(r"[^A-Za-z ]+", " ", it.gen_msg.split("\n")[0])[:50].strip()
            if it.gen_status == "PANIC":
                gen_panics += 1
                cls = "PANIC " + re.sub(r"^.*/(registry/src/[^/]+/)?", "", it.gen_loc)
                panic_shapes.setdefault(it.meta["shape"], it.gen_msg[:120])
            reject_classes[cls] = reject_classes.get(cls, 0) + 1
            continue
        accepted += 1
        base = dict(grammar=it.grammar, settings=it.settings, config=cfg_tag(c), shape=it.meta["shape"])
        if it.gen_status in ("SYNTAX", "SHAPE"):
            key = "generated-file-" + it.gen_status.lower()
            findings.setdefault(key, []).append(dict(base, what=it.gen_msg))
            continue
        if it.rustc_errors:
            key, site = error_key(bt, it)
            key = classify_known(key, it.grammar, it.settings)
            code, msg, fname, line, rendered = canonical_error(it)
            findings.setdefault(key, []).append(dict(base, rustc_code=code, rustc_message=msg, site=site,
                                                     file=fname, line=line, rendered=rendered,
                                                     n_errors=len(it.rustc_errors)))
            continue
        checked_ok += 1
        cfg_seen[cfg_tag(c)] = cfg_seen.get(cfg_tag(c), 0) + 1
        for d, v in c.items():
            dim_counts["%s=%s" % (d, v)] = dim_counts.get("%s=%s" % (d, v), 0) + 1
        for f in it.meta["features"]:
            feat_seen[f] = feat_seen.get(f, 0) + 1
        if len(samples) < 5 and it.meta["shape"] not in [s["shape"] for s in samples]:
            samples.append(dict(shape=it.meta["shape"], config=cfg_tag(c), grammar=it.grammar[:600],
                                outcome="generated parser%s type-checks" % (
                                    " + actions" if c["builder"] == "default" else "")))
    if not ok and (bt.unattributed or bt.failed_members):
        # fall-back: bisect the members that still fail
        culprits = []
        for pkg, mdir, chunk in bt.members:
            if pkg in bt.failed_members:
                culprits.extend(bisect([it for it in chunk if it.gen_status == "OK" and not it.excluded], main_rs, "c11x"))
        for it in culprits:
            e = bt.unattributed[0] if bt.unattributed else ("", "?", "?", "")
            findings.setdefault("rustc-%s-unattributed" % e[1], []).append(
                dict(grammar=it.grammar, settings=it.settings, config=cfg_tag(it.meta["cfg"]), shape=it.meta["shape"],
                     rustc_message=e[2], rendered=e[3]))
        if not culprits:
            rep.violation("batch-build-failed", "the batch crate does not build and the failure cannot be attributed",
                          dict(log=bt.build_log[-3000:], unattributed=bt.unattributed[:3]), found_input=False)
    for key, lst in sorted(findings.items()):
        w = min(lst, key=lambda x: (x["shape"].startswith("odd-"), len(x["grammar"])))
        rep.violation(key, "rustc rejects code generated for an accepted grammar: %s (at %s)" % (
            w.get("rustc_message", w.get("what", "")), w.get("site", "?")),
            dict(w, occurrences=len(lst), other_shapes=sorted(set(x["shape"] for x in lst))[:12]), found_input=True)
    # correspondence of Model/Names.v: variants of the generated enums = make_unique of the choice names
    todo, real, seen_cs = [], {}, set()
    for it in items:
        if it.gen_status != "OK" or it.settings["builder"] != "default" or not it.dump_text:
            continue
        dl = it.dump_text.split("\n")
        path = B.generated_source(bt, it, "actions")
        if dl[0] != "OK" or not path:
            continue
        d = parse_dump(dl[1:])
        enums = enum_variants(open(path, errors="replace").read())
        for nt, cs in choice_names(d).items():
            cand = [e for e in enums if e == nt or e.lower() == (nt + "NoO").lower().replace("_", "")]
            if len(cand) != 1:
                continue   # not an Enum-kind type (struct / ref / vec)
            key = (it.grammar, nt)
            if key in seen_cs:
                continue
            seen_cs.add(key)
            tag = "%s/%s" % (it.name, nt)
            todo.append((tag, [n for n, _ in cs]))
            real[tag] = (enums[cand[0]], [e for _, e in cs], it)
    n_names = n_names_dups = n_names_clash = 0
    if todo:
        body, layout = names_jobs(todo)
        okc, out = coq_eval("c11_names", body)
        if not okc:
            rep.violation("coq-eval", "Coq evaluation of Model/Names.v failed", dict(log=out[-1500:]), found_input=False)
        else:
            for tag, (clash, lists) in parse_names_out(out, layout).items():
                variants, empties, it = real[tag]
                cands = [[n for n, e in zip(l, empties) if not e] for l in lists]
                n_names += 1
                n_names_dups += int(len(set(dict(todo)[tag])) < len(dict(todo)[tag]))
                n_names_clash += int(clash)
                if variants not in cands:
                    rep.violation("corr-names", "the variants of a generated AST enum differ from make_unique "
                                  "(Model/Names.v) for every HashMap iteration order",
                                  dict(grammar=it.grammar, settings=it.settings, rule=tag.split("/")[1],
                                       generated=variants, model=cands[:4], names=dict(todo)[tag]), found_input=False)
                if len(set(variants)) < len(variants) and not clash:
                    rep.violation("names-known-class", "duplicate variant names outside KnownClass "
                                  "(contradicts choice_names_unique_known)",
                                  dict(grammar=it.grammar, rule=tag.split("/")[1], generated=variants), found_input=False)
    bt.cleanup()
    n_viol_items = sum(len(v) for v in findings.values())
    pt = rep.theorems or {}
    rep.coverage = dict(
        explanation="rustc acceptance of generated code cannot be stated in Coq; the logic of choice-name "
                    "de-duplication is modelled and proved/refuted (Properties/C11.v); everything else is measured on "
                    "the real generator + rustc over generated grammars and configurations (exploration, not proof)",
        obligations=len(pt.get("theorems", [])), discharged=pt.get("closed", 0), theorems=pt.get("theorems", []),
        checker_cmd="make -C coq Properties/C11.vo ; cargo check --offline (scratch workspace .cache/batch/c11; "
                    "generator run from build.rs)",
        trusted_base=TRUSTED_BASE[:2] + ["rustc/cargo 'check' as the judge of validity",
                                        "gen/batch.py build.rs + gen/c11_main.rs (trivial user lexer/builder)"],
        crates=len(bt.members), programs=checked_ok + n_viol_items, evaluations=accepted,
        distinct_nontrivial=len(cfg_seen),
        configurations_total=len(ALL_CONFIGS), configurations_type_checked=len(cfg_seen),
        items=len(items), grammars_main=n_main, grammars_odd_names=n_odd,
        accepted=accepted, rejected_by_generator=rejected, generator_panics=gen_panics,
        reject_classes=reject_classes, generator_panic_shapes=panic_shapes, type_checked_ok=checked_ok,
        names_correspondence=dict(enums_compared=n_names, with_duplicate_choice_names=n_names_dups,
                                  in_known_class=n_names_clash), rejected_by_rustc=n_viol_items,
        finding_keys={k: len(v) for k, v in findings.items()},
        per_dimension=dim_counts, features=feat_seen, timings=bt.timings,
        rule="grammars: hand-written AST shapes + one grammar per feature + random compositions of features "
             "(enum/struct/ref/optional/vec shapes, recursion needing Box, named and ?= assignments, * + ? sugar with "
             "separators, @vec both directions, kinds, unreachable rules) + small grammars with one keyword-like / "
             "colliding name each; configurations: every one of the 96 combinations is assigned round-robin; in scope "
             "iff the real generator returns Ok; non-trivial = distinct configurations that type-checked",
        samples=samples)
    rep.assumptions = ["`cargo check` (full type and borrow checking, no codegen) is taken as 'valid Rust that "
                       "type-checks'; Custom lexer restricted to input type str"]


def replay(rep, path):
    import json
    p = json.load(open(path))
    main_rs = open(os.path.join(HERE, "c11_main.rs")).read()
    it = B.Item("r0", p["grammar"], p["settings"], meta=dict(cfg={}, shape="replay"))
    bt = B.Batch("c11replay", [it], main_rs, per_member=1, check_only=True)
    bt.prepare()
    ok = bt.build(max_rounds=2)
    print("generator:", it.gen_status, it.gen_msg[:300])
    if it.rustc_errors:
        key, site = error_key(bt, it)
        print("rustc    : REJECTED key=%s" % key)
        print(canonical_error(it)[4])
    elif it.gen_status == "OK":
        print("rustc    : accepted" if ok else "rustc    : build failed\n" + bt.build_log[-2000:])
    bt.cleanup()
    rep.coverage = dict(explanation="replay", crates=1, programs=1, checker_cmd="replay", trusted_base=[])
