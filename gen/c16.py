"""C16 — the compiler is total: any grammar text gives a parser or a diagnostic, never a panic.

(T) Properties/C16.v: builder_no_panic_refuted (the one panic left in the front end: int_const),
    builder_no_panic_known (no other panic exists in the builder model), known_class_panic_site,
    builder_total (no out-of-fuel outcome); former witnesses are regression Examples.  The model is tied to the code by C09's correspondence
    (gen/c09.py) and by the witnesses replayed here.
(E) exploration of the REAL compiler (hook `verif::dump` = RustemoParser + GrammarBuilder + LRTable::new
    under catch_unwind, and the real `rcomp` binary): a stream of valid, odd and malformed grammar texts
    x {LR, GLR} x {LALR, LALR_PAGER, LALR_RN} x prefer_shifts x prefer_shifts_over_empty.
    Every outcome must be OK or ERROR (a diagnostic).  PANIC / TIMEOUT / CRASH is a violation with the
    canonical key

        panic@<file>::<fn>:<message>   source file and enclosing function of the panic location the real rcomp prints for
                                       the same text + normalised panic message; stable under line shifts (the exact
                                       file:line is recorded with the witness), or
        panic-msg:<stage>:<message>    normalised message alone when rcomp does not reproduce the panic
        timeout:<stage> / crash:<stage>

    Each key is reported once with a witness shrunk by deleting tokens while the key persists."""
import glob
import json
import os
import random
import re
import shutil
import subprocess
import tempfile
import time
from concurrent.futures import ThreadPoolExecutor

from rvlib import *  # noqa
from common import TRUSTED_BASE

LEVEL = "proof"

# one target directory per source tree (mutation self-tests point RV_REPO at a scratch copy)
RCOMP_TARGET = os.path.join(CACHE, "target-repo" if REPO == "/repo" else
                            "target-rcomp-" + re.sub(r"[^A-Za-z0-9]+", "_", REPO).strip("_"))
RCOMP = os.path.join(RCOMP_TARGET, "debug", "rcomp")

ALGOS = ("LR", "GLR")
TABLES = ("LALR", "LALR_PAGER", "LALR_RN")

# --------------------------------------------------------------------------- texts
CONSTRUCTS = [
    # every construct of rustemo.rustemo, valid as far as the documentation goes
    ("plain", "S: A B | B; terminals A: 'a'; B: 'b';"),
    ("empty", "S: A Bo; Bo: B | EMPTY; terminals A: 'a'; B: 'b';"),
    ("import", "import 'x.rustemo' as x import \"y.rustemo\" S: A; terminals A: 'a';"),
    ("annot", "@vec S: S A | A; @rest Q: A; terminals @tok A: 'a';"),
    ("rulemeta", "S {left, 5, nops, nopse, dynamic, x: 1, y: 1.5, z: true, w: 'str', Kind}: A {right} | A A {reduce} "
                 "| A A A {shift, 7, K2}; terminals A: 'a';"),
    ("termmeta", "S: A B C D; terminals A: 'a' {prefer, finish, 12}; B: 'b' {nofinish, left}; "
                 "C: /c+/ {reduce, dynamic, right, shift, k: 3}; D: {prefer};"),
    ("norec", "S: A B; terminals A: ; B: 'b';"),
    ("assign", "S: a=A b?=B c=A* d=B+ e=A? f?=B*; terminals A: 'a'; B: 'b';"),
    ("inline", "S: 'a' \"b\" 'a'+ \"b\"*['a'] ; terminals A: 'a'; B: 'b';"),
    ("sugar", "S: A? B* C+ A+[Comma] B*[Comma] C?[Comma]; terminals A: 'a'; B: 'b'; C: 'c'; Comma: ',';"),
    ("greedy", "S: A*! B+! C?!; terminals A: 'a'; B: 'b'; C: 'c';"),
    ("group", "S: A (B C | C)* (A)+[Comma] x=(A | B) (A B); terminals A: 'a'; B: 'b'; C: 'c'; Comma: ',';"),
    ("twomods", "S: A+[Comma, B]; terminals A: 'a'; B: 'b'; Comma: ',';"),
    ("layout", "S: A+; Layout: LayoutItem*; LayoutItem: WS | Comment; Comment: '/*' Corncs '*/' | CommentLine; "
               "Corncs: Cornc*; Cornc: Comment | NotComment | WS; terminals A: 'a'; WS: /\\s+/; "
               "OC: '/*'; CC: '*/'; CommentLine: /\\/\\/.*/; NotComment: /((\\*[^\\/])|[^\\s*\\/]|\\/[^\\*])+/;"),
    ("comments", "// line\nS: A /* block /* nested */ */ B; // tail\nterminals A: 'a'; /* x */ B: 'b';"),
    ("strings", "S: A B C; terminals A: 'it\\'s'; B: \"q\\\"q\"; C: '\\\\ \\n \\t';"),
    ("regex", "S: A B; terminals A: /\\d+(\\.\\d+)?/; B: /a\\/b/;"),
    ("samename", "S: A; S: B; S: A B; terminals A: 'a'; B: 'b';"),
    ("unreach", "S: A; U: B U | B; terminals A: 'a'; B: 'b';"),
    ("expr", "E: E '+' E {left, 1} | E '*' E {left, 2} | E '^' E {right, 3} | '(' E ')' | N; "
             "terminals N: /\\d+/; P: '+'; M: '*'; W: '^'; O: '('; C: ')';"),
    ("prios", "S: A {1} | B {99} | C {100} | A B {4294967295}; terminals A: 'a' {0}; B: 'b' {99}; C: 'c';"),
    ("floats", "S {a: 1., b: +1.5, c: -0.5e3, d: 1.e5}: A; terminals A: 'a';"),
    ("bools", "S {a: true, b: false}: A {t: true}; terminals A: 'a' {f: false};"),
]

ODD = [
    # (tag, text): odd or malformed texts named in the property / design
    ("empty-file", ""),
    ("blank", "  \n\t "),
    ("comment-only", "// nothing\n"),
    ("terminals-only", "terminals A: 'a';"),
    ("terminals-kw-only", "terminals"),
    ("int-overflow-term", "S: A; terminals A: 'a' {4294967296};"),
    ("int-overflow-prod", "S: A {4294967296}; terminals A: 'a';"),
    ("int-overflow-rule", "S {99999999999999999999999999}: A; terminals A: 'a';"),
    ("int-overflow-user", "S: A {k: 4294967296}; terminals A: 'a';"),
    ("int-max", "S: A {4294967295}; terminals A: 'a';"),
    ("huge-float", "S: A {k: 9" + "9" * 60 + ".0e999}; terminals A: 'a';"),
    ("float-forms", "S: A {k: 1., l: -1.e5, m: +0.0}; terminals A: 'a';"),
    ("term-prio-100", "S: A; terminals A: 'a' {100};"),
    ("term-prio-str", "S: A; terminals A: 'a' {priority: 'x'};"),
    ("user-kind-int", "S: A {kind: 5}; terminals A: 'a';"),
    ("user-priority", "S: A {priority: 'x'}; terminals A: 'a';"),
    ("user-left-false", "S: A {left: false}; terminals A: 'a';"),
    ("greedy-star", "S: A*!; terminals A: 'a';"),
    ("greedy-plus", "S: A+!; terminals A: 'a';"),
    ("greedy-opt", "S: A?!; terminals A: 'a';"),
    ("group", "S: (A A); terminals A: 'a';"),
    ("group-rep", "S: (A A)+; terminals A: 'a';"),
    ("group-named", "S: x=(A); terminals A: 'a';"),
    ("two-modifiers", "S: A+[B, C]; terminals A: 'a'; B: 'b'; C: 'c';"),
    ("opt-modifier", "S: A?[B]; terminals A: 'a'; B: 'b';"),
    ("explicit-stop", "S: A STOP; terminals A: 'a';"),
    ("explicit-stop-mid", "S: A STOP A; terminals A: 'a';"),
    ("stop-only", "S: STOP;"),
    ("stop-terminal", "S: A; terminals A: 'a'; STOP: 'b';"),
    ("empty-rule-name", "EMPTY: A; terminals A: 'a';"),
    ("empty-terminal", "S: A EMPTY; terminals A: 'a'; EMPTY: 'e';"),
    ("only-empty", "S: EMPTY;"),
    ("aug-rule", "S: A; AUG: A; terminals A: 'a';"),
    ("aug-ref", "S: A AUG; terminals A: 'a';"),
    ("augl-rule", "S: A; AUGL: A; terminals A: 'a';"),
    ("augl-rule-layout", "S: A; Layout: B; AUGL: A; terminals A: 'a'; B: 'b';"),
    ("layout-first", "Layout: A; terminals A: 'a';"),
    ("layout-case", "S: A; LAYOUT: B*; terminals A: 'a'; B: 'b';"),
    ("layout-two", "S: A; Layout: B; layout: B B; terminals A: 'a'; B: 'b';"),
    ("layout-terminal", "S: A; terminals A: 'a'; Layout: /\\s+/;"),
    ("layout-empty", "S: A; Layout: EMPTY; terminals A: 'a';"),
    ("layout-self", "S: A; Layout: Layout A | A; terminals A: 'a';"),
    ("kw-names", "S: terminals_ import_ ; terminals terminals_: 't'; import_: 'i';"),
    ("kw-rule-terminals", "terminals: A; terminals A: 'a';"),
    ("kw-rule-left", "left: A; terminals A: 'a';"),
    ("kw-rule-true", "S: true; terminals true: 'a';"),
    ("rust-kw-fn", "fn: A; terminals A: 'a';"),
    ("rust-kw-term", "S: type; terminals type: 'a';"),
    ("rust-kw-self", "S: self; terminals self: 'a';"),
    ("rust-kw-assign", "S: match=A; terminals A: 'a';"),
    ("underscore", "S: _; terminals _: 'a';"),
    ("dotted", "S: a.b; terminals a.b: 'a';"),
    ("dup-term-name", "S: A; terminals A: 'a'; A: 'b';"),
    ("dup-term-name-5", "S: A; terminals A: 'a'; A: 'b'; A: 'c'; A: 'd'; A: 'e';"),
    ("dup-term-name-b", "S: A B; terminals A: 'a'; B: 'b'; A: 'c'; B: 'd'; A: 'e';"),
    ("dup-recognizer", "S: 'a'; terminals A: 'a'; B: 'a';"),
    ("dup-recognizer-rev", "S: 'a' A B; terminals B: 'a'; A: 'a';"),
    ("undefined-symbol", "S: A B; terminals A: 'a';"),
    ("undefined-inline", "S: 'x'; terminals A: 'a';"),
    ("undefined-inline-sugar", "S: 'x'+; terminals A: 'a';"),
    ("undefined-sep", "S: A+[Comma]; terminals A: 'a';"),
    ("no-terminals", "S: A;"),
    ("self-rec", "S: S;"),
    ("self-rec-2", "S: A; A: A;"),
    ("unproductive", "S: A; A: B; B: A;"),
    ("unproductive-2", "S: 'a' S; terminals A: 'a';"),
    ("unproductive-3", "S: A | B; A: A 'a'; B: 'a'; terminals T: 'a';"),
    ("left-rec-empty", "S: S | EMPTY;"),
    ("helper-clash-self", "A1: A+ B; terminals A: 'a'; B: 'b';"),
    ("helper-clash-before", "A1: B; S: A+ A1; terminals A: 'a'; B: 'b';"),
    ("helper-clash-after", "S: A+ A1; A1: B; terminals A: 'a'; B: 'b';"),
    ("helper-clash-term", "S: A+; terminals A: 'a'; A1: 'b';"),
    ("helper-clash-opt", "AOpt: A? B; terminals A: 'a'; B: 'b';"),
    ("helper-clash-zero", "A0: A* B; terminals A: 'a'; B: 'b';"),
    ("helper-clash-zero1", "A1: A* B; terminals A: 'a'; B: 'b';"),
    ("sugar-on-nonterm", "S: X+ X* X?; X: A | B; terminals A: 'a'; B: 'b';"),
    ("sugar-on-self", "S: S+ | A; terminals A: 'a';"),
    ("sugar-on-empty", "S: EMPTY+ A; terminals A: 'a';"),
    ("sugar-on-stop", "S: A STOP*; terminals A: 'a';"),
    ("sugar-sep-shared", "S: A+[Comma] X A+; terminals A: 'a'; Comma: ','; X: 'x';"),
    ("rule-term-same", "A: 'a'; terminals A: 'a';"),
    ("rule-term-same-2", "S: A; A: B; terminals A: 'a'; B: 'b';"),
    ("f5-three-way", "S: E; E: E '+' E | X | Y; X: 'a' '+'?; Y: 'a' {15}; terminals A: 'a'; P: '+';"),
    ("f5-variant", "S: E; E: E P E | X | Y; X: A P | A; Y: A {15}; terminals A: 'a'; P: '+';"),
    ("rr-prio", "S: X | Y | Z; X: A {3}; Y: A {2}; Z: A {3}; terminals A: 'a';"),
    ("rr-empty", "S: X Y A; X: EMPTY {5}; Y: EMPTY {7}; terminals A: 'a';"),
    ("sr-assoc", "E: E P E {left} | E P E {right} | A; terminals A: 'a'; P: '+';"),
    ("sr-term-assoc", "E: E P E | A; terminals A: 'a'; P: '+' {left, 5};"),
    ("many-alts", "S: " + " | ".join("A " * k for k in range(1, 30)) + "; terminals A: 'a';"),
    ("long-rhs", "S: " + "A " * 300 + "; terminals A: 'a';"),
    ("deep-sugar", "S: " + " ".join("T%d+ T%d* T%d?" % (i, i, i) for i in range(12)) + "; terminals " +
     " ".join("T%d: 't%d';" % (i, i) for i in range(12))),
    ("unbalanced-brace", "S: A {left; terminals A: 'a';"),
    ("unbalanced-bracket", "S: A+[B; terminals A: 'a'; B: 'b';"),
    ("unbalanced-paren", "S: (A; terminals A: 'a';"),
    ("unterminated-str", "S: A; terminals A: 'a;"),
    ("unterminated-regex", "S: A; terminals A: /a;"),
    ("unterminated-comment", "S: A; /* terminals A: 'a';"),
    ("empty-str", "S: A; terminals A: '';"),
    ("empty-regex", "S: A; terminals A: //;"),
    ("bad-regex", "S: A; terminals A: /(/;"),
    ("stray", "S: A # B; terminals A: 'a';"),
    ("unicode-name", "S: Ä; terminals Ä: 'a';"),
    ("unicode-str", "S: A 'é中\U0001F600'; terminals A: 'a'; B: 'é中\U0001F600';"),
    ("unicode-stray", "S: A   B; terminals A: 'a'; B: 'b';"),
    ("nul", "S: A\x00; terminals A: 'a';"),
    ("bom", "﻿S: A; terminals A: 'a';"),
    ("crlf", "S: A;\r\nterminals\r\nA: 'a';\r\n"),
    ("missing-semicolon", "S: A terminals A: 'a';"),
    ("missing-colon", "S A; terminals A: 'a';"),
    ("double-bar", "S: A || A; terminals A: 'a';"),
    ("trailing-bar", "S: A |; terminals A: 'a';"),
    ("leading-bar", "S: | A; terminals A: 'a';"),
    ("empty-alt", "S: ; terminals A: 'a';"),
    ("empty-meta", "S: A {}; terminals A: 'a';"),
    ("meta-trailing-comma", "S: A {left,}; terminals A: 'a';"),
    ("annotation-only", "@x"),
    ("annotation-bad", "@ S: A; terminals A: 'a';"),
    ("two-terminals-sections", "S: A; terminals A: 'a'; terminals B: 'b';"),
    ("rule-after-terminals", "S: A; terminals A: 'a'; Q: A;"),
    ("assign-kw", "S: left=A; terminals A: 'a';"),
    ("assign-dup", "S: a=A a=A; terminals A: 'a';"),
    ("kind-dup", "S: A {X} | A A {X}; terminals A: 'a';"),
    ("kind-kw", "S: A {fn}; terminals A: 'a';"),
    ("kind-two", "S: A {X, Y}; terminals A: 'a';"),
    ("meta-both-assoc", "S {left}: A {right} | A A; terminals A: 'a';"),
    ("import-only", "import 'x'"),
    ("import-bad", "import x S: A; terminals A: 'a';"),
]


# former witnesses of repaired findings: each must now yield this diagnostic (substring of the error message),
# under every configuration; anything else is the violation  regression:<tag>
REGRESSIONS = [
    ("terminals-only", "terminals A: 'a';", "must have at least one rule"),
    ("greedy-star", "S: A*!; terminals A: 'a';", "Greedy repetition operators"),
    ("greedy-plus", "S: A+!; terminals A: 'a';", "Greedy repetition operators"),
    ("greedy-opt", "S: A?!; terminals A: 'a';", "Greedy repetition operators"),
    ("group", "S: (A A); terminals A: 'a';", "Parenthesized groups are not implemented"),
    ("group-named", "S: x=(A); terminals A: 'a';", "Parenthesized groups are not implemented"),
    ("group-rep", "S: (A A)+; terminals A: 'a';", "Parenthesized groups are not implemented"),
    ("two-modifiers", "S: A+[B, C]; terminals A: 'a'; B: 'b'; C: 'c';", "Only a single separator modifier"),
    ("helper-clash-self", "AOpt: A?; terminals A: 'a';", "is needed for the rule generated for a repetition"),
    ("helper-clash-self-1", "A1: A+ B; terminals A: 'a'; B: 'b';", "is needed for the rule generated for a repetition"),
    ("helper-clash-zero1", "A1: A* B; terminals A: 'a'; B: 'b';", "is needed for the rule generated for a repetition"),
    ("helper-clash-rule", "S: A1 X A+; A1: Comma; terminals A: 'a'; Comma: ','; X: 'x';", "is needed for the rule generated"),
    ("helper-clash-term", "S: A+; terminals A: 'a'; A1: 'b';", "is needed for the rule generated for a repetition"),
    ("dup-term-name", "S: A; terminals A: 'a'; A: 'b';", "is defined more than once"),
    ("dup-term-name-5", "S: A; terminals A: 'a'; A: 'b'; A: 'c'; A: 'd'; A: 'e';", "is defined more than once"),
    ("stop-terminal", "S: A; terminals A: 'a'; STOP: 'b';", "is defined more than once"),
    ("aug-rule", "S: A; AUG: A; terminals A: 'a';", "is a reserved name"),
    ("augl-rule", "S: A; AUGL: A; terminals A: 'a';", "is a reserved name"),
    ("empty-rule-name", "S: A; EMPTY: A; terminals A: 'a';", "is a reserved name"),
    ("rule-term-same", "A: 'a'; S: A; terminals A: 'a';", "is defined both as a rule and as a terminal"),
    ("sep-shared", "S: A+[Comma] X A+; terminals A: 'a'; Comma: ','; X: 'x';", "are used with different separators"),
    ("sep-shared-star", "S: A* X A+[Comma]; terminals A: 'a'; Comma: ','; X: 'x';", "are used with different separators"),
    ("kind-keyword", "S: A {fn}; terminals A: 'a';", "as a valid Rust identifier"),
    ("aug-ref", "S: A AUG; terminals A: 'a';", "is a reserved name"),
    ("aug-ref-hang", "S: A | A AUG; terminals A: 'a';", "is a reserved name"),
    ("augl-ref", "S: A | AUGL A; Layout: B; terminals A: 'a'; B: 'b';", "is a reserved name"),
    ("aug-ref-prio", "S: A {1} | C  AUG {100} | A B ; terminals A: 'a' {0}; B: 'b' {99}; C: 'c';", "is a reserved name"),
    ("f5-three-way", "S: E; E: E '+' E | X | Y; X: 'a' '+'?; Y: 'a' {15}; terminals A: 'a'; P: '+';", None),
    ("f5-variant", "E: E P | X | Y; X: A P | A; Y: A {15}; terminals A: 'a'; P: '+';", None),
]


def repo_grammars():
    out = []
    for p in sorted(glob.glob(os.path.join(REPO, "**", "*.rustemo"), recursive=True)):
        if "/target/" in p:
            continue
        try:
            t = open(p, encoding="utf-8").read()
        except Exception:
            continue
        if len(t) <= 4000:
            out.append((os.path.relpath(p, REPO), t))
    return out


TOKEN_RE = re.compile(
    r"""//[^\n]*|/\*.*?\*/|'(?:[^'\\\n]|\\.)*'|"(?:[^"\\\n]|\\.)*"|/(?:\\.|[^/\\\n ])+/|@[a-zA-Z0-9_]+|"""
    r"""[a-zA-Z_][a-zA-Z0-9_\.]*|\d+\.\d*|\d+|\?=|\*!|\+!|\?!|[:;,{}()\[\]|*+?=]|\s+|.""", re.S)

POOL = [":", ";", ",", "{", "}", "(", ")", "[", "]", "|", "*", "*!", "+", "+!", "?", "?!", "=", "?=",
        "terminals", "import", "as", "left", "right", "reduce", "shift", "dynamic", "nops", "nopse",
        "prefer", "finish", "nofinish", "EMPTY", "STOP", "AUG", "AUGL", "Layout", "layout", "true", "false",
        "fn", "type", "self", "Self", "_", "S", "A", "B", "A1", "A0", "AOpt", "'a'", "\"b\"", "'zz'", "/a+/", "//",
        "/*", "*/", "@vec", "@", "0", "7", "99", "100", "4294967295", "4294967296", "1.5", "-1.", "x:", "'", "\"", "/",
        "#", "$", "\\", "é", "中", "\U0001F600", "\x00", "\t", "\n", "kind", "priority", "k: 1", "K"]


def tokenize(text):
    return [t for t in TOKEN_RE.findall(text)]


def join(toks):
    return "".join(toks)


def mutate(rng, text):
    toks = tokenize(text)
    sig = [i for i, t in enumerate(toks) if not t.isspace()]
    if not sig:
        return rng.choice(POOL)
    n = 1 if rng.random() < 0.7 else rng.randint(2, 4)
    for _ in range(n):
        sig = [i for i, t in enumerate(toks) if not t.isspace()]
        if not sig:
            break
        i = rng.choice(sig)
        op = rng.randrange(8)
        if op == 0:
            del toks[i]
        elif op == 1:
            toks.insert(i, toks[i])
        elif op == 2:
            j = rng.choice(sig)
            toks[i], toks[j] = toks[j], toks[i]
        elif op == 3:
            toks[i] = rng.choice(POOL)
        elif op == 4:
            toks.insert(i, " " + rng.choice(POOL) + " ")
        elif op == 5:
            toks.insert(i + 1, rng.choice(["*", "+", "?", "*!", "+!", "?!", "[A]", "[A, B]", "+[Comma]", "{5}", "{left}",
                                           "{4294967296}", "{99999999999}"]))
        elif op == 6:
            # cut the text at a token boundary (truncation)
            toks = toks[:i]
        else:
            # splice a token of another place
            j = rng.choice(sig)
            toks.insert(i, " " + toks[j] + " ")
    return join(toks)


def conflict_grammar(rng):
    """Ambiguous expression-like grammars with priorities / associativities on productions and terminals:
    the family of the three-way conflicts of DESIGN.md F5."""
    ops = rng.sample(["P", "M", "Q"], rng.randint(1, 3))
    alts = []

    def meta():
        m = []
        if rng.random() < 0.5:
            m.append(str(rng.choice([1, 5, 9, 10, 11, 15, 20])))
        if rng.random() < 0.4:
            m.append(rng.choice(["left", "right", "reduce", "shift"]))
        if rng.random() < 0.2:
            m.append(rng.choice(["nops", "nopse"]))
        return (" {" + ", ".join(m) + "}") if m else ""

    for o in ops:
        alts.append("E %s E%s" % (o, meta()))
    if rng.random() < 0.5:
        alts.append("%s E%s" % (rng.choice(ops), meta()))
    if rng.random() < 0.3:
        alts.append("E E" + meta())
    subs = []
    rules = []
    for k in range(rng.randint(1, 3)):
        nm = "XYZ"[k]
        subs.append(nm)
        body = rng.choice(["A", "A %s?" % rng.choice(ops), "A %s*" % rng.choice(ops), "A | A %s" % rng.choice(ops),
                           "A B?", "EMPTY | A", "A+", "A*"])
        rules.append("%s: %s%s;" % (nm, body, meta()))
        alts.append(nm + meta())
    if rng.random() < 0.5:
        alts.append("A" + meta())
    rng.shuffle(alts)
    terms = ["A: 'a'%s;" % meta().replace("nops", "prefer").replace("prefere", "finish"), "B: 'b';"]
    for o in ops:
        terms.append("%s: '%s'%s;" % (o, {"P": "+", "M": "*", "Q": "^"}[o],
                                      meta().replace("nops", "prefer").replace("prefere", "finish")))
    return "S: E;\nE: " + " | ".join(alts) + ";\n" + "\n".join(rules) + "\nterminals\n" + "\n".join(terms) + "\n"


def make_texts(tier, seed):
    rng = random.Random(seed * 7919 + 16)
    texts = []          # (origin, text)
    for tag, t in CONSTRUCTS:
        texts.append(("construct:" + tag, t))
    for tag, t in ODD:
        texts.append(("odd:" + tag, t))
    for tag, t, _ in REGRESSIONS:
        texts.append(("regression:" + tag, t))
    repo = repo_grammars()
    for name, t in repo:
        texts.append(("repo:" + name, t))
    # grammars that stress the type inference and action generation of the default builder (rcomp runs the whole
    # generator): the AST shapes of gen/astgrammars.py, and annotations on rules whose shape does not fit them
    import astgrammars as AG
    for shape, t, _ in AG.handwritten() + AG.odd_name_grammars():
        texts.append(("ast:" + shape, t))
    for g in AG.feature_cover(rng, 1):
        texts.append(("ast:" + g.shape, g.text()))
    for _ in range(10 if tier == "quick" else 150):
        g = AG.random_ag(rng)
        texts.append(("ast:" + g.shape, g.text()))
    tail = "\nterminals\nNum: /\\d+/;\nId: /[a-z]+/;\nNone: 'none';\nLP: '(';\nRP: ')';\n"
    bodies = ["A Num | Num", "Num A | Num", "A Num | Num | 'none'", "A Num | Num | '(' Num Id Num ')'", "A Num | EMPTY | Id",
              "A A | Num", "Num", "Num Id", "EMPTY", "A Num Id | Num", "A Num | Id", "A | Num", "Num A Id | EMPTY",
              "A Num | A Id | Num", "B", "B | EMPTY", "A B | B | 'none'", "x=A y=Num | z=Num", "Num+ | Id", "Num* Id?"]
    for ann in ("@vec", "@rest", "@tok", ""):
        for b in bodies:
            texts.append(("annshape", "S: '(' A ')';\n%s A: %s;\nB: Num Id;%s" % (ann, b, tail)))
    nmut, nconf = (1500, 250) if tier == "quick" else (12000, 2500)
    seeds = [t for _, t in CONSTRUCTS] + [t for tag, t in ODD if len(t) < 400] + [t for _, t in repo if len(t) < 1500]
    for k in range(nmut):
        base = rng.choice(seeds)
        texts.append(("mutant", mutate(rng, base)))
    for k in range(nconf):
        g = conflict_grammar(rng)
        if rng.random() < 0.2:
            g = mutate(rng, g)
        texts.append(("conflict", g))
    # dedupe, keep order
    seen, out = set(), []
    for o, t in texts:
        if t in seen or "\x00GRAMMAR" in t:
            continue
        seen.add(t)
        out.append((o, t))
    return out


# --------------------------------------------------------------------------- known-finding classes
RUST_KEYWORDS = set("as break const continue crate else enum extern false fn for if impl in let loop match mod move mut "
                    "pub ref return self static struct super trait true type unsafe use where while async await dyn "
                    "abstract become box do final macro override priv typeof unsized virtual yield try".split())


def _snake(n):
    return re.sub(r"(?<=[a-z0-9])([A-Z])", r"_\1", n).lower()


def _keyword_named_symbol(text):
    """a rule, or a terminal with content (regex / no recognizer), whose snake_case name is a Rust keyword"""
    head, _, tail = text.partition("terminals")
    for m in re.finditer(r"(?:^|;)\s*(?:@\w+\s+)?([A-Za-z_]\w*)\s*(?:\{[^}]*\})?\s*:", head):
        if _snake(m.group(1)) in RUST_KEYWORDS:
            return True
    for m in re.finditer(r"(?:^|;)\s*(?:@\w+\s+)?([A-Za-z_]\w*)\s*:\s*([^;]*)", tail):
        if _snake(m.group(1)) in RUST_KEYWORDS and not m.group(2).lstrip().startswith(("'", '"')):
            return True
    return False


def _explicit_stop(text):
    return re.search(r"\bSTOP\b", text.partition("terminals")[0]) is not None


# a recorded finding is identified by its key AND by the class of grammar texts it was recorded for; the same panic
# site on a text outside the class is reported (suffix -outside-known-class)
KNOWN_CLASSES = [
    ("panic@syn-", lambda t: _keyword_named_symbol(t)),
    ("panic@lang/rustemo_actions.rs::int_const", lambda t: re.search(r"\d{10,}", t) is not None),
    ("panic@table/mod.rs::calculate_reductions:assertion-failed-shifts-len", _explicit_stop),
    ("panic@table/mod.rs::get_conflicts:internal-error-entered-unreachable-code", _explicit_stop),
]
OUTSIDE = "-outside-known-class"


def classify_known(key, text):
    if key is None:
        return key
    for prefix, pred in KNOWN_CLASSES:
        if key.startswith(prefix):
            try:
                inside = bool(pred(text))
            except Exception:
                inside = False
            return key if inside else key + OUTSIDE
    return key


def base_key(key):
    return key[:-len(OUTSIDE)] if key.endswith(OUTSIDE) else key


# --------------------------------------------------------------------------- classification
def norm_msg(msg):
    m = msg.strip().split("\n")[0]
    m = re.sub(r"\d+", "N", m)
    m = re.sub(r"\"[^\"]*\"", "\"..\"", m)
    m = re.sub(r"'[^']*'", "'..'", m)
    return m[:80]


def slug(msg):
    return re.sub(r"[^A-Za-z0-9]+", "-", norm_msg(msg)).strip("-")[:60]


def outcome_of(r):
    """('OK'|'ERROR'|'PANIC'|'TIMEOUT'|'CRASH'|'MISSING', stage, message)"""
    st = r.status
    if st == "OK":
        if r.dump is None:
            return ("CRASH", "dump", getattr(r, "dump_error", "unparsable dump"))
        if r.dump.conflicts == "PANIC" and r.case.algo == "LR":
            # generator/mod.rs:104 calls get_conflicts only for the LR algorithm
            msg = ""
            for l in r.dump_lines:
                if l.startswith("CONFLICTS PANIC"):
                    msg = unhx(l.split(" ")[2]).decode(errors="replace")
            return ("PANIC", "conflicts", msg)
        return ("OK", "", "")
    if st in ("ERROR", "PANIC"):
        return (st, getattr(r, "stage", "?"), r.msg)
    if st in ("TIMEOUT", "CRASH"):
        return (st, "compile", "")
    return ("MISSING", "?", "")


def error_class(msg):
    m = msg
    for pat, c in (("must have at least one rule", "no-rules"), ("Parenthesized groups are not implemented", "groups-unimplemented"),
                   ("Only a single separator modifier", "modifiers-unimplemented"), ("Syntax error at <str>:[", "semantic"), ("Syntax error", "syntax"), ("First set empty", "first-set-empty"),
                   ("Error at", "lexical"), ("conflicts", "conflicts")):
        if pat in m:
            if c == "semantic":
                for p2, c2 in (("Unexisting symbol", "undefined-symbol"), ("Infinite recursion", "infinite-recursion"),
                               ("is not defined in the", "undefined-terminal"), ("valid Rust identifier", "invalid-identifier"),
                               ("Priority must be", "terminal-priority"), ("is defined more than once", "duplicate-terminal"),
                               ("is a reserved name", "reserved-rule-name"), ("both as a rule and as a terminal", "rule-and-terminal"),
                               ("is needed for the rule generated", "helper-name-clash"),
                               ("different separators", "separator-conflict"), ("Greedy repetition", "greedy-unimplemented")):
                    if p2 in m:
                        return c2
            return c
    return "other"


# --------------------------------------------------------------------------- rcomp
def build_rcomp():
    rc, out = sh(["cargo", "build", "--offline", "-p", "rustemo-compiler", "--bin", "rcomp"],
                 env={"CARGO_TARGET_DIR": RCOMP_TARGET}, cwd=REPO, timeout=3000)
    return rc == 0 and os.path.exists(RCOMP), out


def rcomp_flags(algo, table, ps, pse):
    f = ["-p", algo.lower(), "-t", table.lower().replace("_", "-")]
    if ps:
        f.append("--prefer-shifts")
    if not pse:
        f.append("--no-shifts-over-empty")
    return f


def run_rcomp(text, flags, timeout=20):
    """Runs the real rcomp on `text`. Returns dict(code, panic_loc, panic_msg, out, generated)."""
    os.makedirs(os.path.join(WORK, "c16rc"), exist_ok=True)
    d = tempfile.mkdtemp(dir=os.path.join(WORK, "c16rc"))
    gp = os.path.join(d, "g.rustemo")
    with open(gp, "w", encoding="utf-8", newline="") as f:
        f.write(text)
    env = dict(os.environ, RUST_BACKTRACE="0", NO_COLOR="1")
    try:
        p = subprocess.run([RCOMP] + flags + [gp], cwd=d, env=env, stdout=subprocess.PIPE, stderr=subprocess.STDOUT,
                           timeout=timeout)
        out = p.stdout.decode(errors="replace")
        code = p.returncode
    except subprocess.TimeoutExpired:
        out, code = "", "TIMEOUT"
    loc = msg = fn = None
    m = re.search(r"panicked at ([^\n]*?):(\d+):(\d+):\n([^\n]*)", out)
    if m:
        path = m.group(1)
        if "/registry/src/" in path:          # a dependency: <crate-version>/src/..
            path = path.split("/registry/src/")[1].split("/", 1)[1]
        loc = "%s:%s" % (path, m.group(2))
        msg = m.group(4)
        fn = enclosing_fn(loc)
    gen = os.path.exists(os.path.join(d, "g.rs"))
    shutil.rmtree(d, ignore_errors=True)
    key = ("panic@%s:%s" % (fn or loc, slug(msg or ""))) if loc else None
    return dict(code=code, panic_loc=loc, panic_fn=fn, panic_key=key, panic_msg=msg, out=out[-1500:], generated=gen)


_fn_cache = {}


def enclosing_fn(loc):
    """'<file>::<fn>' for a panic location 'path:line' inside /repo (the nearest `fn` above the line, so the key
    survives line shifts); the bare file for locations in dependencies."""
    if loc in _fn_cache:
        return _fn_cache[loc]
    path, line = loc.rsplit(":", 1)
    res = path
    full = os.path.join(REPO, path)
    if os.path.exists(full):
        short = path.split("/src/", 1)[-1]
        res = short
        try:
            lines = open(full, encoding="utf-8", errors="replace").read().split("\n")
            for k in range(min(int(line), len(lines)) - 1, -1, -1):
                m = re.match(r"\s*(?:pub(?:\([^)]*\))?\s+)?(?:const\s+|async\s+)?fn\s+(\w+)", lines[k])
                if m and (len(lines[k]) - len(lines[k].lstrip())) <= 4:
                    res = "%s::%s" % (short, m.group(1))
                    break
        except Exception:
            pass
    _fn_cache[loc] = res
    return res


def site_of(text, algo, table, ps, pse, stage, msg):
    """Panic location through the real binary: tries the exact configuration if it is expressible on the command
    line, then the LR algorithm with the same table flags. Returns the run_rcomp result (panic_key, panic_loc,
    panic_fn) or None."""
    if not os.path.exists(RCOMP):
        return None
    tries = []
    if algo == "LR" or (table == "LALR_RN" and not ps and not pse):
        tries.append(rcomp_flags(algo, table, ps, pse))
    tries.append(rcomp_flags("LR", table, ps, pse))
    tries.append(rcomp_flags("LR", table, ps, pse) + ["-l", "custom"])
    want = norm_msg(msg)
    for fl in tries:
        r = run_rcomp(text, fl)
        if r["panic_loc"] and norm_msg(r["panic_msg"] or "") == want:
            return r
    return None


# --------------------------------------------------------------------------- shrinking
def shrink_candidates(cur, cap=160):
    toks = tokenize(cur)
    cands = []
    lines = cur.split("\n")
    if len(lines) > 1:
        for i in range(len(lines)):
            cands.append("\n".join(lines[:i] + lines[i + 1:]))
    # delete rule-sized chunks (up to the next ';'), alternatives (up to the next '|'), then single tokens
    for sep in (";", "|"):
        i = 0
        while i < len(toks):
            j = i
            while j < len(toks) and toks[j] != sep and (sep == ";" or toks[j] != ";"):
                j += 1
            if j < len(toks) and toks[j] == sep:
                cands.append(join(toks[:i] + toks[j + 1:]))
            i = j + 1
    # meta-data blocks
    for m in re.finditer(r"\{[^{}]*\}", cur):
        cands.append(cur[:m.start()] + cur[m.end():])
    for i, t in enumerate(toks):
        if not t.isspace() and t[0] not in "'\"/":     # recognizers stay (else: "missing recognizer" class)
            cands.append(join(toks[:i] + toks[i + 1:]))
    return [c for c in dict.fromkeys(cands) if c != cur and len(c) < len(cur)][:cap]


def shrink_all(items, rounds=14):
    """items: list of dict(text, algo, table, flags, pred). Greedy deletion for all items at once: one harness
    batch per round. Returns the shrunk texts."""
    cur = [it["text"] for it in items]
    active = [True] * len(items)
    for rnd in range(rounds):
        cases, owner = [], []
        for k, it in enumerate(items):
            if not active[k] or rnd >= it.get("budget", rounds):
                active[k] = False
                continue
            cs = shrink_candidates(cur[k])
            if not cs:
                active[k] = False
            for c in cs:
                cases.append(Case("s%d_%d" % (k, len(cases)), c, run="NONE", algo=it["algo"], table=it["table"],
                                  flags=it["flags"]))
                owner.append(k)
        if not cases:
            break
        rs = run_cases(cases, "c16shrink", timeout_s=4)
        best = {}
        for r, k in zip(rs, owner):
            if items[k]["pred"](outcome_of(r)):
                if k not in best or len(r.case.grammar) < len(best[k]):
                    best[k] = r.case.grammar
        for k in range(len(items)):
            if active[k]:
                if k in best:
                    cur[k] = best[k]
                else:
                    active[k] = False
    return cur


def shrink_rcomp(text, flags, key, budget=8):
    """Token deletion through the real binary while the same key (panic location) persists."""
    cur = text
    for _ in range(budget):
        toks = tokenize(cur)
        cands = []
        i = 0
        while i < len(toks):
            j = i
            while j < len(toks) and toks[j] != ";":
                j += 1
            cands.append(join(toks[:i] + toks[j + 1:]))
            i = j + 1
        for i, t in enumerate(toks):
            if not t.isspace() and t[0] not in "'\"/":
                cands.append(join(toks[:i] + toks[i + 1:]))
        cands = [c for c in dict.fromkeys(cands) if c != cur and len(c) < len(cur)][:120]
        if not cands:
            break
        with ThreadPoolExecutor(max_workers=NCPU) as ex:
            outs = list(ex.map(lambda c: run_rcomp(c, flags), cands))
        good = [c for c, r in zip(cands, outs) if r["panic_loc"] and r["panic_key"] == key]
        if not good:
            break
        cur = min(good, key=len)
    return cur


# --------------------------------------------------------------------------- the check
def settings_matrix(tier, rng, origin):
    full = [(a, t, ps, pse) for a in ALGOS for t in TABLES for ps in (0, 1) for pse in (0, 1)]
    if tier != "quick" or not origin.startswith(("mutant", "repo")):
        return full
    # quick tier: every algorithm x table type once, shift preferences sampled (all 4 over the stream)
    out = []
    for a in ALGOS:
        for t in TABLES:
            out.append((a, t, rng.randint(0, 1), rng.randint(0, 1)))
    return out


def run(rep, tier, seed):
    rng = random.Random(seed * 31 + 16)
    t0 = time.time()
    timing = {}
    texts = make_texts(tier, seed)
    ok_rc, rc_log = build_rcomp()
    if not ok_rc:
        rep.notes.append("rcomp could not be built; panic sites fall back to message keys: " + rc_log[-300:])
    # phase A: grammar stage (independent of the settings) under the default configuration
    casesA = [Case("a%d" % i, t, run="NONE", algo="LR", table="LALR_PAGER", flags=dict(ps=0, pse=1), meta=dict(origin=o))
              for i, (o, t) in enumerate(texts)]
    resA = run_cases(casesA, "c16a", timeout_s=6)
    timing["phaseA_s"] = round(time.time() - t0, 1)
    classes = {}
    bad = []           # (kind, stage, msg, case)
    through = []       # texts that pass the grammar stage
    for r in resA:
        k, stage, msg = outcome_of(r)
        if k in ("OK",) or stage in ("table", "conflicts"):
            through.append(r.case)
        else:
            c = k if k != "ERROR" else "ERROR:" + error_class(msg)
            classes[c + "@grammar"] = classes.get(c + "@grammar", 0) + 1
            if k != "ERROR":
                bad.append((k, stage, msg, r.case))
    # phase B: table stage over the configuration matrix
    casesB = []
    for c in through:
        for (a, t, ps, pse) in settings_matrix(tier, rng, c.meta["origin"]):
            casesB.append(Case(c.id + "_%s_%s_%d%d" % (a, t, ps, pse), c.grammar, run="NONE", algo=a, table=t,
                               flags=dict(ps=ps, pse=pse), meta=c.meta))
    resB = run_cases(casesB, "c16b", timeout_s=6)
    timing["phaseB_s"] = round(time.time() - t0, 1)
    cfg_count = {}
    for r in resB:
        k, stage, msg = outcome_of(r)
        cfg = "%s/%s/ps%d/pse%d" % (r.case.algo, r.case.table, r.case.flags["ps"], r.case.flags["pse"])
        cfg_count[cfg] = cfg_count.get(cfg, 0) + 1
        if k == "OK":
            c = "OK" if (r.dump.conflicts in (0, "PANIC") or r.case.algo == "GLR") else "ERROR:conflicts"
            if c == "OK" and r.dump.missing_rec:
                c = "ERROR:missing-recognizer"
        elif k == "ERROR":
            c = "ERROR:" + error_class(msg)
        else:
            c = k
            bad.append((k, stage, msg, r.case))
        classes[c + "@table"] = classes.get(c + "@table", 0) + 1
    # classify the bad outcomes: one key per panic site
    groups = {}
    lookups = {}
    per_msg = {}
    for k, stage, msg, c in bad:
        if k != "PANIC":
            continue
        ck = (c.grammar, stage, norm_msg(msg)) if stage == "grammar" else \
            (c.grammar, stage, norm_msg(msg), c.algo, c.table, c.flags["ps"], c.flags["pse"])
        if ck in lookups:
            continue
        mk = (stage, norm_msg(msg))
        per_msg[mk] = per_msg.get(mk, 0) + 1
        # sites are looked up for at most 30 distinct texts per message
        if per_msg[mk] <= 30:
            lookups[ck] = (c, stage, msg)
    with ThreadPoolExecutor(max_workers=NCPU) as ex:
        locs = list(ex.map(lambda v: site_of(v[0].grammar, v[0].algo, v[0].table, v[0].flags["ps"], v[0].flags["pse"],
                                             v[1], v[2]), lookups.values()))
    loc_cache = dict(zip(lookups.keys(), locs))
    for k, stage, msg, c in bad:
        if k == "PANIC":
            ck = (c.grammar, stage, norm_msg(msg)) if stage == "grammar" else \
                (c.grammar, stage, norm_msg(msg), c.algo, c.table, c.flags["ps"], c.flags["pse"])
            if ck not in loc_cache:
                continue
            loc = loc_cache[ck]
            key = loc["panic_key"] if loc else "panic-msg:%s:%s" % (stage, slug(msg))
        else:
            key = "%s:%s" % (k.lower(), stage)
        key = classify_known(key, c.grammar)
        groups.setdefault(key, []).append((k, stage, msg, c))
    timing["classify_s"] = round(time.time() - t0, 1)
    findings = []
    sh_items = []
    for key in sorted(groups):
        items = groups[key]
        k, stage, msg, c = min(items, key=lambda it: len(it[3].grammar))
        want = norm_msg(msg)

        def pred(o, k=k, stage=stage, want=want):
            return o[0] == k and o[1] == stage and norm_msg(o[2]) == want
        sh_items.append(dict(text=c.grammar, algo=c.algo, table=c.table, flags=c.flags, pred=pred,
                             budget=14 if k == "PANIC" else 2))
    shrunk = shrink_all(sh_items)
    for key, small in zip(sorted(groups), shrunk):
        items = groups[key]
        k, stage, msg, c = min(items, key=lambda it: len(it[3].grammar))
        location = None
        if key.startswith("panic@"):
            # keep the shrunk witness only if the real binary still panics at the same site
            loc2 = site_of(small, c.algo, c.table, c.flags["ps"], c.flags["pse"], stage, msg)
            if loc2 is None or loc2["panic_key"] != base_key(key) or classify_known(base_key(key), small) != key:
                small = c.grammar
                loc2 = site_of(small, c.algo, c.table, c.flags["ps"], c.flags["pse"], stage, msg)
            location = loc2["panic_loc"] if loc2 else None
        cfgs = sorted(set("%s/%s/ps%d/pse%d" % (i[3].algo, i[3].table, i[3].flags["ps"], i[3].flags["pse"]) for i in items))
        f = dict(key=key, outcome=k, stage=stage, message=msg.split("\n")[0][:200], witness=small, location=location,
                 algo=c.algo, table=c.table, flags=c.flags, cases=len(items),
                 configurations=cfgs if stage != "grammar" else ["any (grammar stage)"],
                 origins=sorted(set(i[3].meta.get("origin", "?").split(":")[0] for i in items)))
        findings.append(f)
        rep.violation(key, "the compiler %s instead of returning a diagnostic (%s stage): %s" %
                      ("panics" if k == "PANIC" else k.lower(), stage, msg.split("\n")[0][:120]),
                      dict(grammar=small, algo=c.algo, table=c.table, flags=c.flags, message=msg[:400], cases=len(items),
                           location=location, configurations=f["configurations"]))
    timing["classify_shrink_s"] = round(time.time() - t0, 1)
    # the real binary (parser + builder + table + CODE GENERATION) on a sample: panic message / abort / hang
    rc_stats = dict(runs=0, generated=0, diagnostic=0, panics=0, aborted=0, timeout=0)
    if ok_rc:
        sample = [(o, t) for o, t in texts if not o.startswith(("mutant", "conflict"))]
        thr = set(c.grammar for c in through)
        rest = [(o, t) for o, t in texts if o.startswith(("mutant", "conflict")) and t in thr]
        rest2 = [(o, t) for o, t in texts if o.startswith(("mutant", "conflict")) and t not in thr]
        rng.shuffle(rest)
        rng.shuffle(rest2)
        sample += rest[:400 if tier == "quick" else 4000] + rest2[:100 if tier == "quick" else 1000]
        jobs = []
        for o, t in sample:
            a, tb, ps, pse = rng.choice([("LR", "LALR_PAGER", 0, 1), ("LR", "LALR", 1, 1), ("GLR", "LALR_RN", 0, 0),
                                         ("LR", "LALR_RN", 0, 0), ("LR", "LALR_PAGER", 1, 0)])
            jobs.append((o, t, a, tb, ps, pse))
        with ThreadPoolExecutor(max_workers=NCPU) as ex:
            outs = list(ex.map(lambda j: run_rcomp(j[1], rcomp_flags(*j[2:])), jobs))
        # a timeout on a loaded machine is retried alone with a long limit before it counts
        outs = [run_rcomp(j[1], rcomp_flags(*j[2:]), timeout=120) if r["code"] == "TIMEOUT" else r for j, r in zip(jobs, outs)]
        by_key = {}
        for j, r in zip(jobs, outs):
            rc_stats["runs"] += 1
            if r["code"] == "TIMEOUT":
                rc_stats["timeout"] += 1
                by_key.setdefault("timeout:compile", []).append((j, r))
            elif r["panic_loc"]:
                rc_stats["panics"] += 1
                by_key.setdefault(classify_known(r["panic_key"], j[1]), []).append((j, r))
            elif isinstance(r["code"], int) and r["code"] != 0:
                rc_stats["aborted"] += 1
                by_key.setdefault("abort:rcomp:%s" % r["code"], []).append((j, r))
            elif r["generated"]:
                rc_stats["generated"] += 1
            else:
                rc_stats["diagnostic"] += 1
        have = set(f["key"] for f in findings)
        for key in sorted(by_key):
            if key in have:
                continue
            j, r = min(by_key[key], key=lambda x: len(x[0][1]))
            fl = rcomp_flags(*j[2:])
            small = shrink_rcomp(j[1], fl, base_key(key))
            if classify_known(base_key(key), small) != key:
                small = j[1]
            findings.append(dict(key=key, outcome="PANIC" if key.startswith("panic") else key.split(":")[0].upper(),
                                 stage="rcomp (code generation)", message=r["panic_msg"] or "", witness=small,
                                 location=r["panic_loc"],
                                 algo=j[2], table=j[3], flags=dict(ps=j[4], pse=j[5]), cases=len(by_key[key]),
                                 configurations=[" ".join(fl)], origins=sorted(set(x[0][0].split(":")[0] for x in by_key[key]))))
            rep.violation(key, "rcomp %s: %s" % ("panics" if key.startswith("panic") else "fails", r["panic_msg"]),
                          dict(grammar=small, rcomp_flags=fl, algo=j[2], table=j[3], flags=dict(ps=j[4], pse=j[5]),
                               output=r["out"][-600:]))
    timing["rcomp_s"] = round(time.time() - t0, 1)
    # former witnesses of repaired findings must get their diagnostic (a panic / hang is already a violation above)
    expect = dict((t, (tag, sub)) for tag, t, sub in REGRESSIONS)
    n_regr = 0
    for r in list(resA) + list(resB):
        e = expect.get(r.case.grammar)
        if e is None or e[1] is None:
            continue
        k, stage, msg = outcome_of(r)
        n_regr += 1
        if not (k == "ERROR" and e[1] in msg):
            rep.violation("regression:" + e[0], "a repaired witness no longer gets its diagnostic (%s): %s %s" %
                          (e[1], k, msg.split("\n")[0][:100]),
                          dict(grammar=r.case.grammar, algo=r.case.algo, table=r.case.table, flags=r.case.flags, message=msg[:300]))
    # known findings that did not show up in this run (fixed in /repo?): say so
    found_keys = set(f["key"] for f in findings)
    for k in rep.known:
        if k["property"] == rep.pid and k["key"] not in found_keys:
            msg = "known finding %s did not occur in this run: if it was repaired move its entry to `fixed:`" % k["key"]
            rep.notes.append(msg)
            print("NOTE: " + msg)
    pt = rep.theorems or {}
    nthm = len(pt.get("theorems", []))
    n_eval = len(resA) + len(resB)
    n_ok = sum(v for k, v in classes.items() if k.startswith("OK"))
    rep.findings = findings
    rep.coverage = dict(
        obligations=nthm, discharged=pt.get("closed", 0),
        checker_cmd="make -C coq Properties/C16.vo ; rv run (hook verif::dump under catch_unwind) ; rcomp",
        trusted_base=TRUSTED_BASE + ["rcomp built from /repo (cargo build -p rustemo-compiler --bin rcomp) for panic "
                                     "locations and exit statuses"],
        theorems=pt.get("theorems", []),
        evaluations=n_eval, distinct_nontrivial=len(through),
        rule="texts: every construct of rustemo.rustemo, %d hand-written odd/malformed texts, the repository's "
             "grammars, token-level mutants (delete/duplicate/swap/replace/insert/truncate/splice, keyword-like names, "
             "huge numbers, unicode, unbalanced brackets/quotes) and random ambiguous expression grammars with "
             "priorities/associativity (three-way conflicts); grammar stage once per text, table stage for every text "
             "that reaches it x {LR,GLR} x {LALR,LALR_PAGER,LALR_RN} x prefer_shifts x prefer_shifts_over_empty "
             "(quick tier: mutants get every algo x table with sampled shift flags); non-trivial = texts that pass the "
             "grammar stage" % len(ODD),
        texts=len(texts), texts_through_grammar_stage=len(through), table_stage_runs=len(resB),
        outcome_classes=dict(sorted(classes.items())), configurations=cfg_count,
        panic_keys=[dict(key=f["key"], cases=f["cases"], witness=f["witness"], message=f["message"], location=f.get("location"),
                         configurations=f["configurations"]) for f in findings],
        rcomp=rc_stats, timing_cumulative=timing, regression_checks=n_regr,
        samples=[dict(origin=o, text=t[:200]) for o, t in texts[:3]] +
                [dict(key=f["key"], witness=f["witness"]) for f in findings[:5]])
    rep.assumptions = [
        "exploration: the stream is finite; totality of the builder for ALL ASTs is the Coq theorem "
        "builder_no_panic_known (model tied to the code by C09's correspondence); the text parser and table "
        "construction are explored only",
        "panic keys are <file>::<enclosing fn>:<message> of the panic location printed by the real rcomp binary "
        "(message keys when rcomp cannot reproduce); file:line is recorded per witness"]
    os.makedirs(os.path.join(VERIF, "work"), exist_ok=True)
    with open(os.path.join(VERIF, "work", "C16-findings.json"), "w") as f:
        json.dump(findings, f, indent=1)


def replay(rep, path):
    p = json.load(open(path))
    flags = p.get("flags", dict(ps=0, pse=1))
    c = Case("replay", p["grammar"], run="NONE", algo=p.get("algo", "LR"), table=p.get("table", "LALR_PAGER"), flags=flags)
    r = run_cases([c], "c16replay", shards=1, timeout_s=10)[0]
    k, stage, msg = outcome_of(r)
    print("real (hook) :", k, stage, msg.split("\n")[0][:200])
    ok_rc, _ = build_rcomp()
    if ok_rc:
        fl = p.get("rcomp_flags") or rcomp_flags(c.algo, c.table, flags.get("ps", 0), flags.get("pse", 1))
        rr = run_rcomp(p["grammar"], fl)
        print("real (rcomp):", "exit", rr["code"], "panic %s at %s: %s" % (rr["panic_key"], rr["panic_loc"], rr["panic_msg"]) if rr["panic_loc"]
              else ("generated" if rr["generated"] else "diagnostic"))
    print("expected    : OK or ERROR <diagnostic>")
    if k in ("PANIC", "TIMEOUT", "CRASH"):
        rep.violation(p.get("key", "replay"), "replayed case still fails: %s %s" % (k, msg[:100]), dict(p))
    rep.coverage = dict(obligations=1, discharged=1, checker_cmd="replay", trusted_base=[])
