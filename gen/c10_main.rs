// C10 program (appended to gen/batch_prelude.rs): parses inputs with generated parsers that use the
// DEFAULT builder and prints the Debug rendering of the returned AST (hex encoded, one line per
// input; for GLR one line per tree of the forest, each tree replayed through the default builder).
use rustemo::Parser;

const MAX_TREES: usize = 4;

macro_rules! per_parser {
    ($run:ident, $name:expr, $m:ident, $p:ident, $pa:ident, $pl:ident, $pb:ident, $Parser:ident, $Def:ident,
     $algo:ident, $builder:ident, $lexer:ident,
     states [$($st:ident),*], tokens [$($tk:ident),*], nonterms [$($nk:ident),*], prods [$($pk:ident),*]) => {
        pub fn $run(out: &mut String) {
            use $m::$p as g;
            writeln!(out, "PARSER {}", $name).unwrap();
            flush_out(out);
            for (i, input) in read_inputs($name).iter().enumerate() {
                if !begin_input(out, i) { continue; }
                let r = catch_unwind(AssertUnwindSafe(|| {
                    per_parser!(@parse $algo, g, $Parser, input, i)
                }));
                let r = match r { Ok(s) => s, Err(e) => format!("RESULT ANY {i} PANIC {}\n", panic_msg(e)) };
                out.push_str(&r);
                flush_out(out);
            }
            per_parser!(@seq $algo, g, $Parser, $name, out);
            writeln!(out, "ENDPARSER").unwrap();
        }
    };
    // ONE parser instance for the whole input list; before each input a corrupted copy of it (syntax error after
    // the last token was shifted) is parsed with the same instance. Lines RESULT LRS i ... must equal RESULT LR i ...
    (@seq LR, $g:ident, $Parser:ident, $name:expr, $out:ident) => {
        let inputs = read_inputs($name);
        let bads: Vec<String> = inputs.iter().map(|s| format!("{} \u{1}", s)).collect();
        let r = catch_unwind(AssertUnwindSafe(|| {
            let mut s = String::new();
            let parser = $g::$Parser::new();
            for (i, input) in inputs.iter().enumerate() {
                let _ = parser.parse(bads[i].as_str());
                match parser.parse(input.as_str()) {
                    Ok(ast) => s.push_str(&format!("RESULT LRS {} AST 1 {}\n", i, hex(format!("{:?}", ast).as_bytes()))),
                    Err(_) => s.push_str(&format!("RESULT LRS {} ERR\n", i)),
                }
            }
            s
        }));
        match r {
            Ok(s) => $out.push_str(&s),
            Err(e) => $out.push_str(&format!("RESULT LRS 0 PANIC {}\n", panic_msg(e))),
        }
        flush_out($out);
    };
    (@seq GLR, $g:ident, $Parser:ident, $name:expr, $out:ident) => {};
    (@parse LR, $g:ident, $Parser:ident, $input:ident, $i:ident) => {
        match $g::$Parser::new().parse($input.as_str()) {
            Ok(ast) => format!("RESULT LR {} AST 1 {}\n", $i, hex(format!("{:?}", ast).as_bytes())),
            Err(_) => format!("RESULT LR {} ERR\n", $i),
        }
    };
    (@parse GLR, $g:ident, $Parser:ident, $input:ident, $i:ident) => {
        match $g::$Parser::new().parse($input.as_str()) {
            Ok(forest) => {
                let n = forest.solutions();
                let mut s = format!("RESULT GLR {} AST {}", $i, n);
                for k in 0..n.min(MAX_TREES) {
                    let mut builder = $g::DefaultBuilder::new();
                    let ast = forest.get_tree(k).unwrap().build(&mut builder);
                    s.push(' ');
                    s.push_str(&hex(format!("{:?}", ast).as_bytes()));
                }
                s.push('\n');
                s
            }
            Err(_) => format!("RESULT GLR {} ERR\n", $i),
        }
    };
}

include!(concat!(env!("OUT_DIR"), "/all.rs"));

fn main() {
    batch_main(run_all);
}
