"""C09 — the grammar the compiler analyses is the grammar the user wrote.

(T) Properties/C09.v: theorems about Model/Builder.v (`build_grammar`, a literal Gallina mirror of
    GrammarBuilder at /repo 9193ac3) over ALL grammar-file ASTs: production index = position, first rule = start,
    one production per alternative, inline strings, meta-data inheritance (incl. associativity), helper sharing and
    the FULL sugar_language (every helper has exactly its documented productions / language).
(C) correspondence: grammar files are generated from one internal representation as BOTH grammar text (given
    to the real RustemoParser + GrammarBuilder through the hook) and a Gallina AST term (given to
    `build_grammar` under vm_compute).  The model prints its result in the hook's line format; every field of
    every terminal / nonterminal / production (indexes, rhs symbols, ntidx, priority, associativity, nops, nopse,
    kind, assignment names and ?= flags, remaining meta-data, reachability, special indexes) and every error /
    panic class with its payload must agree.  `known_panic_class_b` is evaluated in Coq per file: a real builder
    panic outside the class is a violation.
(S) the property's own clauses checked directly on the REAL dump, independently of the model; sentences of
    sugar witnesses through the real LR parser; the former witnesses of repaired findings (REGRESSIONS) must give
    exactly their diagnostic, in the real builder and in the model."""
import json
import random
import re

from rvlib import *  # noqa
from common import TRUSTED_BASE

LEVEL = "proof"

# ----------------------------------------------------------------------------- internal representation
#  file   = dict(rules=[rule]|None, terms=[term]|None, imports=[str])
#  rule   = dict(annot=str|None, name=str, meta=[pm], rhs=[prod])
#  prod   = dict(assigns=[(kind, name|None, ref)], meta=[pm])          kind in plain/bool/ref
#  ref    = dict(sym=("name", n)|("str", s)|None, rep=(op, mods|None)|None)   sym None = parenthesised group
#  pm     = ("left",)|("reduce",)|("right",)|("shift",)|("dynamic",)|("nops",)|("nopse",)|("prio", n)|
#           ("user", k, val)|("kind", k)
#  tm     = ("prefer",)|("finish",)|("nofinish",)|("left",)|("reduce",)|("right",)|("shift",)|("dynamic",)|
#           ("prio", n)|("user", k, val)
#  val    = ("int", n)|("float", s)|("bool", b)|("str", s)
#  term   = dict(annot, name, rec=("str", s)|("regex", s)|None, meta=[tm])

OPS = {"*": "ZeroOrMore", "*!": "ZeroOrMoreGreedy", "+": "OneOrMore", "+!": "OneOrMoreGreedy",
       "?": "Optional", "?!": "OptionalGreedy"}
SUFFIX = {"*": "0", "+": "1", "?": "Opt"}


# ---- text
def t_str(s):
    return "'" + s.replace("\\", "\\\\").replace("'", "\\'") + "'"


def t_val(v):
    if v[0] == "int":
        return str(v[1])
    if v[0] == "float":
        return v[1]
    if v[0] == "bool":
        return "true" if v[1] else "false"
    return t_str(v[1])


def t_meta(m):
    if m[0] == "prio":
        return str(m[1])
    if m[0] == "user":
        return "%s: %s" % (m[1], t_val(m[2]))
    if m[0] == "kind":
        return m[1]
    return m[0]


def t_ref(r):
    if r["sym"] is None:
        s = "(%s)" % r.get("group", "A")
    elif r["sym"][0] == "name":
        s = r["sym"][1]
    else:
        s = t_str(r["sym"][1])
    if r["rep"]:
        op, mods = r["rep"]
        s += op
        if mods is not None:
            s += "[" + ", ".join(mods) + "]"
    return s


def t_assign(a):
    k, n, r = a
    if k == "plain":
        return "%s=%s" % (n, t_ref(r))
    if k == "bool":
        return "%s?=%s" % (n, t_ref(r))
    return t_ref(r)


def t_file(f):
    out = []
    for i in f.get("imports", []):
        out.append("import %s" % t_str(i))
    for r in f["rules"] or []:
        head = ("@%s " % r["annot"] if r["annot"] else "") + r["name"]
        if r["meta"]:
            head += " {" + ", ".join(t_meta(m) for m in r["meta"]) + "}"
        alts = []
        for p in r["rhs"]:
            s = " ".join(t_assign(a) for a in p["assigns"])
            if p["meta"]:
                s += " {" + ", ".join(t_meta(m) for m in p["meta"]) + "}"
            alts.append(s)
        out.append(head + ": " + "\n    | ".join(alts) + ";")
    if f["terms"] is not None:
        out.append("terminals")
        for t in f["terms"]:
            s = ("@%s " % t["annot"] if t["annot"] else "") + t["name"] + ":"
            if t["rec"]:
                s += " " + (t_str(t["rec"][1]) if t["rec"][0] == "str" else "/" + t["rec"][1].replace("/", "\\/") + "/")
            if t["meta"]:
                s += " {" + ", ".join(t_meta(m) for m in t["meta"]) + "}"
            out.append(s + ";")
    return "\n".join(out) + "\n"


# ---- Gallina
def g_str(s):
    return '"' + s.replace('"', '""') + '"'


def g_opt(x, f):
    return "None" if x is None else "(Some %s)" % f(x)


def g_val(v):
    if v[0] == "int":
        return "(CInt %d%%N)" % v[1]
    if v[0] == "float":
        return "(CFloat %s)" % g_str(v[1])
    if v[0] == "bool":
        return "(CBool %s)" % gl_bool(v[1])
    return "(CStr %s)" % g_str(v[1])


PM = {"left": "PMLeft", "reduce": "PMReduce", "right": "PMRight", "shift": "PMShift", "dynamic": "PMDynamic",
      "nops": "PMNops", "nopse": "PMNopse"}
TM = {"prefer": "TMPrefer", "finish": "TMFinish", "nofinish": "TMNoFinish", "left": "TMLeft", "reduce": "TMReduce",
      "right": "TMRight", "shift": "TMShift", "dynamic": "TMDynamic"}


def g_pm(m):
    if m[0] == "prio":
        return "PMPrio %d%%N" % m[1]
    if m[0] == "user":
        return "PMUser %s %s" % (g_str(m[1]), g_val(m[2]))
    if m[0] == "kind":
        return "PMKind %s" % g_str(m[1])
    return PM[m[0]]


def g_tm(m):
    if m[0] == "prio":
        return "TMPrio %d%%N" % m[1]
    if m[0] == "user":
        return "TMUser %s %s" % (g_str(m[1]), g_val(m[2]))
    return TM[m[0]]


def g_ref(r):
    if r["sym"] is None:
        sym = "None"
    elif r["sym"][0] == "name":
        sym = "(Some (GName %s))" % g_str(r["sym"][1])
    else:
        sym = "(Some (GStr %s))" % g_str(r["sym"][1])
    if r["rep"]:
        op, mods = r["rep"]
        rep = "(Some (mkRep %s %s))" % (OPS[op], g_opt(mods, lambda ms: gl_list([g_str(m) for m in ms])))
    else:
        rep = "None"
    return "(mkRef %s %s)" % (sym, rep)


def g_assign(a):
    k, n, r = a
    if k == "plain":
        return "APlain %s %s" % (g_str(n), g_ref(r))
    if k == "bool":
        return "ABool %s %s" % (g_str(n), g_ref(r))
    return "ARef %s" % g_ref(r)


def g_file(f):
    def g_prod(p):
        return "mkProduction %s %s" % (gl_list([g_assign(a) for a in p["assigns"]]), gl_list([g_pm(m) for m in p["meta"]]))

    def g_rule(r):
        return "mkRule %s %s %s %s" % (g_opt(r["annot"], g_str), g_str(r["name"]), gl_list([g_pm(m) for m in r["meta"]]),
                                      gl_list([g_prod(p) for p in r["rhs"]]))

    def g_term(t):
        rec = "None" if t["rec"] is None else "(Some (%s %s))" % ("RStr" if t["rec"][0] == "str" else "RRegex", g_str(t["rec"][1]))
        return "mkTermRule %s %s %s %s" % (g_opt(t["annot"], g_str), g_str(t["name"]), rec, gl_list([g_tm(m) for m in t["meta"]]))

    return "mkFile %s %s" % (g_opt(f["rules"], lambda rs: gl_list([g_rule(r) for r in rs])),
                             g_opt(f["terms"], lambda ts: gl_list([g_term(t) for t in ts])))


# ----------------------------------------------------------------------------- generator
TNAMES = ["A", "B", "C", "D", "Comma", "Num", "Semi", "Tx"]
TRECS = {"A": ("str", "a"), "B": ("str", "b"), "C": ("str", "c"), "D": ("str", "d"), "Comma": ("str", ","),
         "Num": ("regex", "[0-9]+"), "Semi": ("str", ";"), "Tx": ("regex", "x+")}
RNAMES = ["S", "E", "X", "Y", "Z", "Item", "List"]
ANAMES = ["a", "b", "x", "first", "rest", "v1"]
KINDS = ["K", "Add", "Mul", "Unit"]
UKEYS = ["u", "doc", "weight", "flag"]


def rnd_val(rng):
    k = rng.randrange(4)
    if k == 0:
        return ("int", rng.choice([0, 1, 7, 42, 4294967295]))
    if k == 1:
        return ("float", rng.choice(["1.5", "0.25", "2."]))
    if k == 2:
        return ("bool", True)      # `false` is not accepted by the real grammar-of-grammars lexer (C16 note)
    return ("str", rng.choice(["q", "hello", "x1"]))


def rnd_pmeta(rng, p_any=0.35, odd=0.0):
    ms = []
    if rng.random() > p_any:
        return ms
    for _ in range(rng.randint(1, 3)):
        k = rng.randrange(9)
        if k == 0:
            ms.append(("prio", rng.choice([1, 5, 9, 10, 11, 20, 99, 100, 1000])))
        elif k == 1:
            ms.append((rng.choice(["left", "reduce"]),))
        elif k == 2:
            ms.append((rng.choice(["right", "shift"]),))
        elif k == 3:
            ms.append((rng.choice(["nops", "nopse"]),))
        elif k == 4:
            ms.append(("dynamic",))
        elif k == 5:
            ms.append(("kind", rng.choice(KINDS)))
        elif k == 6:
            ms.append(("user", rng.choice(UKEYS), rnd_val(rng)))
        elif k == 7 and rng.random() < odd:
            ms.append(("user", rng.choice(["priority", "kind"]), rnd_val(rng)))
        elif k == 8 and rng.random() < 0.12 * odd:
            ms.append(("prio", 4294967296))
    return ms


def rnd_tmeta(rng, odd=0.0):
    ms = []
    if rng.random() > 0.3:
        return ms
    for _ in range(rng.randint(1, 2)):
        k = rng.randrange(7)
        if k == 0:
            ms.append(("prio", rng.choice([0, 1, 5, 10, 15, 99] + ([100] if rng.random() < odd else []))))
        elif k == 1:
            ms.append((rng.choice(["left", "reduce"]),))
        elif k == 2:
            ms.append((rng.choice(["right", "shift"]),))
        elif k == 3:
            ms.append((rng.choice(["prefer", "finish", "nofinish", "dynamic"]),))
        elif k == 4:
            ms.append(("user", rng.choice(UKEYS), rnd_val(rng)))
        elif k == 5 and rng.random() < odd:
            ms.append(("user", "priority", rnd_val(rng)))
    return ms


def gen_file(rng, odd):
    """odd in [0,1]: probability scale of constructs that lead to errors / panics / name clashes."""
    nt = rng.randint(1, 5)
    tnames = rng.sample(TNAMES, nt)
    terms = []
    for n in tnames:
        rec = TRECS[n]
        if rng.random() < 0.05:
            rec = None
        terms.append(dict(annot="tok" if rng.random() < 0.1 else None, name=n, rec=rec, meta=rnd_tmeta(rng, odd)))
    if rng.random() < 0.3 * odd:      # duplicate terminal name / recognizer / STOP / helper-like name
        k = rng.randrange(5)
        if k == 0:
            terms.append(dict(annot=None, name=rng.choice(tnames), rec=("str", "zz"), meta=[]))
        elif k == 1:
            terms.append(dict(annot=None, name="Dup", rec=terms[0]["rec"], meta=[]))
        elif k == 2:
            terms.append(dict(annot=None, name="STOP", rec=("str", "stop"), meta=[]))
        elif k == 3:
            terms.append(dict(annot=None, name=tnames[0] + "1", rec=("str", "one"), meta=[]))
        else:
            terms.insert(0, dict(annot=None, name="A0a", rec=terms[0]["rec"], meta=[]))
    nr = rng.randint(1, 4)
    rnames = rng.sample(RNAMES, nr)
    if rng.random() < 0.2:
        rnames.append(rng.choice(["Layout", "layout", "LAYOUT"]))
    if rng.random() < 0.15:
        rnames.insert(rng.randint(1, len(rnames)), rng.choice(rnames))        # several rules with one name
    if rng.random() < 0.25 * odd:
        base = rng.choice(tnames + rnames[:1])
        rnames.insert(rng.randint(0, len(rnames)), base + rng.choice(["1", "0", "Opt"]))   # helper-name clash
    if rng.random() < 0.1 * odd:
        rnames.insert(rng.randint(0, len(rnames)), rng.choice(["EMPTY", "AUG", "AUGL", "STOP", tnames[0], "fn", "a.b", "_"]))
    strs = [t["rec"][1] for t in terms if t["rec"] and t["rec"][0] == "str"]
    owner = {}
    for t in terms:
        if t["rec"] and t["rec"][0] == "str":
            owner[t["rec"][1]] = t["name"] if t["rec"][1] not in owner else max(owner[t["rec"][1]], t["name"])
    sep_of = {}          # base symbol -> separator of its + / * uses (the builder demands one per base)

    def rnd_ref(depth=0):
        k = rng.random()
        if k < 0.08 and depth == 0:
            return dict(sym=("name", "EMPTY"), rep=None)
        if k < 0.25 and strs:
            sym = ("str", rng.choice(strs) if rng.random() > 0.1 * odd else "undeclared")
        elif k < 0.75:
            sym = ("name", rng.choice(tnames))
        elif k < 0.97 or odd == 0:
            sym = ("name", rng.choice(rnames[:max(1, len(rnames))]))
        elif k < 0.985:
            sym = ("name", rng.choice(["Undefined", "STOP", "AUG", "EMPTY"]))
        else:
            sym = None
        rep = None
        if rng.random() < 0.3:
            op = rng.choice(["?", "*", "+", "+", "*"])
            if rng.random() < 0.06 * odd:
                op = rng.choice(["*!", "+!", "?!"])
            mods = None
            if rng.random() < 0.4:
                mods = [rng.choice(tnames)]
                if rng.random() < 0.08 * odd:
                    mods.append(rng.choice(tnames))
                elif rng.random() < 0.05 * odd:
                    mods = ["Undefined"]
            if op in ("+", "*") and sym is not None and not (rng.random() < 0.25 * odd):
                base = sym[1] if sym[0] == "name" else owner.get(sym[1], sym[1])
                if base not in sep_of:
                    sep_of[base] = mods
                mods = sep_of[base]
            rep = (op, mods)
        return dict(sym=sym, rep=rep)

    rules = []
    for name in rnames:
        alts = []
        for _ in range(rng.randint(1, 3)):
            assigns = []
            for _ in range(rng.randint(1, 4)):
                r = rnd_ref()
                k = rng.random()
                if k < 0.7:
                    assigns.append(("ref", None, r))
                else:
                    an = rng.choice(ANAMES) if rng.random() > 0.05 * odd else rng.choice(["fn", "type", "a.b"])
                    if r["sym"] == ("name", "EMPTY") and rng.random() < 0.7:
                        r = dict(sym=("name", rng.choice(tnames)), rep=r["rep"])
                    assigns.append(("plain" if k < 0.9 else "bool", an, r))
            alts.append(dict(assigns=assigns, meta=rnd_pmeta(rng, 0.35, odd)))
        rules.append(dict(annot=rng.choice(["vec", "x"]) if rng.random() < 0.1 else None, name=name,
                          meta=rnd_pmeta(rng, 0.3, odd), rhs=alts))
    f = dict(rules=rules, terms=terms, imports=["m.rustemo"] if rng.random() < 0.05 else [])
    if rng.random() < 0.03 * odd:
        f["rules"] = None
        f["imports"] = []
    if rng.random() < 0.03 and f["rules"] is not None:
        f["terms"] = None
    return f


def R(n, rep=None):
    return dict(sym=("name", n), rep=rep)


def Sx(s, rep=None):
    return dict(sym=("str", s), rep=rep)


def simple_file(rules, terms):
    """rules: [(name, [[ref,...],...])], terms: [(name, rec)]"""
    return dict(rules=[dict(annot=None, name=n, meta=[], rhs=[dict(assigns=[("ref", None, r) for r in alt], meta=[])
                                                             for alt in alts]) for n, alts in rules],
                terms=[dict(annot=None, name=n, rec=rec, meta=[]) for n, rec in terms], imports=[])


ABX = [("A", ("str", "a")), ("Comma", ("str", ",")), ("X", ("str", "x"))]

# sugar witnesses with sentences judged by the DOCUMENTED expansion (docs/src/grammar_language.md); since 8b45135 all
# uses of X+ / X* agree on the separator
SUGAR_WITNESSES = [
    ("plus-sep-twice", simple_file([("S", [[R("A", ("+", ["Comma"])), R("X"), R("A", ("+", ["Comma"]))]])], ABX),
     [("a , a x a , a", True), ("a , a x a a", False), ("a x a", True), ("a a x a", False), ("x a", False)]),
    ("plus-twice", simple_file([("S", [[R("A", ("+", None)), R("X"), R("A", ("+", None))]])], ABX),
     [("a a x a a", True), ("a , a x a", False), ("a x a", True), ("x a", False)]),
    ("star-sep-and-plus-sep", simple_file([("S", [[R("A", ("*", ["Comma"])), R("X"), R("A", ("+", ["Comma"]))]])], ABX),
     [("a , a x a , a", True), ("x a", True), ("x", False), ("a a x a", False)]),
    ("star-and-plus", simple_file([("S", [[R("A", ("*", None)), R("X"), R("A", ("+", None))]])], ABX),
     [("a a x a a", True), ("x a", True), ("x", False), ("a , a x a", False)]),
    ("optional", simple_file([("S", [[R("A", ("?", None)), R("X"), R("A", ("?", ["Comma"]))]])], ABX),
     [("a x a", True), ("x", True), ("a x", True), ("a a x", False)]),
    ("inline-plus-sep", simple_file([("S", [[Sx("a", ("+", ["Comma"])), R("X")]])], ABX),
     [("a , a x", True), ("a a x", False), ("x", False)]),
]

# former witnesses of repaired findings: the real builder AND the model must give exactly this outcome
REGRESSIONS = [
    ("f4-plus-sep-then-plus", simple_file([("S", [[R("A", ("+", ["Comma"])), R("X"), R("A", ("+", None))]])], ABX),
     "ERROR separator-conflict A"),
    ("f4-plus-then-plus-sep", simple_file([("S", [[R("A", ("+", None)), R("X"), R("A", ("+", ["Comma"]))]])], ABX),
     "ERROR separator-conflict A"),
    ("f4-star-sep-then-star", simple_file([("S", [[R("A", ("*", ["Comma"])), R("X"), R("A", ("*", None))]])], ABX),
     "ERROR separator-conflict A"),
    ("f4-star-then-plus-sep", simple_file([("S", [[R("A", ("*", None)), R("X"), R("A", ("+", ["Comma"]))]])], ABX),
     "ERROR separator-conflict A"),
    ("helper-name-clash", simple_file([("S", [[R("A1"), R("X"), R("A", ("+", None))]]), ("A1", [[R("Comma")]])], ABX),
     "ERROR helper-name-clash A1 A"),
    ("helper-clash-self", simple_file([("A1", [[R("A", ("+", None)), R("X")]])], ABX), "ERROR helper-name-clash A1 A"),
    ("helper-clash-star", simple_file([("S", [[R("A", ("*", None))]]), ("A1", [[R("A")]])], ABX), "ERROR helper-name-clash A1 A"),
    ("helper-clash-terminal", simple_file([("S", [[R("A", ("+", None))]])], ABX + [("A1", ("str", "one"))]),
     "ERROR helper-name-clash A1 A"),
    ("rule-is-terminal", simple_file([("A", [[Sx("a")]]), ("S", [[R("A")]])], ABX), "ERROR rule-and-terminal A"),
    ("dup-terminals", simple_file([("S", [[R("A")]])], [("A", ("str", "a"))] * 5), "ERROR duplicate-terminal A"),
    ("stop-terminal", simple_file([("S", [[R("A")]])], ABX + [("STOP", ("str", "s"))]), "ERROR duplicate-terminal STOP"),
    ("reserved-aug", simple_file([("S", [[R("A")]]), ("AUG", [[R("A")]])], ABX), "ERROR reserved-rule-name AUG"),
    ("reserved-augl", simple_file([("S", [[R("A")]]), ("AUGL", [[R("A")]])], ABX), "ERROR reserved-rule-name AUGL"),
    ("reserved-empty", simple_file([("S", [[R("A")]]), ("EMPTY", [[R("A")]])], ABX), "ERROR reserved-rule-name EMPTY"),
    ("reference-aug", simple_file([("S", [[R("A")], [R("A"), R("AUG")]])], ABX), "ERROR reserved-reference AUG"),
    ("reference-augl", simple_file([("S", [[R("A")], [R("AUGL"), R("A")]])], ABX), "ERROR reserved-reference AUGL"),
    ("rule-stop", simple_file([("S", [[R("A")]]), ("STOP", [[R("A")]])], ABX), "ERROR rule-and-terminal STOP"),
    ("terminals-only", dict(rules=None, terms=[dict(annot=None, name="A", rec=("str", "a"), meta=[])], imports=[]),
     "ERROR no-rules"),
    ("greedy", simple_file([("S", [[R("A", ("*!", None))]])], ABX), "ERROR greedy"),
    ("group", simple_file([("S", [[dict(sym=None, rep=None)]])], ABX), "ERROR groups"),
    ("group-rep", simple_file([("S", [[dict(sym=None, rep=("+", None))]])], ABX), "ERROR groups"),
    ("two-modifiers", simple_file([("S", [[R("A", ("+", ["Comma", "X"]))]])], ABX), "ERROR modifiers"),
    ("kind-keyword", dict(rules=[dict(annot=None, name="S", meta=[], rhs=[dict(assigns=[("ref", None, R("A"))], meta=[("kind", "fn")])])],
                          terms=[dict(annot=None, name="A", rec=("str", "a"), meta=[])], imports=[]),
     "ERROR invalid-identifier fn"),
]


def make_files(tier, seed):
    rng = random.Random(seed * 7919 + 9)
    n_clean, n_odd = (220, 220) if tier == "quick" else (3000, 3000)
    files = []
    for tag, f, _ in SUGAR_WITNESSES:
        files.append(("witness:" + tag, f))
    for tag, f, _ in REGRESSIONS:
        files.append(("regression:" + tag, f))
    hand = [
        ("meta-assoc", dict(rules=[dict(annot=None, name="S", meta=[("right",), ("prio", 7)], rhs=[
            dict(assigns=[("ref", None, R("A"))], meta=[("left",)]),
            dict(assigns=[("ref", None, R("B"))], meta=[]),
            dict(assigns=[("ref", None, R("A")), ("ref", None, R("B"))], meta=[("prio", 3), ("nops",)])])],
            terms=[dict(annot=None, name="A", rec=("str", "a"), meta=[]), dict(annot=None, name="B", rec=("str", "b"), meta=[])],
            imports=[])),
        ("empty-sugar", simple_file([("S", [[R("EMPTY", ("+", None)), R("A")]])], ABX)),
        ("inline-sugar", simple_file([("S", [[Sx("a", ("*", ["Comma"])), Sx(",", ("?", None)), Sx("x", ("+", None))]])], ABX)),
    ]
    files += [("hand:" + t, f) for t, f in hand]
    for _ in range(n_clean):
        files.append(("clean", gen_file(rng, 0.0)))
    for _ in range(n_odd):
        files.append(("odd", gen_file(rng, 1.0)))
    return files


# ----------------------------------------------------------------------------- real outcome -> flat lines
def real_val(dbg):
    m = re.match(r"(Int|Float|Bool|String)\(ValSpan \{ value: (.*), span: ", dbg, re.S)
    if not m:
        return "?" + dbg
    k, v = m.group(1), m.group(2)
    if k == "Int":
        return "I" + v
    if k == "Float":
        return "F"
    if k == "Bool":
        return "B" + ("1" if v == "true" else "0")
    return "S" + hx(json.loads(v) if v.startswith('"') and "\\u{" not in v else v.strip('"'))


def real_lines(r, site=None):
    """The real outcome in the model's flat format (list of lines)."""
    st = r.status
    if st == "OK" or (st in ("ERROR", "PANIC") and getattr(r, "stage", "") == "table"):
        out = ["OK"]
        for l in r.dump_lines:
            w = l.split(" ")
            if w[0] in ("TERM", "NONTERM", "PROD", "PRODASSIGN", "SPECIAL"):
                out.append(l.rstrip())
            elif w[0] == "PRODMETA":
                ents = []
                for e in w[2:]:
                    k, v = e.split("=", 1)
                    ents.append("%s=%s" % (k, real_val(unhx(v).decode(errors="replace"))))
                out.append(" ".join(w[:2] + ents))
        return out
    if st == "ERROR":
        m = r.msg
        mm = re.search(r"Can't use '([^']*)' as a valid Rust identifier", m)
        if mm:
            return ["ERROR invalid-identifier " + mm.group(1)]
        if "Priority must be" in m:
            return ["ERROR term-priority"]
        if "must have at least one rule" in m:
            return ["ERROR no-rules"]
        mm = re.search(r"Terminal '([^']*)' is defined more than once", m)
        if mm:
            return ["ERROR duplicate-terminal " + mm.group(1)]
        mm = re.search(r"'([^']*)' is a reserved name and can't be referenced", m)
        if mm:
            return ["ERROR reserved-reference " + mm.group(1)]
        mm = re.search(r"'([^']*)' is a reserved name", m)
        if mm:
            return ["ERROR reserved-rule-name " + mm.group(1)]
        mm = re.search(r"'([^']*)' is defined both as a rule and as a terminal", m)
        if mm:
            return ["ERROR rule-and-terminal " + mm.group(1)]
        if "Parenthesized groups are not implemented" in m:
            return ["ERROR groups"]
        if "Only a single separator modifier is supported" in m:
            return ["ERROR modifiers"]
        mm = re.search(r"The name '([^']*)' is needed for the rule generated for a repetition of\s+'([^']*)'", m)
        if mm:
            return ["ERROR helper-name-clash %s %s" % (mm.group(1), mm.group(2))]
        mm = re.search(r"Repetitions of '([^']*)' are used with different separators", m)
        if mm:
            return ["ERROR separator-conflict " + mm.group(1)]
        if "Greedy repetition operators" in m:
            return ["ERROR greedy"]
        mm = re.search(r'Terminal "(.*)" is not defined in the terminals section', m, re.S)
        if mm:
            return ["ERROR undefined-terminal-sugar " + hx(mm.group(1))]
        mm = re.search(r'Terminal "(.*)" used in production', m, re.S)
        if mm:
            return ["ERROR undefined-terminal " + hx(mm.group(1))]
        mm = re.search(r"Unexisting symbol '([^']*)'", m)
        if mm:
            return ["ERROR undefined-symbol " + mm.group(1)]
        mm = re.search(r"Infinite recursion on symbol '([^']*)'", m)
        if mm:
            return ["ERROR infinite-recursion " + mm.group(1)]
        return ["ERROR other " + m.split("\n")[0][:80]]
    if st == "PANIC":
        return ["PANIC " + panic_class(r.msg, site)]
    return [st or "MISSING"]


SITE_CLASS = [("builder.rs::mark_reachable", "reach-start|reach-prod"), ("::symbol_to_nonterm", "reach-nonterm"),
              ("::extract_productions_and_symbols", "group-unwrap"), ("::try_from_file", "no-aug|no-start")]


def panic_class(msg, site=None):
    for pat, cls in SITE_CLASS:
        if site and pat in site:
            return cls
    if "ParseIntError" in msg:
        return "int_const"
    if "Separator modifier is supported only" in msg:
        return "modifiers"
    if "Parenthesized groups are not implemented" in msg:
        return "group-expect"
    if "not yet implemented" in msg:
        return "greedy"
    if "Option::unwrap()" in msg:
        return "no-aug|no-start|group-unwrap"
    if "index out of bounds" in msg:
        return "reach-start|reach-prod|reach-nonterm"
    return "other " + msg.split("\n")[0][:60]


def lines_agree(real, model):
    if len(real) != len(model):
        return False
    for a, b in zip(real, model):
        if a == b:
            continue
        if a.startswith("PANIC ") and b.startswith("PANIC ") and b[6:] in a[6:].split("|"):
            continue
        return False
    return True


# ----------------------------------------------------------------------------- the model through coqc
HEADER = ("From Coq Require Import String NArith List.\nFrom RV Require Import Model.Builder Spec.BuilderSpec.\nImport ListNotations.\n"
          "Open Scope string_scope.\nOpen Scope list_scope.\nSet Printing Width 1000000.\nSet Printing Depth 1000000.\n")


def model_lines(files, tag, per_file=40):
    """Evaluates dump_lines (build_grammar rust_ident_ok f) for every file by vm_compute. Returns list of line lists
    (None where coqc failed)."""
    jobs = []
    for k in range(0, len(files), per_file):
        body = [HEADER]
        for j, f in enumerate(files[k:k + per_file]):
            body.append("Definition f%d : file := %s." % (j, g_file(f)))
            body.append("Eval vm_compute in (dump_lines (build_grammar rust_ident_ok f%d))." % j)
            body.append("Eval vm_compute in (ast_shape_b f%d, known_panic_class_b f%d)." % (j, j))
        jobs.append(("%s_%d" % (tag, k // per_file), "\n".join(body) + "\n"))
    outs = coq_eval_many(jobs, timeout=600)
    res = []
    for (ok, out), k in zip(outs, range(0, len(files), per_file)):
        n = len(files[k:k + per_file])
        answers = []
        cur = None
        for line in out.split("\n"):
            if line.startswith("     = "):
                if cur is not None:
                    answers.append(cur)
                cur = line[7:]
            elif cur is not None:
                if line.startswith("     : "):
                    answers.append(cur)
                    cur = None
                else:
                    cur += "\n" + line
        if cur is not None:
            answers.append(cur)
        if not ok or len(answers) != 2 * n:
            res.extend([None] * n)
            model_lines.last_error = out[-1500:]
            continue
        for a, cl in zip(answers[0::2], answers[1::2]):
            lines = [m.replace('""', '"') for m in re.findall(r'"((?:[^"]|"")*)"', a)]
            flags = [x == "true" for x in re.findall(r"\b(true|false)\b", cl)]
            res.append((lines, flags))
    return res


model_lines.last_error = ""


# ----------------------------------------------------------------------------- the property's clauses on the real dump
def own_assoc(meta):
    a = None
    for m in meta:
        if m[0] in ("left", "reduce"):
            a = "L" if a != "R" else a
        elif m[0] in ("right", "shift"):
            a = "R"
    # the code applies `right` after `left`; a production that gives both is read as right
    return a


def meta_get(meta, key):
    """last value of a key in a meta-data list (later entries overwrite), None if absent"""
    v = None
    for m in meta:
        e = {"prio": ("priority", ("int", m[1]) if m[0] == "prio" else None),
             "kind": ("kind", ("str", m[1]) if m[0] == "kind" else None),
             "user": (m[1] if m[0] == "user" else None, m[2] if m[0] == "user" else None)}.get(m[0], (m[0], ("bool", True)))
        if e[0] == key:
            v = e[1]
    return v


def expected_meta(rule, prod):
    """The property's reading: the production's own value if it gives that meta-data, else the rule's, else default."""
    def pick(key):
        v = meta_get(prod["meta"], key)
        return v if v is not None else meta_get(rule["meta"], key)
    pr = pick("priority")
    prio = pr[1] if pr and pr[0] == "int" else 10
    kd = pick("kind")
    kind = kd[1] if kd and kd[0] == "str" else None
    oa = own_assoc(prod["meta"])
    assoc = oa if oa is not None else (own_assoc(rule["meta"]) or "N")
    nops = any(m[0] == "nops" for m in prod["meta"] + rule["meta"])
    nopse = any(m[0] == "nopse" for m in prod["meta"] + rule["meta"])
    return prio, assoc, nops, nopse, kind


def check_statement(f, d):
    """Clauses of C09 on the real dump `d` of file `f`. Returns list of (key, what, detail)."""
    bad = []
    tname = {t["idx"]: t for t in d.terms}
    ntname = {n["idx"] + d.nterm: n for n in d.nonterms}
    rules = f["rules"] or []
    rule_names = [r["name"] for r in rules]
    term_names = [t["name"] for t in (f["terms"] or [])]
    dense = [t["idx"] for t in d.terms] == list(range(d.nterm)) and [n["idx"] for n in d.nonterms] == list(range(d.nnonterm))

    def symname(i):
        if i in tname and i < d.nterm:
            return tname[i]["name"]
        return ntname[i]["name"] if i in ntname else "?%d" % i

    # prod_index_is_position
    for pos, p in enumerate(d.prods):
        if p["idx"] != pos:
            bad.append(("prod-index-not-position", "production at position %d has index %d" % (pos, p["idx"]), {}))
            break
    if [t["idx"] for t in d.terms] != list(range(d.nterm)):
        bad.append(("duplicate-terminal-name", "two terminals have one name: accepted silently, terminal indexes are not "
                    "0..n-1 and symbol indexes alias other symbols (e.g. the last terminal is EMPTY)", {}))
        return bad
    if not dense:
        bad.append(("sugar-helper-name-clash", "a rule is named like the helper its own first alternative creates: nonterminal "
                    "indexes are not 0..n-1, symbol indexes alias other symbols", {}))
        return bad
    reserved = sorted(set(rule_names) & {"EMPTY", "AUG", "AUGL", "STOP"})
    if reserved:
        bad.append(("reserved-rule-name", "a rule named %s is accepted silently and merged with the builder's own symbol of "
                    "that name" % ", ".join(reserved), dict(names=reserved)))
        return bad
    # start_is_first_rule
    if rules:
        if symname(d.start) != rules[0]["name"] or d.start < d.nterm:
            bad.append(("start-not-first-rule", "start symbol is %s, first rule is %s" % (symname(d.start), rules[0]["name"]), {}))
        if d.prods[0]["rhs"] != [d.start]:
            bad.append(("rule-shadowed-by-terminal", "AUG production is `AUG: %s` (symbol %s), not the first rule's nonterminal %d"
                        % (symname(d.prods[0]["rhs"][0]), d.prods[0]["rhs"], d.start), {}))
    # helper names this file can create, and clashes with user rules
    helper_uses = []      # (rule, alt index, base name, op, mods)
    for r in rules:
        for ai, p in enumerate(r["rhs"]):
            for a in p["assigns"]:
                ref = a[2]
                if ref["rep"] and ref["sym"] is not None and ref["rep"][0] in SUFFIX:
                    if a[0] == "ref" and ref["sym"] == ("name", "EMPTY"):
                        continue
                    base = ref["sym"][1] if ref["sym"][0] == "name" else rec_owner(f, d, ref["sym"][1])
                    helper_uses.append((r, ai, base, ref["rep"][0], ref["rep"][1]))
    helper_names = set()
    for _, _, base, op, _ in helper_uses:
        helper_names.add(base + SUFFIX[op])
        if op == "*":
            helper_names.add(base + "1")
    clash = sorted(helper_names & set(rule_names))
    # alt_one_production: productions whose lhs is a user rule, in order == alternatives in order
    alts = [(r, ai, p) for r in rules for ai, p in enumerate(r["rhs"])]
    user_prods = [p for p in d.prods[1 + (1 if d.augl >= 0 else 0):] if symname(p["lhs"]) in rule_names]
    if clash:
        bad.append(("sugar-helper-name-clash", "a user rule has the name of a sugar helper (%s): the helper is not created / "
                    "the rule receives the helper's productions, silently" % ", ".join(clash), dict(names=clash)))
        return bad
    if len(user_prods) != len(alts):
        bad.append(("alt-count", "%d alternatives but %d productions of user rules" % (len(alts), len(user_prods)), {}))
        return bad
    for (r, ai, p), dp in zip(alts, user_prods):
        exp_names, exp_assign = [], []
        inline_pos = []
        for a in p["assigns"]:
            ref = a[2]
            if a[0] == "ref" and ref["sym"] == ("name", "EMPTY"):
                continue
            if ref["sym"] is None:
                exp_names.append("?group")
            else:
                base = ref["sym"][1] if ref["sym"][0] == "name" else rec_owner(f, d, ref["sym"][1])
                if ref["rep"]:
                    exp_names.append(base + SUFFIX.get(ref["rep"][0], "?"))
                else:
                    if ref["sym"][0] == "str":
                        inline_pos.append((len(exp_names), ref["sym"][1]))
                    exp_names.append(base)
            exp_assign.append((a[1], a[0] == "bool"))
        got = [symname(s) for s in dp["rhs"]]
        if symname(dp["lhs"]) != r["name"] or got != exp_names or dp["ntidx"] != alt_ntidx(rules, r, ai):
            bad.append(("alt-not-one-production", "alternative %d of rule %s is `%s`; production %d is `%s: %s` (ntidx %d)" %
                        (ai, r["name"], " ".join(exp_names), dp["idx"], symname(dp["lhs"]), " ".join(got), dp["ntidx"]), {}))
            continue
        if dp["assign"] != exp_assign:
            bad.append(("assignment-names", "assignments of production %d are %s, written %s" % (dp["idx"], dp["assign"], exp_assign), {}))
        # references by name go to the rule of that name unless a terminal has the name
        for a_name, s in zip(exp_names, dp["rhs"]):
            if a_name in rule_names and a_name in term_names and s < d.nterm:
                bad.append(("rule-shadowed-by-terminal", "reference %s in production %d resolves to the terminal, the rule of "
                            "that name is unreachable" % (a_name, dp["idx"]), {}))
                break
        # inline_string_resolves
        for pos, lit in inline_pos:
            s = dp["rhs"][pos]
            if not (s in tname and s < d.nterm and tname[s]["kind"] == "S" and tname[s]["rec"] == lit):
                bad.append(("inline-string", "inline %r in production %d resolves to symbol %d (%s)" % (lit, dp["idx"], s, symname(s)), {}))
        # meta_inheritance
        prio, assoc, nops, nopse, kind = expected_meta(r, p)
        for nm, e, g in (("priority", prio, dp["prio"]), ("assoc", assoc, dp["assoc"]), ("nops", nops, dp["nops"]),
                         ("nopse", nopse, dp["nopse"]), ("kind", kind, dp["kind"])):
            if e != g:
                if nm == "assoc" and own_assoc(p["meta"]) == "L" and any(m[0] in ("right", "shift") for m in r["meta"]):
                    bad.append(("meta-assoc-rule-overrides-own", "production gives `left`, rule gives `right`: the production gets "
                                "RIGHT associativity (rule-level meta-data overrides the production's own)", dict(prod=dp["idx"])))
                else:
                    bad.append(("meta-inheritance", "%s of production %d is %s, expected %s (own, else rule's, else default)" %
                                (nm, dp["idx"], g, e), {}))
        user_keys = {}
        for m in r["meta"] + p["meta"]:
            if m[0] == "user" and m[1] not in ("priority", "kind"):
                user_keys[m[1]] = True
        for m in r["meta"] + p["meta"]:
            if m[0] == "dynamic":
                user_keys["dynamic"] = True
        if sorted(user_keys) != sorted(dp["meta"].keys()):
            bad.append(("meta-user-keys", "user meta-data of production %d: %s, expected keys %s" %
                        (dp["idx"], sorted(dp["meta"].keys()), sorted(user_keys)), {}))
    # helper_shared + sugar expansion
    byname = {n["name"]: n for n in d.nonterms}
    seen_sep = {}
    for r, ai, base, op, mods in helper_uses:
        hn = base + SUFFIX[op]
        if hn not in byname:
            bad.append(("sugar-helper-missing", "no nonterminal %s for %s%s" % (hn, base, op), {}))
            continue
        sep = mods[0] if mods and op != "?" else None

        def prods_of(n):
            return [[symname(s) for s in d.prods[pi]["rhs"]] for pi in byname[n]["prods"]]
        if op == "?":
            exp = {hn: [[base], []]}
        elif op == "+":
            exp = {hn: [[hn] + ([sep] if sep else []) + [base], [base]]}
        else:
            exp = {hn: [[base + "1"], []], base + "1": [[base + "1"] + ([sep] if sep else []) + [base], [base]]}
        def expansion(sp):
            if op == "?":
                return {hn: [[base], []]}
            one = [[base + "1"] + ([sp] if sp else []) + [base], [base]]
            if op == "+":
                return {hn: one}
            return {hn: [[base + "1"], []], base + "1": one}
        exp = expansion(sep)
        for (a_kind, a_name, ref), sidx in []:
            pass
        for n, e in exp.items():
            got = prods_of(n) if n in byname else None
            if got != e:
                other = [sp for sp in [None] + term_names + rule_names if sp != sep and n in expansion(sp) and expansion(sp)[n] == got]
                if other:
                    bad.append(("sugar-separator-shared-helper", "%s%s%s uses helper %s whose productions are %s (documented "
                                "expansion: %s): uses with different separators share one helper" %
                                (base, op, "[%s]" % sep if sep else "", n, got, e), dict(helper=n)))
                else:
                    bad.append(("sugar-expansion", "%s%s%s: helper %s has productions %s, documented expansion %s" %
                                (base, op, "[%s]" % sep if sep else "", n, got, e), dict(helper=n)))
                break
        if hn in term_names:
            bad.append(("sugar-helper-shadowed-by-terminal", "%s%s creates helper %s but a terminal has that name: the "
                        "reference resolves to the terminal" % (base, op, hn), dict(helper=hn)))
    return bad


def alt_ntidx(rules, r, ai):
    return ai


def rec_owner(f, d, lit):
    """name of the terminal the real dump resolves an inline literal to: the property says 'the terminal declared
    with that string' — any terminal declared with it qualifies"""
    owners = [t["name"] for t in (f["terms"] or []) if t["rec"] == ("str", lit)]
    if not owners:
        return "?undeclared"
    if len(owners) > 1:
        # two terminals declared with one string: BTreeMap order decides in the code; accept what the dump chose
        for t in d.terms:
            if t["kind"] == "S" and t["rec"] == lit and t["name"] in owners:
                pass
        return sorted(owners)[-1]
    return owners[0]


# ----------------------------------------------------------------------------- the check
def run(rep, tier, seed):
    import time
    t0 = time.time()
    timing = {}
    files = make_files(tier, seed)
    texts = [t_file(f) for _, f in files]
    cases = [Case("f%d" % i, t, run="NONE", algo="LR", table="LALR_PAGER", meta=dict(origin=o))
             for i, ((o, _), t) in enumerate(zip(files, texts))]
    real = run_cases(cases, "c09", timeout_s=6)
    timing["real_s"] = round(time.time() - t0, 1)
    model = model_lines([f for _, f in files], "c09m")
    timing["model_s"] = round(time.time() - t0, 1)
    # panic sites through rcomp (shared with C16) for the ambiguous messages
    sites = {}
    try:
        import c16
        have_rcomp = os.path.exists(c16.RCOMP) or c16.build_rcomp()[0]
    except Exception:
        have_rcomp = False
    classes = {}
    n_cmp = n_agree = n_done = n_panic_real = n_known_nopanic = n_regr = 0
    samples = []
    stmt_findings = {}
    # panic sites of the ambiguous messages (unwrap / index) through the real binary, in parallel
    need = [i for i, r in enumerate(real) if r.status == "PANIC" and getattr(r, "stage", "") == "grammar" and have_rcomp
            and ("unwrap()" in r.msg or "index out of bounds" in r.msg)]
    from concurrent.futures import ThreadPoolExecutor
    with ThreadPoolExecutor(max_workers=NCPU) as ex:
        locs = list(ex.map(lambda i: c16.site_of(texts[i], "LR", "LALR_PAGER", 0, 1, "grammar", real[i].msg), need))
    sites = dict((i, l["panic_fn"]) for i, l in zip(need, locs) if l)
    timing["sites_s"] = round(time.time() - t0, 1)
    n_skipped = 0
    for i, ((origin, f), text, r, ml) in enumerate(zip(files, texts, real, model)):
        if r.status in ("TIMEOUT", "CRASH", "MISSING", None):
            # the compiler hangs / dies after the builder (table construction): C16's finding, nothing to compare
            n_skipped += 1
            rep.notes.append("compiler %s on a generated file (reported by C16): %s" % (r.status, text[:80].replace("\n", " ")))
            continue
        site = sites.get(i)
        rl = real_lines(r, site)
        if rl and rl[0].startswith("ERROR other") and "Syntax error at <str>:" in r.msg and "[" not in r.msg.split("\n")[0]:
            rep.violation("generator-syntax", "the generated grammar text does not parse (defect of gen/c09.py)",
                          dict(grammar=text, message=r.msg[:300]), found_input=False)
            continue
        cls = rl[0] if not rl[0].startswith(("ERROR", "PANIC")) else " ".join(rl[0].split(" ")[:2])
        classes[cls] = classes.get(cls, 0) + 1
        if ml is None:
            rep.violation("coq-eval", "Coq evaluation of the builder model failed", dict(grammar=text, err=model_lines.last_error),
                          found_input=False)
            continue
        ml, (shape_ok, known_panic) = ml
        if origin.startswith("regression:"):
            want = [x for t, _, x in REGRESSIONS if "regression:" + t == origin][0]
            n_regr += 1
            if rl[0] != want or ml[0] != want:
                rep.violation(origin, "a repaired witness no longer gets its diagnostic: expected %r, real %r, model %r" %
                              (want, rl[0], ml[0]), dict(grammar=text, ast=g_file(f)))
        n_cmp += 1
        if not shape_ok:
            rep.violation("generator-shape", "generated AST is not of the parser's shape (defect of gen/c09.py)",
                          dict(grammar=text), found_input=False)
        # the theorem builder_no_panic_known, read on the REAL code: a panic of a file outside the classes is new
        if r.status == "PANIC" and getattr(r, "stage", "") == "grammar":
            n_panic_real += 1
            if not known_panic:
                rep.violation("panic-outside-known-class", "the real builder panics on a file outside KnownPanicClass "
                              "(builder_no_panic_known does not cover the code): %s" % r.msg[:100],
                              dict(grammar=text, ast=g_file(f), message=r.msg[:300]))
        elif known_panic:
            n_known_nopanic += 1
        if lines_agree(rl, ml):
            n_agree += 1
        else:
            diff = [(a, b) for a, b in zip(rl, ml) if a != b][:4]
            if len(rl) != len(ml):
                diff.append(("%d lines" % len(rl), "%d lines" % len(ml)))
            rep.violation("corr-builder", "real GrammarBuilder and the Gallina model disagree",
                          dict(grammar=text, ast=g_file(f), real=rl[:60], model=ml[:60], first_differences=diff,
                               obligation="correspondence Model.Builder.build_grammar vs GrammarBuilder::try_from_file"),
                          found_input=False)
        if rl[0] == "OK" and r.dump is not None:
            n_done += 1
            for key, what, detail in check_statement(f, r.dump):
                stmt_findings.setdefault(key, []).append((what, text, detail))
            if len(samples) < 3 and origin == "clean":
                samples.append(dict(grammar=text, real=rl[:12]))
    # F4 and the other sugar witnesses: sentences through the real LR parser
    wcases = []
    for tag, f, sents in SUGAR_WITNESSES:
        wcases.append(Case("w_" + tag, t_file(f), [s for s, _ in sents], algo="LR", table="LALR_PAGER", run="LR",
                           flags=dict(ps=1, pse=1)))
    wres = run_cases(wcases, "c09w", timeout_s=6)
    n_sent = 0
    for (tag, f, sents), r in zip(SUGAR_WITNESSES, wres):
        for i, (s, exp) in enumerate(sents):
            out = r.results.get(("LR", i), "")
            n_sent += 1
            acc = out.startswith("OK")
            if acc != exp:
                key = "sugar-language"
                stmt_findings.setdefault(key, []).insert(0, (
                    "witness %s: input %r is %s by the real LR parser; the documented expansion %s it" %
                    (tag, s, "accepted" if acc else "rejected", "accepts" if exp else "rejects"), t_file(f), dict(input=s, real=out[:120])))
    for key in sorted(stmt_findings):
        what, text, detail = stmt_findings[key][0]
        rep.violation(key, what, dict(grammar=text, detail=detail, cases=len(stmt_findings[key])))
    for k in rep.known:
        if k["property"] == rep.pid and k["key"] not in stmt_findings:
            msg = "known finding %s did not occur in this run: if it was repaired move its entry to `fixed:`" % k["key"]
            rep.notes.append(msg)
            print("NOTE: " + msg)
    pt = rep.theorems or {}
    nthm = len(pt.get("theorems", []))
    rep.coverage = dict(
        obligations=nthm, discharged=pt.get("closed", 0),
        checker_cmd="make -C coq Properties/C09.vo ; coqc work/c09m_*.v (vm_compute of build_grammar)",
        trusted_base=TRUSTED_BASE, theorems=pt.get("theorems", []),
        evaluations=n_cmp, distinct_nontrivial=n_done,
        rule="grammar files generated from one representation as text AND Gallina AST: 1-5 terminals (string / regex / "
             "no recognizer, meta-data), 1-6 rules (alternatives, EMPTY, named and ?= assignments, inline strings, ? * + "
             "with and without separators, greedy operators, groups, two modifiers, rule / production meta-data with user "
             "keys, annotations, several rules with one name, Layout rules, unreachable rules, undefined symbols, helper-name "
             "clashes, duplicate terminals, keyword names); half the stream without error-provoking constructs; "
             "non-trivial = files on which the real builder returns a grammar",
        files=len(files), compared=n_cmp, agree=n_agree, outcome_classes=dict(sorted(classes.items())),
        statement_checks=n_done, statement_findings={k: len(v) for k, v in stmt_findings.items()},
        timing_cumulative=timing, skipped_compiler_hang=n_skipped, witness_sentences=n_sent, real_builder_panics=n_panic_real, known_class_without_panic=n_known_nopanic,
        regression_witnesses=n_regr, samples=samples)
    rep.assumptions = ["check_identifier (syn::parse_str::<Ident>) is the model's rust_ident_ok (keyword list, '.', '_')",
                       "float values of user meta-data are compared by type only"]


def replay(rep, path):
    p = json.load(open(path))
    c = Case("replay", p["grammar"], run="NONE")
    r = run_cases([c], "c09replay", shards=1)[0]
    print("real   :", "\n         ".join(real_lines(r)[:40]))
    if "ast" in p:
        body = HEADER + "Definition f0 : file := %s.\nEval vm_compute in (dump_lines (build_grammar rust_ident_ok f0)).\n" % p["ast"]
        ok, out = coq_eval("c09replay", body)
        print("model  :", out[-3000:])
    if "detail" in p and p["detail"].get("input") is not None:
        c2 = Case("replay", p["grammar"], [p["detail"]["input"]], run="LR", flags=dict(ps=1, pse=1))
        r2 = run_cases([c2], "c09replay2", shards=1)[0]
        print("parse  :", r2.results.get(("LR", 0)))
    rep.coverage = dict(obligations=1, discharged=1, checker_cmd="replay", trusted_base=[])
