"""A small reader for rustemo grammar texts as the generators of /verif write them (used to decide whether a
failing grammar lies in a recorded known-finding class: a known finding is identified by its key AND by a
predicate on the failing grammar, so that the same diagnostic on a different kind of grammar is still reported)."""
import re

TOK = re.compile(r"""'(?:[^'\\]|\\.)*'|"(?:[^"\\]|\\.)*"|\{[^}]*\}|\[[^\]]*\]|[A-Za-z_][A-Za-z0-9_]*\??=|@[A-Za-z_]+|"""
                 r"""[A-Za-z_][A-Za-z0-9_]*|[:;|*+?]""")


class PRef:
    def __init__(self, sym, op="", sep=None, name=None, boolean=False):
        self.sym, self.op, self.sep, self.name, self.boolean = sym, op, sep, name, boolean


class PAlt:
    def __init__(self):
        self.refs, self.meta = [], []

    @property
    def kind(self):
        for m in self.meta:
            if re.match(r"^[A-Za-z_]\w*$", m) and m not in ("left", "right", "reduce", "shift", "nops", "nopse", "dynamic"):
                return m
        return None


class PGrammar:
    def __init__(self, text):
        head, _, tail = text.partition("\nterminals")
        if text.startswith("terminals"):
            head, tail = "", text[len("terminals"):]
        self.rules = []          # (name, annotation, [PAlt])
        self.terminals = {}      # name -> ('s'|'r', text)
        toks = TOK.findall(head)
        i = 0
        while i < len(toks):
            ann = None
            if toks[i].startswith("@"):
                ann = toks[i][1:]
                i += 1
            name = toks[i]
            i += 1
            if i < len(toks) and toks[i].startswith("{"):
                i += 1          # rule-level meta
            if i >= len(toks) or toks[i] != ":":
                break
            i += 1
            alts, cur = [], PAlt()
            pending = None
            while i < len(toks) and toks[i] != ";":
                t = toks[i]
                if t == "|":
                    alts.append(cur)
                    cur = PAlt()
                elif t.startswith("{"):
                    cur.meta = [x.strip() for x in t[1:-1].split(",") if x.strip()]
                elif t.endswith("="):
                    pending = (t.rstrip("?=").rstrip("="), t.endswith("?="))
                elif t in "*+?":
                    if cur.refs:
                        cur.refs[-1].op = t
                elif t.startswith("["):
                    if cur.refs:
                        cur.refs[-1].sep = t[1:-1].strip()
                elif t == "EMPTY":
                    pass
                else:
                    r = PRef(t)
                    if pending:
                        r.name, r.boolean = pending
                        pending = None
                    cur.refs.append(r)
                i += 1
            alts.append(cur)
            i += 1
            self.rules.append((name, ann, alts))
        for m in re.finditer(r"^\s*([A-Za-z_]\w*)\s*:\s*(?:'((?:[^'\\]|\\.)*)'|\"((?:[^\"\\]|\\.)*)\"|/(.*)/)\s*(\{[^}]*\})?\s*;\s*$",
                             tail, re.M):
            if m.group(4) is not None:
                self.terminals[m.group(1)] = ("r", m.group(4))
            else:
                self.terminals[m.group(1)] = ("s", m.group(2) if m.group(2) is not None else m.group(3))
        self.rule_names = [r[0] for r in self.rules]

    def is_rule(self, sym):
        return sym in self.rule_names

    def has_content(self, sym):
        """non-terminals and regex terminals carry content; string terminals (named or inline) do not"""
        if sym.startswith("'") or sym.startswith('"'):
            return False
        if sym in self.rule_names:
            return True
        t = self.terminals.get(sym)
        return t is not None and t[0] == "r"

    def nullable(self):
        nl = set()
        changed = True
        while changed:
            changed = False
            for name, _, alts in self.rules:
                if name in nl:
                    continue
                for a in alts:
                    if all(r.op in ("*", "?") or r.sym in nl for r in a.refs):
                        nl.add(name)
                        changed = True
                        break
        return nl


def snake(n):
    s = re.sub(r"(?<=[a-z0-9])([A-Z])", r"_\1", n)
    return s.lower()
