"""C08 — the generated parser source encodes exactly the computed table.

(T) Properties/C08.v: arrays_roundtrip, functions_roundtrip, layouts_agree, prodkind_roundtrip,
    prodkind_total, prodkind_order (unbounded in the table): decoding either generated encoding answers every action / goto /
    expected-token query exactly as `cell` / `goto` / `s_sorted` of Model/Table.v.
(V, exhaustive per generated parser) the REAL generator (`Settings::process_grammar` run from the
    build.rs of a scratch crate) writes the parser source for grammars x {Arrays, Functions} x
    {LR, GLR}; rustc compiles it; the crate's main.rs queries the generated `ParserDefinition` for
    EVERY state x token, EVERY state x nonterminal (goto under catch_unwind) and every state
    (expected_token_kinds), longest_match(), grammar_order(), State::default_layout(), the enum
    discriminants and From<ProdKind> for NonTermKind, and the answers are compared with the table
    dumped through the `verif` hook with the same Settings value. The well-formedness hypothesis of
    the round-trip theorems (`enc_wf_b`) is evaluated in Coq (vm_compute) on every real table, and the
    source text of PARSER_DEFINITION (read back with syn in build.rs) is compared, in Coq, with
    `encode_arrays` / `encode_functions` of the dumped table (ties Model/Encode.v to the generator).
(C) both layouts and the dynamic harness route (`rv`) parse the same inputs identically."""
import os
import random
import re
import time

from rvlib import *  # noqa
import grammars as GR
import batch as B
from common import TRUSTED_BASE

LEVEL = "translation_validation"
HERE = os.path.dirname(os.path.abspath(__file__))

LEXICAL = [
    ("kw-regex-prio", """S: Kw Id Num | Id Eq Num | Kw Kw;
terminals
Kw: 'if';
Id: /[a-z]+/;
Num: /\\d+/ {15};
Eq: '=';
""", ["if x 3", "x = 3", "if if", "if = 3", "x 3", "", "if x", "abc = 42"]),
    ("layout-rule", """S: A+;
A: Ta | Num;
Layout: LayoutItem*;
LayoutItem: WS | Comment;
terminals
Ta: 'a';
Num: /\\d+/;
WS: /\\s+/;
Comment: /\\/\\/.*/;
""", ["a 1 a", "a // c\n 2", "a", "", "a b", "1 2 3 a"]),
    ("sugar-sep-opt", """S: A*[Comma] B? C+;
A: Ta;
B: Tb;
C: Tc | Num;
terminals
Ta: 'a';
Tb: 'b';
Tc: 'c';
Comma: ',';
Num: /\\d+(\\.\\d+)?/;
""", ["a, a b c", "c", "b c 1.5", "a, c", "a,", "a a c", "a, a, a b c c 2"]),
    ("unreachable", """S: Ta S | Ta;
X: Tb X | Y;
Y: Tb;
terminals
Ta: 'a';
Tb: 'b';
Tc: 'c';
""", ["a", "a a a", "b", "", "a c"]),
    ("kinds-and-assign", """E: left=E '+' right=E {Add, 1, left}
 | left=E '*' right=E {Mul, 2, left}
 | '(' E ')' {Paren}
 | Num {Num};
terminals
Plus: '+';
Mul: '*';
LP: '(';
RP: ')';
Num: /\\d+/;
""", ["1 + 2 * 3", "(1 + 2) * 3", "1 +", "1 2", "((1))", "1 * 2 * 3 + 4"]),
    ("overlap-longest", """S: A | B | C;
A: Tab;
B: Tabc;
C: Ta Tb;
terminals
Ta: 'a';
Tb: 'b';
Tab: 'ab';
Tabc: /abc?/;
""", ["ab", "abc", "a b", "a", "abcd"]),
]


class TextG:
    """A hand-written grammar text with its inputs (same duck type as grammars.G where needed)."""

    def __init__(self, shape, text, inputs):
        self.shape = shape
        self._text = text
        self.inputs = inputs

    def text(self, inline=False):
        return self._text

    def key(self):
        return self._text


def make_grammars(tier, seed):
    rng = random.Random(seed * 7919 + 8)
    gs = list(GR.corpus())
    nrand, nann, nexpr = (26, 8, 4) if tier == "quick" else (220, 80, 30)
    for _ in range(nrand):
        gs.append(GR.random_grammar(rng))
    for _ in range(nann):
        gs.append(GR.annotate(rng, GR.random_grammar(rng)))
    for _ in range(nexpr):
        gs.append(GR.expr_grammar(rng))
    out, seen = [], set()
    for g in gs:
        if g.key() in seen:
            continue
        seen.add(g.key())
        valid, longer, invalid, _ = GR.inputs_for(g, rng, maxlen=4, nvalid=8, ninvalid=5)
        g.inputs = [GR.render(w) for w in list(valid) + list(longer)[:2] + list(invalid)]
        out.append(g)
    for shape, text, inputs in LEXICAL:
        out.append(TextG(shape, text, inputs))
    return out, rng


def configs_for(gi, g, rng):
    """the four generated parsers of one grammar + the two harness cases"""
    lr_table = rng.choice(["LALR", "LALR_PAGER"])
    lr = dict(algo="LR", table=lr_table, ps=int(rng.random() < 0.5), pse=int(rng.random() < 0.7), go=1,
              ms=1, lm=int(rng.random() < 0.8))
    glr = dict(algo="GLR", table="LALR_RN", ps=0, pse=0, go=int(rng.random() < 0.3), ms=int(rng.random() < 0.8),
               lm=int(rng.random() < 0.8))
    return lr, glr


def harness_flags(s):
    return dict(ps=s["ps"], pse=s["pse"], ms=s["ms"], lm=s["lm"], go=s["go"], partial=0, skipws=1, fancy=0)


# --------------------------------------------------------------------- expectation from the dump
def symname(d, sym):
    return d.terms[sym]["name"] if sym < d.nterm else d.nonterms[sym - d.nterm]["name"]


def aug_prods(d):
    """indexes of the productions of AUG / AUGL (absent from ProdKind)"""
    special = {d.aug}
    if d.augl >= 0:
        special.add(d.augl)
    return [p["idx"] for p in d.prods if p["lhs"] in special]


def prodkind_map(d):
    """production index -> ProdKind discriminant (grammar.productions(): all but AUG/AUGL, in order)"""
    skip = set(aug_prods(d))
    m, k = {}, 0
    for p in d.prods:
        if p["idx"] in skip:
            continue
        m[p["idx"]] = k
        k += 1
    return m


def expected_lines(d, settings):
    """What main.rs must print for this dump (generated-enum index space)."""
    pk = prodkind_map(d)
    L = []
    L.append("NAMES State " + " ".join("%sS%d" % (symname(d, s["sym"]), s["idx"]) for s in d.states))
    L.append("NAMES TokenKind " + " ".join(t["name"] for t in d.terms))
    L.append("NAMES NonTermKind " + " ".join(n["name"] for n in d.nonterms))
    names = []
    for p in d.prods:
        if p["idx"] in pk:
            nt = d.nonterms[p["lhs"] - d.nterm]["name"]
            names.append(nt + (p["kind"] if p["kind"] else "P%d" % (p["ntidx"] + 1)))
    L.append("NAMES ProdKind " + " ".join(names))
    L.append("DEFAULTS 0 0")
    L.append("LAYOUT %d" % (-1 if d.layout_state is None else d.layout_state))
    L.append("LM %d" % int(settings["lm"]))
    L.append("GO %d" % int(settings["go"]))
    for p in d.prods:
        if p["idx"] in pk:
            L.append("PRODNT %d %d %d" % (pk[p["idx"]], pk[p["idx"]], p["lhs"] - d.nterm))
    for k, s in enumerate(d.states):
        L.append("STATE %d %d" % (k, s["idx"]))
        for t in range(d.nterm):
            acts = s["actions"].get(t, [])
            if not acts:
                continue
            ws = []
            for a in acts:
                if a[0] == "S":
                    ws.append("S%d" % a[1])
                elif a[0] == "R":
                    ws.append("R%s,%d" % (pk.get(a[1], "AUG%d" % a[1]), a[2]))
                else:
                    ws.append("A")
            L.append("ACT %d %s" % (t, " ".join(ws)))
        for n in range(d.nnonterm):
            if n in s["gotos"]:
                L.append("GOTO %d %d" % (n, s["gotos"][n]))
            else:
                L.append("GOTOPANIC %d" % n)
        L.append(("SORTED " + " ".join("%d:%d" % (t, int(f)) for t, f in s["sorted"])).rstrip())
    return L


GOTO_PANICS = {
    "arrays": ["called `Option::unwrap()` on a `None` value"],
    "functions": ["Invalid GOTO entry!", "Invalid terminal kind ("],
}


def actual_lines(it):
    """normalise main.rs output: goto panic messages are classified, results split off"""
    lines, results, badpanic = [], {}, []
    for l in it.output:
        if l.startswith("RESULT "):
            w = l.split(" ", 3)
            results[int(w[2])] = w[3]
        elif l.startswith("GOTOPANIC "):
            w = l.split(" ")
            msg = unhx(w[2]).decode(errors="replace")
            if not any(msg.startswith(x) for x in GOTO_PANICS[it.settings["layout"]]):
                badpanic.append((w[1], msg))
            lines.append("GOTOPANIC " + w[1])
        elif l == "" or l.startswith("SKIPREST ") or l.startswith("BEGIN "):
            continue
        else:
            lines.append(l.rstrip() if l.startswith("SORTED") else l)
    return lines, results, badpanic


def first_diff(exp, act):
    """locate the first differing query: (state, line expected, line actual)"""
    state = None
    for i in range(max(len(exp), len(act))):
        e = exp[i] if i < len(exp) else "<missing>"
        a = act[i] if i < len(act) else "<missing>"
        if e.startswith("STATE "):
            state = e.split(" ")[1]
        if e != a:
            return dict(state=state, expected=e, actual=a, line=i)
    return None


def norm_outcome(s, prod_shift):
    """canonical outcome -> comparable form: production indexes of the harness (table indexes) are
    mapped to ProdKind discriminants by the caller's shift; the value-pointer field of leaves
    is dropped (the generated string recognizer returns its 'static literal, the harness a slice)."""
    if s is None:
        return None
    s = re.sub(r"\(T (\S+) (\S+) (\S+) (\S+) (\S+) \S+\)", r"(T \1 \2 \3 \4 \5)", s)
    if prod_shift:
        s = re.sub(r"\(N (\d+) ", lambda m: "(N %d " % (int(m.group(1)) - prod_shift), s)
    return s


# --------------------------------------------------------------------- Coq side: hypotheses on real tables
COQ_HEADER = ("From RV Require Import Model.Table Model.Encode.\nOpen Scope nat_scope.\n")


def parse_enc(it, d):
    """ENC lines written by build.rs (source text of PARSER_DEFINITION read with syn) -> Gallina terms.
    Names are resolved through the generated enums' variant order (NAMES lines)."""
    names = {}
    for l in it.output:
        if l.startswith("NAMES "):
            w = l.split(" ")
            names[w[1]] = {n: i for i, n in enumerate(w[2:])}
    return names


def coq_wf_jobs(tables, per_file=24):
    """tables: list of (tag, dump). One Eval per table: [enc_wf_b T; arrays answers = table;
    functions answers = table] computed by the model on the REAL table."""
    jobs = []
    for k in range(0, len(tables), per_file):
        chunk = tables[k:k + per_file]
        body = [COQ_HEADER]
        for n, (tag, d) in enumerate(chunk):
            body.append("Definition T%d := %s." % (n, gl_table(d)))
            body.append("Eval vm_compute in [enc_wf_b %d %d T%d; roundtrip_arrays_b %d %d T%d; "
                        "roundtrip_functions_b %d %d T%d]." % (d.nterm, d.nnonterm, n, d.nterm, d.nnonterm, n,
                                                                 d.nterm, d.nnonterm, n))
        jobs.append(("c08_wf_%d" % (k // per_file), "\n".join(body) + "\n", [t for t, _ in chunk]))
    return jobs


# --------------------------------------------------------------------- source-text correspondence (ENC)
DECODERS = {
    "arrays": {
        "actions": "{PARSER_DEFINITION.actions[stateasusize][tokenasusize].iter().copied()"
                   ".take_while(|a|!matches!(a,Action::Error)).collect()}",
        "goto": "{PARSER_DEFINITION.gotos[stateasusize][nontermasusize].unwrap()}",
        "expected_token_kinds": "{PARSER_DEFINITION.token_kinds[stateasusize].iter().map_while(|t|*t).collect()}",
    },
    "functions": {
        "actions": "{PARSER_DEFINITION.actions[stateasusize](token)}",
        "goto": "{PARSER_DEFINITION.gotos[stateasusize](nonterm)}",
        "expected_token_kinds": "{PARSER_DEFINITION.token_kinds[stateasusize].iter().map_while(|t|*t).collect()}",
    },
}


def check_decoders(enc_text, layout, settings):
    """The bodies of the generated `impl ParserDefinition` are the decoders modelled by dec_* in
    Model/Encode.v; their text is pinned here. Returns a list of differences."""
    want = dict(DECODERS[layout])
    want["longest_match"] = "{%s}" % ("true" if settings["lm"] else "false")
    want["grammar_order"] = "{%s}" % ("true" if settings["go"] else "false")
    got = {}
    for line in enc_text.split("\n"):
        w = line.split("\t")
        if w[0] == "DECODER":
            got[w[1]] = w[2]
    return [(k, want.get(k), got.get(k)) for k in sorted(set(want) | set(got)) if want.get(k) != got.get(k)]


def enc_terms(enc_text, layout, names, d):
    """enc_text: the `enc/<name>.txt` file written by build.rs. Returns a Gallina term of type
    enc_arrays / enc_functions (Model/Encode.v) or raises ValueError."""
    st, tk, nk, pk = names["State"], names["TokenKind"], names["NonTermKind"], names["ProdKind"]
    inv_pk = {}
    pkm = prodkind_map(d)
    for idx, disc in pkm.items():
        inv_pk[disc] = idx

    def act(a):
        if a == "Error":
            return "EErr"
        if a == "Accept":
            return "EAct Accept"
        m = re.match(r"Shift\(State::(\w+)\)$", a)
        if m:
            return "EAct (Shift %d)" % st[m.group(1)]
        m = re.match(r"Reduce\(PK::(\w+),(\d+)(?:usize)?\)$", a)
        if m:
            return "EAct (Reduce %d %d)" % (inv_pk[pk[m.group(1)]], int(m.group(2)))
        raise ValueError("action syntax " + a)

    def optstate(x):
        if x == "None":
            return "None"
        m = re.match(r"Some\(State::(\w+)\)$", x)
        if not m:
            raise ValueError("goto syntax " + x)
        return "Some %d" % st[m.group(1)]

    def tokk(x):
        if x == "None":
            return "None"
        m = re.match(r"Some\(\(TK::(\w+),(true|false)\)\)$", x)
        if not m:
            raise ValueError("token kind syntax " + x)
        return "Some (%d, %s)" % (tk[m.group(1)], m.group(2))

    sect = {}
    for line in enc_text.split("\n"):
        if not line:
            continue
        w = line.split("\t")
        sect.setdefault(w[0], []).append(w[1:])
    tks = gl_list([gl_list([tokk(x) for x in row[1:]]) for row in sect.get("TOKENKINDS", [])])
    if layout == "arrays":
        rows = {}
        for row in sect.get("ACTIONS", []):
            rows.setdefault(int(row[0]), []).append(gl_list([act(x) for x in row[2:]]))
        acts = gl_list([gl_list(rows[k]) for k in sorted(rows)])
        gts = gl_list([gl_list([optstate(x) for x in row[1:]]) for row in sect.get("GOTOS", [])])
        return "mkEncArrays %s %s %s" % (acts, gts, tks)
    fns = {}
    for row in sect.get("ACTIONFN", []):
        # name, then arms "TK::X=>a;b" and optionally "_=>"
        arms, catch = [], "false"
        for arm in row[1:]:
            pat, body = arm.split("=>", 1)
            if pat == "_":
                if body != "vec![]":
                    raise ValueError("catch-all arm returns " + body)
                catch = "true"
            else:
                m = re.match(r"TK::(\w+)$", pat)
                if not m:
                    raise ValueError("arm pattern " + pat)
                arms.append("(%d, %s)" % (tk[m.group(1)], gl_list([act(x) for x in body.split(";") if x])))
        fns[row[0]] = "mkActFn %s %s" % (gl_list(arms), catch)
    gfns = {}
    for row in sect.get("GOTOFN", []):
        arms = []
        for arm in row[1:]:
            pat, body = arm.split("=>", 1)
            if pat == "_":
                if not body.lstrip("{").startswith("panic!"):
                    raise ValueError("goto catch-all is not a panic: " + body)
            else:
                m = re.match(r"NonTermKind::(\w+)$", pat)
                m2 = re.match(r"State::(\w+)$", body)
                if not m or not m2:
                    raise ValueError("goto arm " + arm)
                arms.append("(%d, %d)" % (nk[m.group(1)], st[m2.group(1)]))
        gfns[row[0]] = "GotoFn %s" % gl_list(arms)
    for row in sect.get("GOTOINVALID", []):
        if not row[1].lstrip("{").startswith("panic!"):
            raise ValueError("goto_invalid is not a panic: " + row[1])
        gfns[row[0]] = "GotoInvalid"
    afs = gl_list(["(%s)" % fns[x] for x in sect["ACTIONTABLE"][0]])
    gfs = gl_list(["(%s)" % gfns[x] for x in sect["GOTOTABLE"][0]])
    return "mkEncFunctions %s %s %s" % (afs, gfs, tks)


def run(rep, tier, seed):
    t_start = time.time()
    gs, rng = make_grammars(tier, seed)
    main_rs = open(os.path.join(HERE, "c08_main.rs")).read()
    items, cases, groups = [], [], []
    ncorpus = len(GR.corpus())
    for gi, g in enumerate(gs):
        lr, glr = configs_for(gi, g, rng)
        text = g.text(inline=(gi % 3 == 0)) if not isinstance(g, TextG) else g.text()
        grp = dict(gi=gi, g=g, text=text, items={}, cases={})
        for cfg in (lr, glr):
            for layout in ("arrays", "functions"):
                name = "g%d%s%s" % (gi, cfg["algo"].lower(), layout[0])
                # quick tier: every second random grammar is only table-compared (exhaustively), not
                # parsed (each parsed module instantiates the whole generic runtime once more); the lexer
                # tag "noparse" means default lexer + no parse arm in c08_main.rs
                noparse = (tier == "quick" and not isinstance(g, TextG) and gi >= ncorpus and gi % 2 == 1)
                it = B.Item(name, text, dict(cfg, layout=layout, builder="generic",
                                             lexer="noparse" if noparse else "default"),
                            inputs=[] if noparse else g.inputs, meta=dict(gi=gi, shape=g.shape))
                items.append(it)
                grp["items"][(cfg["algo"], layout)] = it
            c = Case("g%d_%s" % (gi, cfg["algo"]), text, [] if noparse else g.inputs, algo=cfg["algo"],
                     table=cfg["table"],
                     run=cfg["algo"], flags=harness_flags(cfg), meta=dict(gi=gi))
            grp["cases"][cfg["algo"]] = len(cases)
            cases.append(c)
        groups.append(grp)
    per_member = 24 if tier == "quick" else 40
    bt = B.Batch("c08", items, main_rs, per_member=per_member, enc=True)
    # the dynamic route runs while cargo builds
    from concurrent.futures import ThreadPoolExecutor
    with ThreadPoolExecutor(max_workers=2) as ex:
        fut = ex.submit(run_cases, cases, "c08", max(2, NCPU // 4), 5, 0)
        ok = bt.go()
        hres = fut.result()
    rep.notes.append("batch timings: %s (members=%d, parsers=%d)" % (bt.timings, len(bt.members), len(items)))
    if not ok:
        rep.notes.append("cargo: %s" % bt.build_log[-1500:])

    n_parsers = n_cells = n_gen_err = n_gen_lr_conflict = 0
    n_results = n_results_ok = n_timeouts = n_panics = 0
    n_enc = 0
    samples, shapes = [], {}
    tables = []
    by_cfg = {}
    goto_panic_classes = {}
    gen_err_classes = {}
    enc_jobs = []
    for grp in groups:
        for (algo, layout), it in grp["items"].items():
            base = dict(grammar=grp["text"], settings=it.settings, parser=it.name)
            if it.gen_status != "OK":
                if it.gen_status == "ERR":
                    n_gen_err += 1
                    cls = re.sub(r"[^A-Za-z ]+", " ", it.gen_msg.split("\n")[0])[:60].strip()
                    gen_err_classes[cls] = gen_err_classes.get(cls, 0) + 1
                    if "not deterministic" in it.gen_msg:
                        n_gen_lr_conflict += 1
                    continue
                if it.gen_status == "PANIC":
                    n_gen_err += 1
                    rep.notes.append("generator panic on %s (C16's business): %s at %s" % (
                        it.name, it.gen_msg[:100], it.gen_loc))
                    continue
                rep.violation("generator-output-" + it.gen_status.lower(),
                              "the generator reported success but its output is unusable: " + it.gen_msg,
                              base, found_input=True)
                continue
            if it.excluded or it.rustc_errors:
                e = it.rustc_errors[0] if it.rustc_errors else ("?", "?", "?", 0, "")
                rep.violation("rustc-%s" % e[0], "rustc rejects the generated parser (C11's subject; the C08 "
                              "comparison cannot run): " + e[1], dict(base, rustc=e[4]), found_input=True)
                continue
            if it.output is None or not getattr(it, "complete", False):
                rep.violation("comparison-program-died", "the comparison program produced no complete answer for "
                              "this parser", dict(base, output_tail=(it.output or [])[-6:], run_errors=bt.run_errors),
                              found_input=False)
                continue
            dl = it.dump_text.split("\n") if it.dump_text else []
            if not dl or dl[0] != "OK":
                rep.violation("dump-missing", "generator accepted the grammar but the hook dump is not OK: %s"
                              % (dl[0] if dl else ""), base, found_input=False)
                continue
            d = parse_dump(dl[1:])
            it.dump = d
            exp = expected_lines(d, it.settings)
            act, results, badpanic = actual_lines(it)
            it.results = results
            n_parsers += 1
            by_cfg[(algo, layout)] = by_cfg.get((algo, layout), 0) + 1
            shapes[grp["g"].shape] = shapes.get(grp["g"].shape, 0) + 1
            n_cells += len(d.states) * (d.nterm + d.nnonterm + 1)
            df = first_diff(exp, act)
            if df is not None:
                kind = (df["expected"].split(" ")[0] or "line").lower()
                rep.violation("cell-mismatch-%s-%s" % (layout, kind),
                              "the compiled generated parser answers a query differently from the computed table",
                              dict(base, **df), found_input=True)
                continue
            if badpanic:
                rep.violation("goto-panic-undocumented", "an undefined goto does not fail with the documented panic",
                              dict(base, panics=badpanic[:5]), found_input=True)
            for l in it.output:
                if l.startswith("GOTOPANIC "):
                    msg = unhx(l.split(" ")[2]).decode(errors="replace")[:24]
                    goto_panic_classes[(layout, msg)] = goto_panic_classes.get((layout, msg), 0) + 1
            if layout == "arrays":
                tables.append((it.name, d))
            enc_path = os.path.join(bt.members[it.member][1], "enc", it.name + ".txt")
            if os.path.exists(enc_path):
                try:
                    names = parse_enc(it, d)
                    enc_text = open(enc_path).read()
                    dd = check_decoders(enc_text, layout, it.settings)
                    if dd:
                        rep.violation("decoder-text-" + layout, "the generated `impl ParserDefinition` is not the "
                                      "decoder modelled in Model/Encode.v (method, modelled, generated): %s" % dd[:3],
                                      base, found_input=True)
                    term = enc_terms(enc_text, layout, names, d)
                    enc_jobs.append((it, d, term))
                except (ValueError, KeyError, IndexError) as e:
                    rep.violation("source-shape-" + layout, "PARSER_DEFINITION in the generated source does not have "
                                  "the shape modelled in Model/Encode.v: %r" % (e,), base, found_input=True)
            else:
                rep.violation("source-shape-" + layout, "build.rs could not read PARSER_DEFINITION back from the "
                              "generated source", base, found_input=True)
        # (ii) the two layouts and the dynamic route parse identically
        for algo in ("LR", "GLR"):
            a, f = grp["items"][(algo, "arrays")], grp["items"][(algo, "functions")]
            h = hres[grp["cases"][algo]]
            if not hasattr(a, "results") or not hasattr(f, "results"):
                continue
            if a.settings["lexer"] == "noparse":
                continue
            d = a.dump
            shift = len(aug_prods(d))
            # same Settings on both sides: the dump texts must coincide
            if h.dump_lines and a.dump_text:
                ht = [l for l in h.dump_lines if l and l != "END"]
                at = [l for l in a.dump_text.split("\n")[1:] if l and l != "END"]
                if ht != at:
                    rep.violation("harness-settings-drift", "the dump of the batch build.rs and of the harness differ "
                                  "for the same grammar and settings (defect of this machinery)",
                                  dict(grammar=grp["text"], settings=a.settings), found_input=False)
                    continue
            for i, inp in enumerate(grp["g"].inputs):
                ra, rf = a.results.get(i), f.results.get(i)
                rh = norm_outcome(h.results.get((algo, i)), shift)
                ra, rf = norm_outcome(ra, 0), norm_outcome(rf, 0)
                if ra is None or rf is None or \
                        any(x is not None and x.startswith(("TIMEOUT", "CRASH")) for x in (ra, rf, rh)):
                    # a hang / memory limit on one route (unoptimised generated parser, thousands of trees)
                    # is C15's subject, not a difference of the encodings
                    n_timeouts += 1
                    continue
                if ra is not None and ra.startswith("PANIC"):
                    n_panics += 1
                # the two layouts panic with different (documented) messages on an undefined goto
                ra, rf, rh = [("PANIC" if x is not None and x.startswith("PANIC") else x) for x in (ra, rf, rh)]
                n_results += 1
                if ra is not None and ra.startswith(("OK", "FOREST")):
                    n_results_ok += 1
                if ra != rf:
                    rep.violation("layouts-parse-differently", "Arrays and Functions parsers of one grammar disagree "
                                  "on an input", dict(grammar=grp["text"], settings=a.settings, input=inp,
                                                      arrays=ra, functions=rf), found_input=True)
                    break
                if rh is not None and not rh.startswith(("TIMEOUT", "CRASH")) and ra != rh:
                    rep.violation("generated-vs-dynamic", "the generated parser and the dynamic harness route "
                                  "(real runtime driven by the dumped table) disagree on an input",
                                  dict(grammar=grp["text"], settings=a.settings, input=inp, generated=ra,
                                       dynamic=rh), found_input=True)
                    break
            if len(samples) < 5 and grp["g"].shape not in [s["shape"] for s in samples] and a.results:
                samples.append(dict(shape=grp["g"].shape, grammar=grp["text"], settings=a.settings,
                                    states=len(d.states), terminals=d.nterm, nonterminals=d.nnonterm,
                                    input=grp["g"].inputs[0] if grp["g"].inputs else "",
                                    outcome=(a.results.get(0) or "")[:160]))

    # Coq: hypotheses of the theorems on every real table + model round trip on them + source text
    jobs = coq_wf_jobs(tables)
    body_jobs = [(n, b) for n, b, _ in jobs]
    per_file = 16
    enc_files = []
    for k in range(0, len(enc_jobs), per_file):
        chunk = enc_jobs[k:k + per_file]
        body = [COQ_HEADER]
        for n, (it, d, term) in enumerate(chunk):
            body.append("Definition T%d := %s." % (n, gl_table(d)))
            if it.settings["layout"] == "arrays":
                body.append("Eval vm_compute in [arrays_source_matches T%d (%s)]." % (n, term))
            else:
                body.append("Eval vm_compute in [functions_source_matches %d T%d (%s)]." % (d.nterm, n, term))
        enc_files.append(("c08_enc_%d" % (k // per_file), "\n".join(body) + "\n", chunk))
    outs = coq_eval_many(body_jobs + [(n, b) for n, b, _ in enc_files])
    n_wf = 0
    for (name, body, tags), (okc, out) in zip(jobs, outs[:len(jobs)]):
        ans = parse_bools(out) if okc else []
        if not okc or len(ans) != len(tags):
            rep.violation("coq-eval", "Coq evaluation failed", dict(file=name, log=out[-1500:]), found_input=False)
            continue
        for tag, a in zip(tags, ans):
            n_wf += 1
            if a != [True, True, True]:
                rep.violation("enc-wf", "a real table violates the hypotheses of the round-trip theorems or the "
                              "model round trip fails on it: [enc_wf_b, arrays, functions] = %s" % a,
                              dict(parser=tag), found_input=True)
    for (name, body, chunk), (okc, out) in zip(enc_files, outs[len(jobs):]):
        ans = parse_bools(out) if okc else []
        if not okc or len(ans) != len(chunk):
            rep.violation("coq-eval", "Coq evaluation failed", dict(file=name, log=out[-1500:]), found_input=False)
            continue
        for (it, d, term), a in zip(chunk, ans):
            n_enc += 1
            if a != [True]:
                rep.violation("source-differs-from-model-" + it.settings["layout"],
                              "the table encoding in the generated source text differs from encode_%s of the "
                              "dumped table (Model/Encode.v)" % it.settings["layout"],
                              dict(grammar=it.grammar, settings=it.settings, parser=it.name), found_input=True)

    bt.cleanup()
    pt = rep.theorems or {}
    rep.coverage = dict(
        programs=n_parsers, exhaustive=True, disagreements_checked=n_cells,
        obligations=len(pt.get("theorems", [])) + n_wf + n_enc,
        discharged=(pt.get("closed", 0) if not rep.violations else 0) + n_wf + n_enc,
        theorems=pt.get("theorems", []),
        checker_cmd="make -C coq Properties/C08.vo ; cargo build --offline (scratch workspace .cache/batch/c08, "
                    "generator run from build.rs) ; coqc work/c08_*.v (vm_compute)",
        trusted_base=TRUSTED_BASE + [
            "gen/batch.py build.rs (drives Settings::process_grammar; reads enum variants and PARSER_DEFINITION "
            "back from the generated file with syn 1.0), gen/c08_main.rs (queries the compiled ParserDefinition)",
            "rustc/cargo (the generated source is observed through its compiled behaviour)"],
        evaluations=n_results, distinct_nontrivial=n_results_ok, inputs_skipped_timeout=n_timeouts,
        inputs_all_routes_panic=n_panics,
        parsers_by_config={"%s/%s" % k: v for k, v in sorted(by_cfg.items())},
        cells_compared=n_cells, per_parser="every state x (every token + every nonterminal + expected kinds), "
        "plus longest_match, grammar_order, default_layout, enum discriminants, ProdKind->NonTermKind",
        tables_wf_checked_in_coq=n_wf, source_encodings_checked_in_coq=n_enc,
        grammars=len(gs), items=len(items), generator_errors=n_gen_err, lr_rejected_conflicts=n_gen_lr_conflict,
        generator_error_classes=gen_err_classes,
        goto_panic_classes={"%s: %s" % k: v for k, v in sorted(goto_panic_classes.items())},
        shapes=shapes, timings=bt.timings,
        rule="grammars: corpus + structured random BNF (+ random priorities/assoc) + ambiguous expression grammars + "
             "hand-written lexical grammars (regex terminals, priorities, Layout rule, sugar, unreachable rules, "
             "production kinds); x {Arrays, Functions} x {LR (random LALR/LALR_PAGER, prefer_shifts...), GLR "
             "(LALR_RN, conflicts kept)}; a parser is compared iff the real generator accepted the grammar; "
             "non-trivial parse = input accepted (tree/forest compared across both layouts and the dynamic route)",
        samples=samples)
    rep.assumptions = ["enum variants are listed by reading the generated file with syn (order = declaration order); "
                       "`x as usize` is the discriminant the runtime itself uses",
                       "goto panics are observed with catch_unwind; their message class is recorded"]


def replay(rep, path):
    import json
    p = json.load(open(path))
    main_rs = open(os.path.join(HERE, "c08_main.rs")).read()
    s = dict(p.get("settings", {}))
    its = []
    for layout in ("arrays", "functions"):
        its.append(B.Item("r" + layout[0], p["grammar"], dict(s, layout=layout), inputs=[p.get("input", "")]))
    bt = B.Batch("c08replay", its, main_rs, per_member=2, enc=True)
    bt.go()
    for it in its:
        print("== %s: generator %s %s" % (it.settings["layout"], it.gen_status, it.gen_msg[:200]))
        if it.rustc_errors:
            print("   rustc:", it.rustc_errors[0][:2])
        if it.output is None or not it.dump_text:
            continue
        d = parse_dump(it.dump_text.split("\n")[1:])
        exp = expected_lines(d, it.settings)
        act, results, badpanic = actual_lines(it)
        print("   table   :", "differs at %s" % first_diff(exp, act) if first_diff(exp, act) else "all queries equal")
        print("   outcome :", results.get(0))
    bt.cleanup()
    rep.coverage = dict(programs=len(its), exhaustive=True, disagreements_checked=0, checker_cmd="replay",
                        trusted_base=[])
