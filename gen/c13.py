"""C13 — spans and positions faithfully locate every tree node in the input (LR trees, GLR forest trees, positions).

(T) Properties/C13.v: position_after_ok (line/column bookkeeping is exact for every byte string and every
    split into slices), pos_ok reflection, spans checker meaning.
(V/O) spans_ok_b (token value = slice at its span, leaf spans ordered, node span = hull of children, empty
    node zero-width between its neighbours, line/col consistent) evaluated on EVERY real tree.
(C) real LRParser+StringLexer+TreeBuilder == Model/LRBytes.v on every input (tree with spans, layout,
    values; error position with line/col)."""
from rvlib import *  # noqa
import bytecommon as BC
from common import TRUSTED_BASE

LEVEL = "proof"
SALT = 13


GLR_ONLY = [
    ("R: S Tb;\nS: A Ta | Ta;\nA: EMPTY;\nterminals\nTa: '(';\nTb: 'x';\n", [" ( x", "( x", "\n\u00a0( x "]),
    ("S: S S | Ta | EMPTY;\nterminals\nTa: 'a';\n", ["a", " a a", "a  a "]),
    ("E: E Tp E | Tn;\nterminals\nTp: '+';\nTn: /\\d+/;\n", ["1 + 2 + 3", " 1+2 ", "1 +\n 22 + 3"]),
]


def extra(n, i, rtree, inp, mt):
    return ["spans_ok_b %s (%s)" % (inp, rtree)]


def run(rep, tier, seed):
    cases, texts_all, bgl = BC.make_byte_cases(tier, seed, SALT)
    results = run_cases(cases, "c13")
    items = []
    stats = dict(cases=len(cases), accepted=0, conflicts=0, errors=0, recerror=0)
    for r, texts in zip(results, texts_all):
        if r.status == "OK" and r.dump is not None and r.dump.conflicts == 0 and not r.dump.missing_rec:
            if r.recerror:
                stats["recerror"] += 1
                continue
            stats["accepted"] += 1
            items.append((r.case.id, r, [t[0] for t in texts]))
        elif r.status == "OK":
            stats["conflicts"] += 1
        else:
            stats["errors"] += 1
    ev = BC.byte_jobs("c13", items, extra=extra)
    n_inputs = n_ok = n_trees_checked = n_skipped = n_empty_nodes = n_mtok = n_mtbad = 0
    samples = []
    for tag, r, texts in items:
        e = ev.get(tag)
        base = dict(grammar=r.case.grammar, table=r.case.table, flags=r.case.flags)
        if e is None or "error" in e:
            rep.violation("coq-eval", "Coq evaluation of the case failed", dict(base, err=(e or {}).get("error")),
                          found_input=False)
            continue
        n_skipped += e["skipped"]
        if not all(e["vals"]):
            rep.violation("shape", "wf_grammar_b/shape_b false on the real dump", base, found_input=False)
            continue
        # property statement on the real trees first
        bad = [i for i, b in e["extra"].items() if not b]
        if bad:
            i = bad[0]
            out = r.results.get(("LR", i), "")
            key = "spans"
            if "(N " in out:
                # classify: does the failure involve an empty node? (known class F2)
                key = classify_span_failure(out)
            rep.violation(key, "a tree returned by the real LR parser violates the span/position statement (spans_ok_b)",
                          dict(base, input=texts[i], real=out))
        for i, b in e["corr"].items():
            n_inputs += 1
            out = r.results.get(("LR", i), "")
            if out.startswith("OK"):
                n_ok += 1
                n_empty_nodes += out.count(" ~)") + out.count(")))") * 0
            if not b and not bad:
                rep.violation("corr-bytes", "real LRParser and the byte-level Gallina model disagree",
                              dict(base, input=texts[i], real=out, model=BC.show_model(r, texts[i], r.matches[i]),
                                   obligation="correspondence Model.LRBytes.bparse vs rustemo::LRParser"),
                              found_input=False)
                break
        n_trees_checked += len(e["extra"])
        n_mtok += sum(1 for b in e.get("mtok", {}).values() if b)
        n_mtbad += sum(1 for b in e.get("mtok", {}).values() if not b)
        if len(samples) < 4 and e["extra"]:
            i = sorted(e["extra"])[0]
            samples.append(dict(shape=r.case.meta["shape"], grammar=r.case.grammar, input=texts[i],
                                real=r.results.get(("LR", i), "")[:300]))
    # ---- GLR half: every tree of every forest the real GLR parser returns on the same grammars and inputs is judged by
    # the same verified checker spans_ok_b (the statement speaks of "every tree of a GLR forest")
    gcases = []
    for tag, r, texts in items:
        gcases.append(Case("G" + tag, r.case.grammar, [t if len(t.encode()) <= 40 else "" for t in texts], algo="GLR", table="LALR_RN", run="GLR",
                           flags=dict(r.case.flags, ps=0, pse=0, match=0, partial=0), meta=dict(tag=tag)))
    # ambiguous grammars (rejected by the LR side) that exercise packed alternatives with different extents; the first
    # one is the witness of the recorded finding glr-spans-shared-extent
    gitems = list(items)
    for k, (gtxt, texts) in enumerate(GLR_ONLY):
        gcases.append(Case("Gamb%d" % k, gtxt, texts, algo="GLR", table="LALR_RN", run="GLR",
                           flags=dict(ps=0, pse=0, go=0, skipws=1, match=0, partial=0), meta=dict(tag="amb%d" % k)))
        gitems.append(("amb%d" % k, None, texts))
    gres = run_cases(gcases, "c13g")
    gjobs = []
    for gr, (tag, r, texts) in zip(gres, gitems):
        if gr.status != "OK" or gr.dump is None:
            continue
        for i, text in enumerate(texts):
            if len(text.encode()) > 40:
                continue
            out = gr.results.get(("GLR", i), "")
            if not out.startswith("FOREST"):
                continue
            parts = out.partition(" || SPPF ")[0].split(" | ")[1:]
            for tr in parts[:3]:
                if tr != "NONE":
                    gjobs.append((gr, i, text, tr))
    n_glr_trees = 0
    nfiles = max(1, min(NCPU * 2, len(gjobs) // 20 + 1))
    files = []
    for fi in range(nfiles):
        body = [BC.BHEADER]
        for (gr, i, text, tr) in gjobs[fi::nfiles]:
            body.append("Eval vm_compute in spans_ok_b %s (%s)." % (BC.gl_bytes(text.encode()), BC.gl_rtree(parse_sexp(tr))))
        files.append(("c13g_%d" % fi, "\n".join(body) + "\n"))
    for fi, (ok, out) in enumerate(coq_eval_many(files)):
        chunk = gjobs[fi::nfiles]
        ans = parse_bools(out) if ok else []
        if len(ans) != len(chunk):
            if chunk:
                rep.violation("coq-eval", "Coq evaluation of the GLR span jobs failed", dict(err=out[-1500:]), found_input=False)
            continue
        for (gr, i, text, tr), b in zip(chunk, ans):
            n_glr_trees += 1
            if b != [True]:
                nsol = int(gr.results.get(("GLR", i), "FOREST 0").split(" ")[1])
                if nsol > 1 and shared_extent_class(parse_sexp(tr), text.encode()):
                    rep.violation("glr-spans-shared-extent", "ambiguous forest: a shared node carries the span of another "
                                  "alternative (its first child here is an empty node placed before skipped layout)",
                                  dict(grammar=gr.case.grammar, algo="GLR", table="LALR_RN", flags=gr.case.flags, input=text,
                                       real=tr, solutions=nsol))
                    continue
                rep.violation("glr-spans", "a tree of the forest returned by the real GLR parser violates the span/position "
                              "statement (spans_ok_b)", dict(grammar=gr.case.grammar, algo="GLR", table="LALR_RN",
                                                             flags=gr.case.flags, input=text, real=tr))
    n_trees_checked += n_glr_trees
    pt = rep.theorems or {}
    nthm = len(pt.get("theorems", []))
    rep.coverage = dict(
        obligations=nthm + n_trees_checked, discharged=(pt.get("closed", 0) if not rep.violations else 0) + n_trees_checked,
        checker_cmd="make -C coq Properties/C13.vo ; coqc work/c13_*.v (vm_compute of spans_ok_b and bout_eqb)",
        trusted_base=TRUSTED_BASE + ["regex / fancy_regex / char::is_whitespace are not modelled: their measured behaviour "
                                     "on each input (match table) is handed to the model; inputs on which a recognizer "
                                     "does not return a prefix are skipped and counted"],
        theorems=pt.get("theorems", []), programs=stats["accepted"], evaluations=n_inputs, distinct_nontrivial=n_ok,
        rule="grammars: lexical corpus + random skeletons with string/regex terminals (overlaps, priorities, multi-byte), "
             "Layout rules (whitespace, line comments, nested comments); inputs: rendered sentences/non-sentences with "
             "random whitespace (space, tab, CR/LF, NBSP, U+3000), garbage byte strings; non-trivial = inputs accepted "
             "by the real parser (their trees are span-checked)",
        trees_span_checked=n_trees_checked, glr_forest_trees_span_checked=n_glr_trees, inputs_meeting_mt_ok_b=n_mtok, inputs_not_meeting_mt_ok_b=n_mtbad, skipped_non_prefix_match=n_skipped, stats=stats, samples=samples)
    rep.assumptions = ["recognizers return a prefix of their argument (measured per input; violated inputs skipped)",
                       "GLR: the first three trees of every forest (inputs up to 40 bytes) are span-checked; C03/C07 compare "
                       "forests with the oracle / with the LR tree"]


def shared_extent_class(t, data):
    """Known class glr-spans-shared-extent: the tree comes from an AMBIGUOUS forest and the only nodes that violate the
    span statement are inner nodes whose START differs from the start of their first child, where no token of the tree
    lies in the gap between the two starts (the node carries the extent of another packed alternative: one of the two
    alternatives begins with an empty node placed before the skipped layout, the other with the token after it); ends,
    leaves (value = slice at span, order) are all as stated."""
    ok = [True]
    found = [False]
    prev_end = [0]
    toks = []

    def collect(n):
        if n[0] == "T":
            toks.append((n[3][0], n[4][0]))
        else:
            for c in n[2]:
                collect(c)
    collect(t)

    def walk(n):
        if n[0] == "T":
            st, en = n[3][0], n[4][0]
            if st < prev_end[0] or en < st or bytes(n[6]) != data[st:en]:
                ok[0] = False
            prev_end[0] = en
            return
        st, en = n[3][0], n[4][0]
        ch = n[2]
        if not ch:
            if st != en:
                ok[0] = False
            return
        for c in ch:
            walk(c)
        c0, cl = ch[0], ch[-1]
        if en != cl[4][0]:
            ok[0] = False
        if st != c0[3][0]:
            lo, hi = min(st, c0[3][0]), max(st, c0[3][0])
            if any(a < hi and b > lo for a, b in toks):
                ok[0] = False
            else:
                found[0] = True
    walk(t)
    return ok[0] and found[0]


def classify_span_failure(out):
    """Known class F2: the only nodes violating the statement are EMPTY nodes whose zero-width span lies
    before the end of the preceding token."""
    t = parse_sexp(out.split(" ", 1)[1])
    prev_end = [0]
    bad_other = [False]
    bad_empty = [False]

    def walk(n):
        if n[0] == "T":
            if n[3][0] < prev_end[0]:
                bad_other[0] = True
            prev_end[0] = n[4][0]
            return
        if not n[2]:
            if n[3][0] < prev_end[0]:
                bad_empty[0] = True
            return
        for c in n[2]:
            walk(c)
    walk(t)
    if bad_empty[0] and not bad_other[0]:
        return "empty-node-span-before-prev-token-end"
    return "spans"


def replay(rep, path):
    import json
    p = json.load(open(path))
    c = Case("replay", p["grammar"], [p.get("input", "")], algo="LR", table=p.get("table", "LALR_PAGER"), run="LR",
             flags=dict(p.get("flags", {}), match=1))
    r = run_cases([c], "c13replay", shards=1)[0]
    print("real   :", r.results.get(("LR", 0)))
    if r.dump is not None and 0 in r.matches:
        print("model  :", BC.show_model(r, p.get("input", ""), r.matches[0]))
        ev = BC.byte_jobs("c13replay", [("r", r, [p.get("input", "")])], extra=extra)
        print("checks :", ev)
    rep.coverage = dict(obligations=1, discharged=1, checker_cmd="replay", trusted_base=[])
