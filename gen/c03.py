"""C03 — the GLR forest contains exactly the derivation trees of the input.

(T) Properties/C03.v (unbounded): forest_index_bijection (solutions = number of trees, get_tree(i).build() =
    i-th tree, None beyond, iteration = enumeration, no duplicates under forest_distinct_b) for EVERY sppf value;
    elide_canonical / tree_eq_mod_rn_equiv; the oracle all_trees_sound / all_trees_complete / all_trees_NoDup /
    oracle_exact (with the per-input certificate saturated_b) / eps_unamb_b_sound.
(O) NOT proved: that the RNGLR reducer/shifter reaches every derivation exactly once.  Decided here by
    exploration: for corpus + random grammars in scope (acyclic_b, eps_unamb_b evaluated in Coq on the dumped
    grammar), compiled with the REAL compiler (GLR / LALR_RN) and parsed by the REAL GlrParser:
      (a) real success  <->  oracle has a tree;  Forest::solutions = length (all_trees h g S w);
          multiset of real trees = multiset of oracle trees modulo elide  (vm_compute, certificate saturated_b);
      (b) Model/Forest.v applied to the dumped REAL SPPF gives the real trees in index order, the real solutions,
          None out of range, iteration = enumeration; IDX/ITER/OOR flags measured on the real Forest are 1;
      (c) every real tree is, modulo elision, a derivation tree of the input (rn_derivation_b, judged by the
          verified valid_tree_b on the un-elided witness)."""
import json
import random
import time

from rvlib import *  # noqa
import grammars as GR
import lrcommon as LC
from common import TRUSTED_BASE

LEVEL = "other"
MAX_FULL = 300          # the harness prints at most 300 trees per forest
MAX_MODEL = 1500        # above this many real solutions the forest model is not run on the dumped SPPF (counted)
MAX_ORACLE = 3000       # above this many real solutions the oracle is not run (counted)
HEADER = "From RV Require Import Model.ForestCheck.\nOpen Scope nat_scope.\n"
FLAGS = dict(sppf=1, ps=0, pse=0, go=0)


# ------------------------------------------------------------------ real results
def parse_glr(out):
    """-> dict(kind='OK', n, amb, idx, iter, oor, trees=[sexp...], sppf=text|None) | dict(kind='ERR'|'PANIC'|...)"""
    if out is None:
        return dict(kind="MISSING")
    if out.startswith("FOREST"):
        main, _, sppf = out.partition(" || SPPF ")
        parts = main.split(" | ")
        h = parts[0].split(" ")
        return dict(kind="OK", n=int(h[1]), amb=int(h[2]), idx=h[3] == "IDX1", iter=h[4] == "ITER1",
                    oor=h[5] == "OOR1", trees=[parse_sexp(p) for p in parts[1:] if p != "NONE"],
                    none_trees=sum(1 for p in parts[1:] if p == "NONE"), sppf=sppf if sppf else None)
    w = out.split(" ")
    if w[0] == "ERR":
        return dict(kind="ERR", pos=int(w[2]) if len(w) > 2 and w[2].lstrip("-").isdigit() else -1, raw=out)
    return dict(kind=w[0], raw=out)


def gl_gforest(sppf):
    nodes, parents, roots = {}, {}, []
    for line in sppf.split(";"):
        w = line.split()
        if not w:
            continue
        if w[0] == "NODE":
            i = int(w[1])
            if w[2] == "T":
                nodes[i] = "GTerm %s" % w[3]
            elif w[2] == "N":
                nodes[i] = "GNonTerm %s %s" % (w[3], gl_nats(w[6:]))
            else:
                nodes[i] = "GEmpty"
        elif w[0] == "PARENT":
            parents[int(w[1])] = gl_nats(w[2:])
        elif w[0] == "ROOTS":
            roots = w[1:]
    nl = [nodes[i] for i in range(len(nodes))]
    pl = [parents[i] for i in range(len(parents))]
    return "mkGForest %s %s %s" % (gl_list(nl), gl_list(pl), gl_nats(roots)), len(nl)


def height_hint(d, w):
    """Largest height of a derivation tree of any symbol over any contiguous part of w (Python DP, untrusted:
    Coq certifies the bound with saturated_b).  None if it does not stabilise (cyclic on this input)."""
    n = len(w)
    H = {}
    for i, a in enumerate(w):
        H[(a, i, i + 1)] = 0
    prods = [(p["lhs"], p["rhs"]) for p in d.prods]
    bound = (d.nnonterm + 1) * (n + 2) + n + 3
    for _ in range(bound + 1):
        changed = False
        for lhs, rhs in prods:
            for i in range(n + 1):
                # reach[pos] = max child height so far (or -1 for no child yet) for prefixes of rhs ending at pos
                cur = {i: -1}
                for x in rhs:
                    nxt = {}
                    for pos, mh in cur.items():
                        for k in range(pos, n + 1):
                            hx = H.get((x, pos, k))
                            if hx is not None:
                                v = max(mh, hx)
                                if nxt.get(k, -2) < v:
                                    nxt[k] = v
                    cur = nxt
                    if not cur:
                        break
                for j, mh in cur.items():
                    v = mh + 1 if mh >= 0 else 1
                    if H.get((lhs, i, j), -1) < v:
                        H[(lhs, i, j)] = v
                        changed = True
        if not changed:
            return max(H.values()) if H else 0
    return None


def tree_height(t):
    if t[0] == "T":
        return 0
    return 1 + max([tree_height(c) for c in t[2]] + [0])


# ------------------------------------------------------------------ grammars
def strip(g):
    return GR.G(g.rules, g.nterms, {}, {}, g.shape.replace("+annot", ""))


def py_scope(g):
    """cheap Python mirror of acyclic_b (used only to avoid compiling hopeless grammars twice; the Coq
    booleans decide)."""
    return True


def make_grammars(tier, seed):
    rng = random.Random(seed * 7919 + 3)
    gs, seen = [], set()
    for g in GR.corpus():
        g = strip(g)
        if g.key() not in seen:
            seen.add(g.key())
            gs.append(g)
    extra = [
        ("catalan", 1, [("S", [["S", "S"], ["a"]])]),
        ("ambig-3op", 2, [("S", [["S", "a", "S"], ["S", "S"], ["b"]])]),
        ("hidden-right-null", 2, [("S", [["a", "S", "A"], ["b"]]), ("A", [[]])]),
        ("rn-deep", 3, [("S", [["a", "A", "B", "C"]]), ("A", [[], ["b"]]), ("B", [["C"]]), ("C", [[], ["c"]])]),
        ("dangling-else-2", 3, [("S", [["a", "S"], ["a", "S", "b", "S"], ["c"]])]),
        ("nullable-both-ends", 2, [("S", [["A", "S", "A"], ["a"]]), ("A", [[], ["b"]])]),
        ("lexamb-free-unit-amb", 2, [("S", [["A"], ["B"]]), ("A", [["a"]]), ("B", [["a"], ["b"]])]),
        ("rn-fold-3", 2, [("S", [["A", "A", "A"]]), ("A", [[], ["b", "A"]])]),
        ("rn-fold-4", 2, [("S", [["a", "A", "A", "A", "A"]]), ("A", [[], ["b", "A"]])]),
        ("cyclic-out-of-scope", 1, [("S", [["S"], ["a"]])]),
        ("eps-ambiguous-out-of-scope", 1, [("S", [["A", "a"]]), ("A", [[], ["B"]]), ("B", [[]])]),
    ]
    for shape, nt, rules in extra:
        g = GR.G(rules, nt, shape=shape)
        if g.key() not in seen:
            seen.add(g.key())
            gs.append(g)
    n = 120 if tier == "quick" else 1500
    for _ in range(24 if tier == "quick" else 200):
        g = GR.nullable_tail_family(rng)
        if g.key() not in seen:
            seen.add(g.key())
            gs.append(g)
    for _ in range(n):
        g = GR.random_grammar(rng)
        if g.key() not in seen:
            seen.add(g.key())
            gs.append(g)
    return gs, rng


def inputs_for(g, rng, maxlen, nvalid, ninvalid):
    valid, longer, invalid, sset = GR.inputs_for(g, rng, maxlen=maxlen, nvalid=nvalid, ninvalid=ninvalid)
    words = list(valid) + [w for w in longer if len(w) <= maxlen + 1][:2] + list(invalid)
    if () not in words:
        words.append(())
    return words


# ------------------------------------------------------------------ coq jobs
def scope_jobs(name, dumps, per_file=40):
    files = []
    for k in range(0, len(dumps), per_file):
        chunk = dumps[k:k + per_file]
        body = [HEADER]
        for n, (tag, d) in enumerate(chunk):
            body.append("Definition g%d := %s." % (n, gl_grammar(d)))
            body.append("Eval vm_compute in c03_scope_b g%d." % n)
        files.append(("%s_%d" % (name, k // per_file), "\n".join(body) + "\n", [t for t, _ in chunk]))
    outs = coq_eval_many([(f[0], f[1]) for f in files])
    res = {}
    for (fname, body, tags), (ok, out) in zip(files, outs):
        ans = parse_bools(out) if ok else []
        for j, t in enumerate(tags):
            res[t] = ans[j] if ok and j < len(ans) and len(ans[j]) == 3 else None
            if res[t] is None:
                res[t] = dict(error=out[-1500:], file=fname)
    return res


def input_terms(gname, d, w, pr):
    """Gallina terms for one input: (oracle term or None, model term or None, meta)"""
    kinds = LC.letters_to_kinds(w)
    meta = dict(h=None)
    if pr["kind"] == "OK":
        trees = pr["trees"]
        n = pr["n"]
        full = len(trees) == n
        ok = True
    elif pr["kind"] == "ERR":
        trees, n, full, ok = [], 0, True, False
    else:
        return None, None, meta
    h = height_hint(d, kinds)
    meta["h"] = h
    oracle = None
    if h is not None and n <= MAX_ORACLE:
        for t in trees:
            h = max(h, tree_height(t) + 1)
        meta["h"] = h
        oracle = "c03_oracle_b %s %d %s %s %d %s %s" % (
            gname, h, gl_nats(kinds), gl_bool(ok), n, gl_list([gl_tree(t) for t in trees]), gl_bool(full))
    model = None
    if pr["kind"] == "OK" and pr.get("sppf") and n <= MAX_MODEL:
        gf, nn = gl_gforest(pr["sppf"])
        meta["sppf_nodes"] = nn
        model = "c03_model_b (%s) %d %s %s" % (gf, n, gl_list([gl_tree(t) for t in trees]), gl_bool(full))
    return oracle, model, meta


def eval_inputs(name, items, nfiles):
    """items: list of (tag, dump, [(i, w, parsed_result)]) -> dict (tag, i) -> dict(oracle=[..]|None, model=[..]|None, meta)"""
    # balance by number of inputs
    files = [[] for _ in range(max(1, nfiles))]
    order = sorted(range(len(items)), key=lambda k: -len(items[k][2]))
    load = [0] * len(files)
    for k in order:
        j = load.index(min(load))
        files[j].append(items[k])
        load[j] += len(items[k][2]) + 1
    jobs, layouts = [], []
    for fi, chunk in enumerate(files):
        if not chunk:
            continue
        body = [HEADER]
        layout = []
        for n, (tag, d, inputs) in enumerate(chunk):
            body.append("Definition g%d := %s." % (n, gl_grammar(d)))
            for (i, w, pr) in inputs:
                oracle, model, meta = input_terms("g%d" % n, d, w, pr)
                if oracle is not None:
                    body.append("Eval vm_compute in %s." % oracle)
                if model is not None:
                    body.append("Eval vm_compute in %s." % model)
                layout.append((tag, i, oracle is not None, model is not None, meta))
        jobs.append(("%s_%d" % (name, fi), "\n".join(body) + "\n"))
        layouts.append(layout)
    outs = coq_eval_many(jobs, timeout=900)
    res = {}
    for (fname, body), layout, (ok, out) in zip(jobs, layouts, outs):
        ans = parse_bools(out) if ok else []
        need = sum(int(a) + int(b) for _, _, a, b, _ in layout)
        if not ok and "TIMEOUT:" in out:
            # the enumeration of this shard did not finish in time (a grammar/input whose split enumeration explodes):
            # its inputs are not decided by the oracle (counted), which is not a failure of the parser
            for tag, i, a, b, meta in layout:
                res[(tag, i)] = dict(oracle=None, model=None, meta=meta, file=fname, timeout=True)
            continue
        if not ok or len(ans) != need:
            for tag, i, a, b, meta in layout:
                res[(tag, i)] = dict(error="coqc failed or unexpected output (%d answers for %d)\n%s" % (
                    len(ans), need, out[-1500:]), file=fname, meta=meta)
            continue
        k = 0
        for tag, i, a, b, meta in layout:
            e = dict(oracle=None, model=None, meta=meta, file=fname)
            if a:
                e["oracle"] = ans[k]
                k += 1
            if b:
                e["model"] = ans[k]
                k += 1
            res[(tag, i)] = e
    return res


ORACLE_KEYS = ["saturated", "accepts-iff-sentence", "forest-missing-tree", "forest-extra-tree", "forest-trees-differ",
               "not-a-derivation"]
MODEL_KEYS = ["sppf-unfold", "model-solutions", "model-get-tree", "model-enum", "model-out-of-range",
              "model-iteration", "duplicate-possibility"]


class Findings:
    """collects failures; reports, per canonical key, the smallest witness (plus how many others)"""

    def __init__(self):
        self.items = []

    def add(self, key, what, payload, found_input=True):
        size = (len(payload.get("grammar", "")), len(payload.get("input", "")))
        self.items.append((key, size, what, payload, found_input))

    def report(self, rep):
        bykey = {}
        for it in sorted(self.items, key=lambda x: (x[0], x[1])):
            bykey.setdefault(it[0], []).append(it)
        for key, its in bykey.items():
            k, size, what, payload, found = its[0]
            others = [dict(grammar=p.get("grammar"), input=p.get("input")) for _, _, _, p, _ in its[1:6]]
            rep.violation(key, what, dict(payload, other_witnesses=len(its) - 1, more=others), found_input=found)


def judge(fnd, base, w, pr, e, stats):
    """Turns the Coq answers for one input into findings. Returns True if the input was decided by the oracle."""
    inp = base.get("text", GR.render(w))
    if pr["kind"] not in ("OK", "ERR"):
        fnd.add("glr-" + pr["kind"].lower(), "the real GLR parser did not return on an in-scope grammar: %s" % pr["kind"],
                dict(base, input=inp, real=pr.get("raw", "")[:300]))
        return False
    if "error" in e:
        fnd.add("coq-eval", "Coq evaluation of the case failed", dict(base, input=inp, err=e["error"], file=e.get("file")),
                found_input=False)
        return False
    decided = False
    if pr["kind"] == "OK":
        if not (pr["idx"] and pr["iter"] and pr["oor"]) or pr["none_trees"]:
            fnd.add("index-flags", "real Forest: get_tree(i) for i < solutions, iter() and get_tree(>= solutions) "
                    "do not agree (IDX/ITER/OOR)", dict(base, input=inp, idx=pr["idx"], iter=pr["iter"], oor=pr["oor"]))
        if pr["n"] >= 2 ** 62:
            stats["overflow_risk"] = stats.get("overflow_risk", 0) + 1
    o = e.get("oracle")
    if o is None:
        stats["oracle_skipped"] += 1
    elif len(o) != 6:
        fnd.add("coq-eval", "unexpected oracle answer", dict(base, input=inp, answer=o), found_input=False)
    elif not o[0]:
        stats["uncertified"] += 1          # the height bound could not be certified: input not decided
    else:
        decided = True
        texts = {1: "the real GLR parser %s an input that %s a sentence" % (
                        ("accepts", "is not") if pr["kind"] == "OK" else ("rejects", "is")),
                 2: "Forest::solutions is smaller than the number of distinct derivation trees: a derivation is "
                    "missing from the forest",
                 3: "Forest::solutions is larger than the number of distinct derivation trees: the forest holds a "
                    "duplicate or a non-derivation",
                 4: "the trees of the real forest are not the derivation trees of the input (multiset, modulo elision)",
                 5: "a tree of the real forest is not a derivation tree of the input (modulo elision)"}
        for k in (1, 2, 3, 4, 5):
            if not o[k]:
                fnd.add(ORACLE_KEYS[k], texts[k],
                        dict(base, input=inp, real_solutions=pr.get("n", 0), h=e["meta"].get("h"),
                             obligation="oracle all_trees (Properties/C03.v oracle_exact)"))
                break
    m = e.get("model")
    if e.get("timeout"):
        stats["oracle_timeout"] = stats.get("oracle_timeout", 0) + 1
    if pr["kind"] == "OK" and not pr.get("nomodel") and not e.get("timeout") and pr["n"] > MAX_MODEL:
        stats["model_skipped"] = stats.get("model_skipped", 0) + 1
    elif pr["kind"] == "OK" and not pr.get("nomodel") and not e.get("timeout"):
        if m is None or len(m) != 7:
            fnd.add("coq-eval", "model answer missing", dict(base, input=inp, answer=m), found_input=False)
        else:
            stats["model_checked"] += 1
            for k in range(7):
                if not m[k]:
                    if k == 6:
                        fnd.add(MODEL_KEYS[k], "a possibility list of the real SPPF holds two possibilities "
                                "denoting the same tree (the forest enumerates a tree twice)", dict(base, input=inp))
                    else:
                        fnd.add(MODEL_KEYS[k], "Model/Forest.v applied to the dumped real SPPF disagrees with the "
                                "real Forest (%s)" % MODEL_KEYS[k],
                                dict(base, input=inp, obligation="correspondence Model.Forest vs rustemo::glr::gss"),
                                found_input=False)
                    break
    return decided


# ------------------------------------------------------------------ lexical ambiguity family
LEXEMES = ["a", "aa", "b", "ab", "aab", "ba", "bb"]


def segmentations(text, lex, limit=40):
    """all ways to read `text` as a sequence of terminals (letter -> literal), whitespace skipped before every token
    and at the end: list of [(letter, start, end)]"""
    out = []

    def skip(i):
        while i < len(text) and text[i] in " \t\n":
            i += 1
        return i

    def go(i, acc):
        if len(out) > limit:
            return
        i = skip(i)
        if i == len(text):
            out.append(list(acc))
            return
        for letter, lit in lex.items():
            if text.startswith(lit, i):
                acc.append((letter, i, i + len(lit)))
                go(i + len(lit), acc)
                acc.pop()
    go(0, [])
    return out


def leaves_of(t):
    if t[0] == "T":
        return [(t[1], t[3][0], t[4][0])]
    r = []
    for c in t[2]:
        r.extend(leaves_of(c))
    return r


def lexical_family(rep, tier, seed, fnd, stats):
    """Grammars whose terminals overlap ('a', 'aa', 'ab', ...) with every lexical strategy off: the GLR parser follows
    every token the state expects, so the derivation trees of an input are the trees of ALL its tokenizations. The
    forest is split by the token sequence of its trees; every token sequence must be a tokenization of the input and
    each part is compared with the verified oracle for that token word."""
    rng = random.Random(seed * 7919 + 303)
    shapes = [
        ("lex-a-aa", 3, [("S", [["A", "a", "C"]]), ("A", [["a"], ["b"]]), ("C", [["c"]])], {"a": "a", "b": "aa", "c": "b"}),
        ("lex-list", 2, [("S", [["S", "A"], ["A"]]), ("A", [["a"], ["b"]])], {"a": "a", "b": "aa"}),
        ("lex-prefix", 3, [("S", [["a", "b"], ["c"]])], {"a": "a", "b": "ab", "c": "aab"}),
        ("lex-cross", 3, [("S", [["A", "B"]]), ("A", [["a"], ["b"]]), ("B", [["a"], ["c"]])], {"a": "a", "b": "ab", "c": "ba"}),
    ]
    fam = []
    for shape, nt, rules, lex in shapes:
        fam.append((GR.G(rules, nt, shape=shape), lex))
    n = 40 if tier == "quick" else 400
    for _ in range(n):
        g = strip(GR.random_grammar(rng))
        if g.nterms > 4:
            continue
        lits = rng.sample(LEXEMES, g.nterms)
        fam.append((GR.G(g.rules, g.nterms, shape="lex:" + g.shape), dict(zip(GR.TERMS[:g.nterms], lits))))
    flags = dict(sppf=0, ps=0, pse=0, go=0, lm=0, ms=0, skipws=1)

    def gtext(g, lex):
        t = g.text()
        head, _, _ = t.partition("terminals\n")
        return head + "terminals\n" + "".join("T%s: '%s';\n" % (l, lex[l]) for l in GR.TERMS[:g.nterms])
    probe = [Case("lp%d" % k, gtext(g, lex), [], algo="GLR", table="LALR_RN", run="NONE", flags=flags, meta=dict(k=k))
             for k, (g, lex) in enumerate(fam)]
    dumps = []
    for r in run_cases(probe, "c03lexprobe"):
        if r.status == "OK" and r.dump is not None and not r.dump.missing_rec:
            dumps.append((r.case.meta["k"], r.dump))
    scope = scope_jobs("c03lexscope", dumps)
    inscope = [k for k, d in dumps if not isinstance(scope.get(k), dict) and all(scope.get(k))]
    cases, texts_of = [], {}
    for k in inscope:
        g, lex = fam[k]
        valid, longer, invalid, _ = GR.inputs_for(g, rng, maxlen=4, nvalid=12, ninvalid=4)
        texts = []
        for w in list(valid) + list(invalid):
            sep = rng.choice(["", "", "", " "])
            texts.append(sep.join(lex[x] for x in w))
        texts = sorted(set(t for t in texts if len(t) <= 10))
        texts_of[k] = texts
        cases.append(Case("lx%d" % k, gtext(g, lex), texts, algo="GLR", table="LALR_RN", run="GLR", flags=flags,
                          meta=dict(k=k)))
    items = []
    n_inputs = n_multi = n_words = 0
    for r in run_cases(cases, "c03lex"):
        k = r.case.meta["k"]
        g, lex = fam[k]
        base = dict(grammar=r.case.grammar, algo="GLR", table="LALR_RN", flags=flags)
        if r.status != "OK" or r.dump is None:
            continue
        ins = []
        for i, text in enumerate(texts_of[k]):
            pr = parse_glr(r.results.get(("GLR", i)))
            if pr["kind"] not in ("OK", "ERR"):
                continue        # harness-level timeouts are the token-level family's business
            if pr["kind"] == "OK" and (len(pr["trees"]) != pr["n"] or pr["none_trees"]):
                continue
            segs = segmentations(text, lex)
            if len(segs) > 12:
                continue
            n_inputs += 1
            n_multi += int(len(segs) > 1)
            trees = pr["trees"] if pr["kind"] == "OK" else []
            bykey = {}
            for t in trees:
                bykey.setdefault(tuple(leaves_of(t)), []).append(t)
            segkeys = [tuple((GR.TERMS.index(l) + 1, a, b) for l, a, b in sg) for sg in segs]
            stray = [kk for kk in bykey if kk not in segkeys]
            if stray:
                fnd.add("forest-tree-not-over-input", "a tree of the real forest has a token sequence that is not a "
                        "tokenization of the input (kind, start, end of its leaves)",
                        dict(base, input=text, leaves=list(stray[0]), tokenizations=[list(x) for x in segkeys][:6],
                             real_solutions=pr.get("n", 0)))
                continue
            for j, (sg, sk) in enumerate(zip(segs, segkeys)):
                sub = bykey.get(sk, [])
                w = tuple(l for l, _, _ in sg)
                spr = dict(kind="OK" if sub else "ERR", n=len(sub), amb=0, idx=True, iter=True, oor=True, trees=sub,
                           none_trees=0, sppf=None, raw="", nomodel=True)
                ins.append((i * 100 + j, w, spr, text))
                n_words += 1
        if ins:
            items.append((k, r.dump, ins, base))
    ev = eval_inputs("c03lex", [(k, d, [(i, w, pr) for i, w, pr, _ in ins]) for k, d, ins, _ in items], nfiles=NCPU)
    n_decided = 0
    for k, d, ins, base in items:
        for i, w, pr, text in ins:
            e = ev.get((k, i), dict(error="no answer"))
            b2 = dict(base, text=text, tokenization=" ".join(w))
            if judge(fnd, b2, w, pr, e, stats):
                n_decided += 1
    return dict(lexical_grammars=len(fam), lexical_grammars_in_scope=len(inscope), lexical_inputs=n_inputs,
                lexical_inputs_with_several_tokenizations=n_multi, lexical_token_words_judged=n_words,
                lexical_token_words_decided=n_decided)


# ------------------------------------------------------------------ the table side (Model/NLR.v)
NLR_HEADER = "From RV Require Import Model.NLRCheck.\nOpen Scope nat_scope.\n"


def table_phase(rep, fnd, all_dumps, items, gtext_of):
    """(V) sound_rn_b / complete_rn_b on the REAL LALR_RN table of every compiled grammar (theorems nlr_sound,
    nlr_complete, nlr_exact apply to tables passing them); (C) the real forest against the accepting runs of the
    nondeterministic machine over the real table, enumerated inside Coq (nruns; nruns_exact)."""
    jobs = []
    nf = max(1, min(NCPU, len(all_dumps) // 6 + 1))
    for fi in range(nf):
        body = [NLR_HEADER]
        tags = []
        for gi, d in all_dumps[fi::nf]:
            body.append("Eval vm_compute in c03_table_b (%s) (%s)." % (gl_grammar(d), gl_table(d)))
            tags.append(gi)
        jobs.append(("c03tab_%d" % fi, "\n".join(body) + "\n", tags))
    n_tab = n_tab_ok = 0
    for (fname, body, tags), (ok, out) in zip(jobs, coq_eval_many([(j[0], j[1]) for j in jobs], timeout=1500)):
        ans = parse_bools(out) if ok else []
        if len(ans) != len(tags):
            if tags:
                rep.violation("coq-eval", "evaluation of the table validators failed", dict(file=fname, err=out[-1500:]),
                              found_input=False)
            continue
        for gi, a in zip(tags, ans):
            n_tab += 1
            if a == [True, True, True]:
                n_tab_ok += 1
                continue
            which = "sound_rn_b" if not a[0] else "complete_rn_b" if not a[1] else "rn_complete_b"
            fnd.add("rn-table-" + which, "the real LALR_RN table does not pass %s (theorem %s no longer applies to it)" %
                    (which, "nlr_sound" if not a[0] else "nlr_complete" if not a[1] else "rn_reductions_present"),
                    dict(grammar=gtext_of(gi), algo="GLR", table="LALR_RN", flags=FLAGS,
                         obligation="Spec.ValidatorsRN.%s / Properties.C03.nlr_exact" % which), found_input=False)
    # runs of the machine vs the real forest
    sel = []
    for gi, d, ins in items:
        for i, w, pr in ins:
            # By nlr_exact the run set of a validated table IS the set of derivation trees the oracle enumerates, so
            # this comparison adds no strength; it is kept on a small sample as a non-vacuity test of the machine
            # (plain enumeration of runs is exponential where the GLR parser shares work).
            if len(w) > 3 or len(d.prods) > 9:
                continue
            if pr["kind"] == "OK" and (pr["n"] > 6 or len(pr["trees"]) != pr["n"] or pr["none_trees"]):
                continue
            if pr["kind"] not in ("OK", "ERR"):
                continue
            sel.append((gi, d, i, w, pr))
    random.Random(len(sel)).shuffle(sel)
    sel = sel[:96]
    nf = max(1, len(sel) // 6 + 1)
    files = []
    for fi in range(nf):
        chunk = sel[fi::nf]
        body = [NLR_HEADER]
        defined = {}
        for gi, d, i, w, pr in chunk:
            if gi not in defined:
                defined[gi] = len(defined)
                body.append("Definition g%d := %s.\nDefinition T%d := %s." % (defined[gi], gl_grammar(d), defined[gi], gl_table(d)))
            n = defined[gi]
            kinds = LC.letters_to_kinds(w)
            trees = pr["trees"] if pr["kind"] == "OK" else []
            body.append("Eval vm_compute in c03_nlr_b g%d T%d %d %s %s %s." % (
                n, n, 6 * len(w) + 8, gl_nats(kinds), gl_bool(pr["kind"] == "OK"), gl_list([gl_tree(t) for t in trees])))
        files.append(("c03nlr_%d" % fi, "\n".join(body) + "\n", chunk))
    n_runs = n_cut = 0
    for (fname, body, chunk), (ok, out) in zip(files, coq_eval_many([(f[0], f[1]) for f in files], timeout=90)):
        ans = parse_bools(out) if ok else []
        if len(ans) != len(chunk):
            n_cut += len(chunk)        # enumeration too large (time limit): not decided by this sample
            continue
        for (gi, d, i, w, pr), a in zip(chunk, ans):
            if len(a) != 3 or not a[0]:
                n_cut += 1
                continue
            n_runs += 1
            if not (a[1] and a[2]):
                fnd.add("forest-vs-table-runs", "the real forest differs from the set of accepting runs of the "
                        "nondeterministic LR machine over the real table (trees modulo elision / acceptance)",
                        dict(grammar=gtext_of(gi), algo="GLR", table="LALR_RN", flags=FLAGS, input=GR.render(w),
                             real_solutions=pr.get("n", 0), same_trees=a[1], same_acceptance=a[2],
                             obligation="correspondence Model.NLR.nruns vs rustemo::GlrParser"))
    return dict(tables_validated=n_tab, tables_passing_sound_rn_and_complete_rn=n_tab_ok,
                inputs_compared_with_table_runs=n_runs, run_enumerations_cut_by_fuel=n_cut)


def run(rep, tier, seed):
    T = [time.time()]
    gs, rng = make_grammars(tier, seed)
    maxlen = 6 if tier == "quick" else 7
    nvalid, ninvalid = (18, 6) if tier == "quick" else (60, 20)
    # ---- phase 1: compile with the real compiler (GLR, LALR_RN), decide the scope in Coq
    probe = [Case("p%d" % gi, g.text(inline=(gi % 4 == 0)), [], algo="GLR", table="LALR_RN", run="NONE",
                  flags=dict(ps=0, pse=0, go=0), meta=dict(gi=gi)) for gi, g in enumerate(gs)]
    pres = run_cases(probe, "c03probe")
    dumps, n_comp_err = [], 0
    for r in pres:
        if r.status == "OK" and r.dump is not None and not r.dump.missing_rec:
            dumps.append((r.case.meta["gi"], r.dump))
        else:
            n_comp_err += 1
    T.append(time.time())
    scope = scope_jobs("c03scope", dumps)
    T.append(time.time())
    inscope, out_cyclic, out_eps, out_wf = [], 0, 0, 0
    for gi, d in dumps:
        s = scope.get(gi)
        if isinstance(s, dict):
            rep.violation("coq-eval", "scope evaluation failed", dict(grammar=gs[gi].text(), err=s["error"]), found_input=False)
            continue
        if not s[0]:
            out_wf += 1
        elif not s[1]:
            out_cyclic += 1
        elif not s[2]:
            out_eps += 1
        else:
            inscope.append(gi)
    # ---- phase 2: the real GLR parser on sentences and non-sentences
    cases, words_of = [], {}
    for gi in inscope:
        g = gs[gi]
        words = inputs_for(g, rng, maxlen, nvalid, ninvalid)
        if g.shape.startswith("nullable-tail"):
            # productions with five or six symbols, three of them nullable: the oracle's split enumeration grows with
            # |w|^(symbols-1); depth 3-4 of the recursion (4-5 tokens) is what this family is for
            words = [w for w in words if len(w) <= 5]
        words_of[gi] = words
        cases.append(Case("g%d" % gi, g.text(inline=(gi % 4 == 0)), [GR.render(w) for w in words],
                          algo="GLR", table="LALR_RN", run="GLR", flags=FLAGS, meta=dict(gi=gi, shape=g.shape)))
    results = run_cases(cases, "c03")
    T.append(time.time())
    items = []
    parsed = {}
    for r in results:
        gi = r.case.meta["gi"]
        if r.status != "OK" or r.dump is None:
            rep.violation("glr-compile", "grammar compiled in the probe but not in the run", dict(grammar=r.case.grammar, status=r.status))
            continue
        ins = []
        for i, w in enumerate(words_of[gi]):
            if r.skip_from is not None and i >= r.skip_from:
                continue
            pr = parse_glr(r.results.get(("GLR", i)))
            parsed[(gi, i)] = pr
            ins.append((i, w, pr))
        items.append((gi, r.dump, ins))
    # A TIMEOUT of the harness is only "the parser did not return" if the parser itself does not return: the harness
    # also enumerates every tree of the forest (exponentially many on wildly ambiguous grammars). Re-run those inputs
    # without the enumeration (noforest=1); when the parser returns, the input is out of the oracle's reach, not a failure.
    slow = [(gi, i, w) for gi, d, ins in items for i, w, pr in ins if pr["kind"] not in ("OK", "ERR")]
    too_large = set()
    if slow:
        rc = [Case("slow%d_%d" % (gi, i), gs[gi].text(inline=(gi % 4 == 0)), [GR.render(w)], algo="GLR", table="LALR_RN",
                   run="GLR", flags=dict(FLAGS, sppf=0, noforest=1), meta=dict(gi=gi, i=i)) for gi, i, w in slow[:200]]
        for r2 in run_cases(rc, "c03slow"):
            if str(r2.results.get(("GLR", 0), "")).startswith("FOREST"):
                too_large.add((r2.case.meta["gi"], r2.case.meta["i"]))
        items = [(gi, d, [(i, w, pr) for i, w, pr in ins if (gi, i) not in too_large]) for gi, d, ins in items]
    ev = eval_inputs("c03", items, nfiles=max(NCPU * 2, sum(len(x[2]) for x in items) // 40))
    T.append(time.time())
    stats = dict(oracle_skipped=0, uncertified=0, model_checked=0)
    fnd = Findings()
    n_inputs = n_decided = n_ok = n_err = n_amb = n_trees = n_rn = 0
    max_solutions = 0
    shapes, samples = {}, []
    bylen = {}
    for gi, d, ins in items:
        g = gs[gi]
        base = dict(grammar=g.text(inline=(gi % 4 == 0)), algo="GLR", table="LALR_RN", flags=FLAGS)
        shapes[g.shape] = shapes.get(g.shape, 0) + 1
        for i, w, pr in ins:
            n_inputs += 1
            e = ev.get((gi, i), dict(error="no answer"))
            if judge(fnd, base, w, pr, e, stats):
                n_decided += 1
                bylen[len(w)] = bylen.get(len(w), 0) + 1
                if pr["kind"] == "OK":
                    n_ok += 1
                    n_trees += len(pr["trees"])
                    max_solutions = max(max_solutions, pr["n"])
                    if pr["n"] > 1:
                        n_amb += 1
                    # a real tree with an elided trailing child?
                    if any(short_node(t, d) for t in pr["trees"]):
                        n_rn += 1
                    if pr["n"] > 1 and len(samples) < 5 and g.shape not in [s["shape"] for s in samples]:
                        samples.append(dict(shape=g.shape, grammar=base["grammar"], input=GR.render(w),
                                            solutions=pr["n"], ambiguities=pr["amb"], oracle_height_bound=e["meta"].get("h"),
                                            first_tree=gl_tree(pr["trees"][0])))
                else:
                    n_err += 1
    tabcov = table_phase(rep, fnd, [(gi, d) for gi, d in dumps if not isinstance(scope.get(gi), dict) and scope.get(gi)[0]],
                         items, lambda gi: gs[gi].text(inline=(gi % 4 == 0)))
    lexcov = lexical_family(rep, tier, seed, fnd, stats)
    n_inputs += lexcov["lexical_token_words_judged"]
    n_decided += lexcov["lexical_token_words_decided"]
    fnd.report(rep)
    pt = rep.theorems or {}
    nthm = len(pt.get("theorems", []))
    rep.coverage = dict(
        explanation="PROVED in Coq (unbounded): forest_index_bijection — for every acyclic SPPF value Forest::solutions is "
                    "the number of trees, get_tree(i).build() is the i-th tree, None at or beyond solutions, iteration = "
                    "enumeration, no duplicates when no possibility list repeats a tree; elide normal form canonical; the "
                    "derivation-tree oracle all_trees is sound, complete, duplicate-free, and with the certificate "
                    "saturated_b it is exactly the set of derivation trees. NOT proved: that the RNGLR reducer/shifter "
                    "(glr/parser.rs) reaches every derivation exactly once; that half is decided by exploration: every "
                    "evaluation below compares the REAL GlrParser's forest with the verified oracle inside Coq.",
        obligations=nthm + (n_inputs if rep.violations else n_decided), inputs_not_decided_by_oracle=n_inputs - n_decided, discharged=(pt.get("closed", 0) if not rep.violations else 0) + n_decided,
        checker_cmd="make -C coq Properties/C03.vo ; coqc work/c03_*.v (vm_compute)",
        trusted_base=TRUSTED_BASE + ["rustemo/src/glr/gss/verif.rs (read-only SPPF dump, feature verif)"],
        theorems=pt.get("theorems", []),
        programs=len(items), evaluations=n_inputs, decided=n_decided, distinct_nontrivial=n_ok,
        rule="grammars: corpus + hand-written ambiguous/right-nulled shapes + structured random BNF (annotations removed), "
             "compiled by the real compiler with algo GLR / table LALR_RN / prefer_shifts off; in scope iff Coq evaluates "
             "wf_grammar_b, acyclic_b, eps_unamb_b to true on the dumped grammar; inputs: all sentences <= %d tokens "
             "(shortest %d kept + sample), 2 longer sampled sentences, %d mutated non-sentences, the empty input; "
             "non-trivial = inputs the real GLR parser accepted and whose forest was compared tree by tree with the oracle"
             % (maxlen, nvalid // 2, ninvalid),
        forests_too_large_to_enumerate=len(too_large), lexical_family=lexcov, table_side=tabcov,
        grammars_generated=len(gs), grammars_compiler_error=n_comp_err, grammars_in_scope=len(inscope),
        out_of_scope_cyclic=out_cyclic, out_of_scope_eps_ambiguous=out_eps, out_of_scope_not_wf=out_wf,
        shapes=shapes, inputs_accepted=n_ok, inputs_rejected=n_err, inputs_ambiguous=n_amb,
        inputs_with_elided_children=n_rn, trees_compared=n_trees, max_solutions=max_solutions,
        inputs_by_length=bylen, oracle_skipped_too_many_solutions=stats["oracle_skipped"],
        oracle_shards_timed_out_inputs=stats.get("oracle_timeout", 0), model_skipped_too_many_solutions=stats.get("model_skipped", 0),
        uncertified_height_bound=stats["uncertified"], model_forests_checked=stats["model_checked"],
        phase_seconds=dict(zip(["probe", "scope-coq", "real-glr", "oracle-coq"], [round(b - a, 1) for a, b in zip(T, T[1:])])),
        samples=samples)
    rep.assumptions = [
        "token level: terminals are distinct one-letter string recognizers separated by single spaces, all lexical "
        "disambiguation strategies irrelevant (lexical ambiguity is C06's subject)",
        "height bound h of the oracle is a Python hint; Coq certifies it per input with saturated_b (theorem "
        "oracle_exact); inputs whose bound cannot be certified are counted as uncertified, not as passed",
        "forests with more than %d solutions: counts compared, trees compared only for the first %d; above %d solutions "
        "the oracle is not run (counted)" % (MAX_FULL, MAX_FULL, MAX_ORACLE),
        "usize overflow of solution counts is not modelled (nat); every count seen is far below 2^62",
        "scope: acyclic_b (sound: theorem acyclic_b_sound; it may reject an acyclic grammar only if its bounded iterations "
        "did not converge, which its own closedness tests detect) and eps_unamb_b (sound: eps_unamb_b_sound); the verdicts "
        "themselves rest on the proved per-input certificate saturated_b"]


def short_node(t, d):
    if t[0] == "T":
        return False
    if len(t[2]) < len(d.prods[t[1]]["rhs"]):
        return True
    return any(short_node(c, d) for c in t[2])


def replay(rep, path):
    p = json.load(open(path))
    inp = p.get("input", "")
    c = Case("replay", p["grammar"], [inp], algo="GLR", table="LALR_RN", run="GLR", flags=FLAGS)
    r = run_cases([c], "c03replay", shards=1)[0]
    out = r.results.get(("GLR", 0))
    print("real   :", (out or r.status)[:2000])
    if r.dump is not None and out is not None:
        w = tuple(inp.split())
        pr = parse_glr(out)
        oracle, model, meta = input_terms("g", r.dump, w, pr)
        body = HEADER + "Definition g := %s.\nEval vm_compute in c03_scope_b g.\n" % gl_grammar(r.dump)
        if model:
            body += "Eval vm_compute in %s.\n" % model
        if oracle:
            body += "Eval vm_compute in %s.\n" % oracle
            body += "Eval vm_compute in all_trees %d g (g_start g) %s.\n" % (meta["h"], gl_nats(LC.letters_to_kinds(w)))
        ok, o = coq_eval("c03replay_eval", body)
        lines = " ".join(o.split())
        print("scope [wf, acyclic, eps-unambiguous] / model %s / oracle %s + oracle trees:" % (MODEL_KEYS, ORACLE_KEYS))
        print(lines[:6000])
    rep.coverage = dict(obligations=1, discharged=1, checker_cmd="replay", trusted_base=[], explanation="replay",
                        evaluations=1, distinct_nontrivial=1)
