"""C10 — the default AST carries every content token of the input, in input order.

Level "other". Proved in Coq (Properties/C10.v over Model/DefaultBuilder.v, unbounded): `vec_in_order` — the
generated Vec actions (push for the left-recursive alternative, insert(0, ..) for the right-recursive one,
production.rs:344-419) return the elements of EVERY derivation of a vector rule in input order. The model is
tied to the real generated actions every run (build_vec of the derivation = the literal sequence of the real
value). Also proved (Model/DefaultAst.v, not run against the code): `ast_tokens_in_order_partial`, `ast_tokens_compositional`
and `std_actions_keep_order_partial` — every action-body shape the generator writes keeps its arguments' literals in
order, hence so does the value of any derivation tree. The type deduction is not modelled; the property as a whole (all type shapes, Option/None, GLR replay,
loc_info) is an exploration of the real generated code against the real generic parse tree:

Batch crates (gen/batch.py) with the DEFAULT builder — generator run from build.rs, rustc compiles parser
and actions — for generated grammars x {LR, GLR} x builder_loc_info {off, on}; the crate's main.rs parses
every input and prints `{:?}` of the returned value (GLR: every tree of the forest, up to 4, replayed
through `DefaultBuilder`). For the same grammar / settings / input the harness `rv` gives the generic parse
tree (real runtime, TreeBuilder). Compared per (grammar, input, algo, loc_info, tree):
  * the sequence of string literals of the Debug rendering == the sequence of values of the regex-matched
    (content) tokens of the tree, in order, each exactly once  (a `?=`-bound token may or may not appear);
  * with loc_info: the span printed next to each literal == the token's span;
  * the number of `None` == the number of absent optional parts of the tree (EMPTY reductions of non-vector
    rules + children elided by right-nulled GLR reductions).
History: DESIGN.md §9 F3 (a right-recursive `@vec` rule yielded the vector reversed) was found by this check
and repaired by /repo commit efbb959; if it reappears it is reported as `vec-right-recursive-reversed`."""
import os
import random
import re

from rvlib import *  # noqa
import batch as B
import astgrammars as AG
from common import TRUSTED_BASE

LEVEL = "other"
HERE = os.path.dirname(os.path.abspath(__file__))
MAX_TREES = 4
# GLR + default builder: the right-nullable arms of reduce_action pass a wrongly typed value for the elided tail
# (recorded C11 finding); left out of C10's batch unless C10_NO_SKIP is set (used to test a repair)
RN_NOT_COMPILING = ("right-nulled-struct", "right-nulled-recursive-ref", "right-nulled-vec-tail")


class Gr:
    def __init__(self, shape, text, inputs, features=()):
        self.shape, self.text, self.inputs, self.features = shape, text, inputs, list(features)


def make_grammars(tier, seed):
    rng = random.Random(seed * 7919 + 10)
    gs = []
    for shape, text, inputs in AG.handwritten():
        gs.append(Gr(shape, text, inputs, [shape]))
    # shapes whose generated code rustc rejects are C11's findings (rustc-E0391-actions-type,
    # rustc-E0308-parser-impl-LRBuilder-DefaultBuilder.reduce_action); they are left out here so that the
    # batch builds in one round
    excl = (AG.f_rec_optref,)
    ags = AG.feature_cover(rng, 1 if tier == "quick" else 3, exclude=excl)
    for _ in range(6 if tier == "quick" else 120):
        ags.append(AG.random_ag(rng, exclude=excl))
    for g in ags:
        inputs, seen = [], set()
        for _ in range(40):
            s = g.sample(rng, budget=rng.choice([3, 4, 6]))
            if s is None:
                break
            t = " ".join(s)
            if t not in seen and len(s) <= 60:
                seen.add(t)
                inputs.append(t)
            if len(inputs) >= (5 if tier == "quick" else 10):
                break
        gs.append(Gr(g.shape, g.text(), inputs, g.features))
    out, seen = [], set()
    for g in gs:
        if g.text not in seen and g.inputs:
            seen.add(g.text)
            out.append(g)
    return out


def settings_for(algo, loc):
    if algo == "GLR":
        return dict(algo="GLR", table="LALR_RN", ps=0, pse=0, go=0, builder="default", loc=loc, dump=1)
    return dict(algo="LR", table="LALR_PAGER", ps=0, pse=1, go=1, builder="default", loc=loc, dump=1)


# --------------------------------------------------------------------- Debug rendering -> literals
LIT_RE = re.compile(r'"((?:[^"\\]|\\.)*)"(?:, span: Some\(\[(\d+)\(\d+,\d+\)-(\d+)\(\d+,\d+\)\]\))?')


def unescape(s):
    out, i = [], 0
    while i < len(s):
        c = s[i]
        if c == "\\" and i + 1 < len(s):
            n = s[i + 1]
            if n == "n":
                out.append("\n")
            elif n == "t":
                out.append("\t")
            elif n == "r":
                out.append("\r")
            elif n == "0":
                out.append("\0")
            elif n == "u":
                j = s.index("}", i)
                out.append(chr(int(s[i + 3:j], 16)))
                i = j + 1
                continue
            else:
                out.append(n)
            i += 2
        else:
            out.append(c)
            i += 1
    return "".join(out)


def literals(dbg):
    """[(text, start or None, end or None)], number of None, from a `{:?}` rendering"""
    lits = [(unescape(m.group(1)), int(m.group(2)) if m.group(2) else None, int(m.group(3)) if m.group(3) else None)
            for m in LIT_RE.finditer(dbg)]
    rest = LIT_RE.sub('""', dbg)
    return lits, len(re.findall(r"\bNone\b", rest))


# --------------------------------------------------------------------- expectation from the generic tree
def expectation(d, tree, vec_kinds):
    """content tokens in order [(text, start, end, bool_bound)], expected number of None"""
    toks = []
    nones = [0]

    def walk(t, bound):
        if t[0] == "T":
            if d.terms[t[1]]["has_content"]:
                toks.append((t[6].decode(errors="replace"), t[3][0], t[4][0], bound))
            return
        p = d.prods[t[1]]
        ch = t[2]
        ntname = d.nonterms[p["lhs"] - d.nterm]["name"]
        if not p["rhs"] and ntname not in vec_kinds:
            nones[0] += 1
        if len(ch) < len(p["rhs"]):
            # right-nulled reduction: the elided nullable tail is filled with None by the builder
            nones[0] += len(p["rhs"]) - len(ch)
        for i, c in enumerate(ch):
            b = bound or (i < len(p["assign"]) and p["assign"][i][1])
            walk(c, b)

    walk(tree, False)
    return toks, nones[0]


def vtree_of(d, tree, vec_kinds):
    """generic tree of a vector rule (root) -> Gallina vtree term of Model/DefaultBuilder.v, or None"""
    if tree[0] != "N":
        return None
    p = d.prods[tree[1]]
    root = p["lhs"]
    if d.nonterms[root - d.nterm]["name"] not in vec_kinds:
        return None

    def elem(t):
        ls = [l for l in tree_leaves(t) if d.terms[l[1]]["has_content"]]
        if len(ls) != 1 or not ls[0][6].isdigit():
            raise ValueError("element")
        return int(ls[0][6])

    def go(t):
        pr = d.prods[t[1]]
        ch = t[2]
        if len(ch) != len(pr["rhs"]):
            raise ValueError("elided")
        if not ch:
            return "VEmpty"
        if len(ch) == 1:
            return "(VOne %d)" % elem(ch[0])
        if len(ch) == 2 and pr["rhs"][0] == root and pr["rhs"][1] != root:
            return "(VLeft %s %d)" % (go(ch[0]), elem(ch[1]))
        if len(ch) == 2 and pr["rhs"][1] == root and pr["rhs"][0] != root:
            return "(VRight %d %s)" % (elem(ch[0]), go(ch[1]))
        raise ValueError("shape")
    try:
        return go(tree)
    except (ValueError, IndexError):
        return None


def right_recursive_vecs(d, vec_kinds):
    """names of Vec-kind rules with a production `B A` (A the rule itself on the right)"""
    out = []
    for nt in d.nonterms:
        if nt["name"] not in vec_kinds:
            continue
        sym = nt["idx"] + d.nterm
        for pi in nt["prods"]:
            rhs = d.prods[pi]["rhs"]
            if len(rhs) == 2 and rhs[1] == sym and rhs[0] != sym:
                out.append(nt["name"])
    return out


def run(rep, tier, seed):
    main_rs = open(os.path.join(HERE, "c10_main.rs")).read()
    gs = make_grammars(tier, seed)
    items, cases, groups = [], [], []
    for gi, g in enumerate(gs):
        grp = dict(g=g, items={}, cases={})
        nhand = len(AG.handwritten())
        for algo in ("LR", "GLR"):
            for loc in (0, 1):
                if tier == "quick" and gi >= nhand and loc != (gi + (algo == "GLR")) % 2:
                    continue
                if g.shape in RN_NOT_COMPILING and algo == "GLR" and not os.environ.get("C10_NO_SKIP"):
                    continue    # does not compile: C11 finding rustc-E0308-...reduce_action
                it = B.Item("g%d%sl%d" % (gi, algo.lower(), loc), g.text, settings_for(algo, loc), inputs=g.inputs,
                            meta=dict(gi=gi, shape=g.shape))
                items.append(it)
                grp["items"][(algo, loc)] = it
            s = settings_for(algo, 0)
            grp["cases"][algo] = len(cases)
            cases.append(Case("g%d_%s" % (gi, algo), g.text, g.inputs, algo=algo, table=s["table"], run=algo,
                              flags=dict(ps=s["ps"], pse=s["pse"], go=s["go"])))
        groups.append(grp)
    bt = B.Batch("c10", items, main_rs, per_member=12 if tier == "quick" else 32)
    from concurrent.futures import ThreadPoolExecutor
    with ThreadPoolExecutor(max_workers=2) as ex:
        fut = ex.submit(run_cases, cases, "c10", max(2, NCPU // 4), 5, 0)
        ok = bt.go()
        hres = fut.result()
    rep.notes.append("batch timings: %s (members=%d, parsers=%d)" % (bt.timings, len(bt.members), len(items)))
    n_cmp = n_ok = n_tokens = n_vec_items = n_none = n_rn = 0
    n_gen_rej = n_rustc_rej = n_seq_cmp = 0
    by_cfg, shapes, samples = {}, {}, []
    bool_plain = bool_dropped = 0
    findings = {}
    model_jobs = []

    def finding(key, what, payload):
        findings.setdefault(key, []).append((what, payload))

    for grp in groups:
        g = grp["g"]
        for (algo, loc), it in grp["items"].items():
            base = dict(grammar=g.text, settings=it.settings, shape=g.shape)
            if it.gen_status != "OK":
                n_gen_rej += 1
                continue
            if it.rustc_errors or it.excluded:
                n_rustc_rej += 1     # C11's subject; recorded there with its own key
                continue
            if it.output is None:
                rep.violation("comparison-program-died", "no output for this parser",
                              dict(base, run_errors=bt.run_errors), found_input=False)
                continue
            h = hres[grp["cases"][algo]]
            if not it.dump_text or not it.dump_text.startswith("OK"):
                continue
            d = parse_dump(it.dump_text.split("\n")[1:])
            apath = B.generated_source(bt, it, "actions")
            atext = open(apath, errors="replace").read() if apath else ""
            vec_kinds = set(re.findall(r"pub type (\w+) = Vec<", atext))
            rrv = right_recursive_vecs(d, vec_kinds)
            results, seqres = {}, {}
            for l in it.output:
                if l.startswith("RESULT "):
                    w = l.split(" ")
                    (seqres if w[1] == "LRS" else results)[int(w[2])] = w[3:]
            # one parser instance reused over the whole input list (after a failing parse each time) answers as fresh
            # parsers do: the value returned for an input holds the tokens of THAT input
            hang = any(rr and rr[0] in ("TIMEOUT", "CRASH", "PANIC") for rr in results.values())
            if algo == "LR" and not hang:
                for i, inp in enumerate(g.inputs):
                    a, b = results.get(i), seqres.get(i)
                    if seqres.get(0, [""])[0] == "PANIC":
                        finding("reused-parser-panics", "a parser instance that parsed a failing input before panics",
                                dict(base, input=inp, panic=unhx(seqres[0][1]).decode(errors="replace")
                                     if len(seqres[0]) > 1 else ""))
                        break
                    if a is None or b is None:
                        continue
                    n_seq_cmp += 1
                    if a != b:
                        finding("reused-parser-differs", "a parser instance that parsed other (failing) inputs before "
                                "returns a different value for this input than a fresh parser",
                                dict(base, input=inp, previous_input=inp + " \x01",
                                     fresh=unhx(a[2]).decode(errors="replace") if a[0] == "AST" else a[0],
                                     reused=unhx(b[2]).decode(errors="replace") if b[0] == "AST" else b[0]))
                        break
            by_cfg["%s/loc%d" % (algo, loc)] = by_cfg.get("%s/loc%d" % (algo, loc), 0) + 1
            shapes[g.shape] = shapes.get(g.shape, 0) + 1
            for i, inp in enumerate(g.inputs):
                r = results.get(i)
                ho = h.results.get((algo, i))
                if r is None or ho is None:
                    continue
                if r[0] in ("TIMEOUT", "CRASH") or ho.startswith(("TIMEOUT", "CRASH")):
                    continue
                if r[0] == "PANIC":
                    finding("default-builder-panic", "the generated default builder panics on an input the parser "
                            "accepts" if ho.startswith(("OK", "FOREST")) else "panic",
                            dict(base, input=inp, panic=unhx(r[1]).decode(errors="replace") if len(r) > 1 else "",
                                 generic=ho[:300]))
                    continue
                accepted_h = ho.startswith("OK ") or ho.startswith("FOREST ")
                if (r[0] == "AST") != accepted_h:
                    finding("accept-differs", "generated default-builder parser and the dynamic route disagree on "
                            "acceptance", dict(base, input=inp, generated=r[0], generic=ho[:200]))
                    continue
                if r[0] != "AST":
                    continue
                if algo == "LR":
                    trees = [ho[3:]]
                else:
                    parts = ho.split(" | ")
                    trees = parts[1:1 + MAX_TREES]
                    nsol = int(parts[0].split(" ")[1])
                    if int(r[1]) != nsol:
                        finding("forest-size-differs", "number of solutions differs", dict(base, input=inp))
                        continue
                asts = r[2:]
                for k, (ts, ah) in enumerate(zip(trees, asts)):
                    tree = parse_sexp(ts)
                    dbg = unhx(ah).decode(errors="replace")
                    exp, exp_none = expectation(d, tree, vec_kinds)
                    lits, act_none = literals(dbg)
                    n_cmp += 1
                    vt = vtree_of(d, tree, vec_kinds)
                    if vt is not None and len(model_jobs) < 200:
                        model_jobs.append((vt, [l[0] for l in lits], dict(base, input=inp)))
                    full = [t[0] for t in exp]
                    nobool = [t[0] for t in exp if not t[3]]
                    act = [l[0] for l in lits]
                    rn = _has_rn(d, tree)
                    n_rn += int(rn)
                    payload = dict(base, input=inp, tree_index=k, expected_tokens=full, actual_literals=act,
                                   debug=dbg[:1500], right_nulled=rn)
                    if act == full:
                        if any(t[3] for t in exp):
                            bool_plain += 1
                        used = exp
                    elif act == nobool:
                        bool_dropped += 1
                        used = [t for t in exp if not t[3]]
                    else:
                        if sorted(act) == sorted(full) and rrv:
                            finding("vec-right-recursive-reversed", "a right-recursive @vec rule (%s) yields its "
                                    "elements in reverse input order" % ", ".join(rrv), payload)
                        elif sorted(act) == sorted(full):
                            finding("token-order", "the AST carries the content tokens in a different order", payload)
                        elif len(act) < len(full):
                            finding("token-missing", "a content token of the input is missing from the AST", payload)
                        else:
                            finding("token-extra", "the AST carries a string that is not a content token / a token "
                                    "twice", payload)
                        continue
                    n_ok += 1
                    n_tokens += len(act)
                    if rrv or vec_kinds:
                        n_vec_items += 1
                    if loc:
                        bad = [(l, e) for l, e in zip(lits, used) if l[1] is not None and (l[1], l[2]) != (e[1], e[2])]
                        nospan = [l for l in lits if l[1] is None]
                        if bad or nospan:
                            finding("loc-info-span", "with builder_loc_info a token value carries a span different "
                                    "from the token's span (or none)", dict(payload, mismatches=bad[:3],
                                                                            without_span=nospan[:3]))
                    if act_none != exp_none:
                        finding("option-none-count", "the number of None in the AST differs from the number of "
                                "absent optional parts of the parse tree",
                                dict(payload, expected_none=exp_none, actual_none=act_none))
                    else:
                        n_none += act_none
                    if len(samples) < 5 and g.shape not in [s["shape"] for s in samples] and len(act) > 1:
                        samples.append(dict(shape=g.shape, grammar=g.text[:500], config="%s/loc%d" % (algo, loc),
                                            input=inp, tokens=act, ast=dbg[:300]))
    # correspondence of Model/DefaultBuilder.v: the real vector value = build_vec of the derivation
    n_model = n_model_rev = 0
    if model_jobs:
        body = "From RV Require Import Model.DefaultBuilder.\n" + "".join(
            "Eval vm_compute in (build_vec %s).\n" % vt for vt, _, _ in model_jobs)
        okc, out = coq_eval("c10_vec", body)
        answers = re.findall(r"= (BVal \[[^\]]*\]|BPanic \d+)", " ".join(out.split())) if okc else []
        if not okc or len(answers) != len(model_jobs):
            rep.violation("coq-eval", "Coq evaluation of Model/DefaultBuilder.v failed", dict(log=out[-1500:]),
                          found_input=False)
        else:
            for (vt, act, payload), a in zip(model_jobs, answers):
                mv = [x.strip() for x in a[6:-1].split(";") if x.strip()] if a.startswith("BVal") else None
                n_model += 1
                n_model_rev += int("VRight" in vt)
                if mv != act:
                    rep.violation("corr-vec-model", "the vector built by the real generated actions differs from "
                                  "build_vec (Model/DefaultBuilder.v)", dict(payload, model=a, real=act, vtree=vt),
                                  found_input=False)
    for key, lst in sorted(findings.items()):
        what, payload = min(lst, key=lambda x: (len(x[1].get("grammar", "")), len(x[1].get("input", ""))))
        rep.violation(key, what, dict(payload, occurrences=len(lst),
                                      shapes=sorted(set(p.get("shape", "") for _, p in lst))[:12]), found_input=True)
    bt.cleanup()
    rep.coverage = dict(
        explanation="proved in Coq: vec_in_order (the generated Vec actions return the elements of every derivation "
                    "of a vector rule in input order, both recursion directions), tied to the real values each run; "
                    "ast_tokens_in_order_partial (for every kind assignment and every well_kinded tree the built value holds "
                    "exactly the content tokens in input order), from ast_tokens_compositional (Model/DefaultAst.v: if every production action keeps the literals of "
                    "its arguments in order, the value of ANY derivation tree holds exactly the content tokens in "
                    "input order) and std_actions_keep_order_partial (every action body shape the generator writes "
                    "— struct, enum variant, (boxed) reference, Some/None, vec![], push, insert(0,..) — meets that "
                    "obligation when its argument list fits the kind). NOT modelled: that the type deduction always "
                    "picks a fitting kind and drops exactly the no-content terminals, GLR replay, loc_info — so the "
                    "property as a whole is explored on the real generated builders against the real generic parse "
                    "tree of the same input (DefaultAst.v itself is not run against the code; only build_vec is)",
        obligations=len((rep.theorems or {}).get("theorems", [])), discharged=(rep.theorems or {}).get("closed", 0),
        theorems=(rep.theorems or {}).get("theorems", []),
        vec_model_correspondence=dict(values_compared=n_model, right_recursive=n_model_rev),
        checker_cmd="make -C coq Properties/C10.vo ; cargo build --offline (scratch workspace .cache/batch/c10) ; "
                    "rv run ; coqc work/c10_vec.v",
        trusted_base=TRUSTED_BASE[2:3] + ["gen/c10.py: extraction of string literals from the Debug rendering "
                                         "(regex), expectation computed from the generic tree and the hook dump "
                                         "(has_content flags)", "rustc/cargo"],
        programs=sum(by_cfg.values()), evaluations=n_cmp, distinct_nontrivial=n_ok, tokens_compared=n_tokens, reused_parser_results_compared=n_seq_cmp,
        values_with_vectors=n_vec_items, none_compared=n_none, trees_with_right_nulled_reductions=n_rn,
        bool_assignment_as_text=bool_plain, bool_assignment_dropped=bool_dropped,
        parsers_by_config=by_cfg, grammars=len(gs), rejected_by_generator=n_gen_rej, rejected_by_rustc=n_rustc_rej,
        finding_keys={k: len(v) for k, v in findings.items()}, shapes=shapes, timings=bt.timings,
        rule="grammars: hand-written AST shapes (@vec in both recursion directions with and without EMPTY, * + ? "
             "sugar with separators, named / ?= assignments, right-nullable tails, enum/struct mixes, calc, json) + "
             "one grammar per feature + random feature compositions; inputs: hand-written / sampled sentences; "
             "x {LR (if conflict-free), GLR} x loc_info; non-trivial = accepted inputs whose token sequence matched",
        samples=samples)
    rep.assumptions = ["string literals of `{:?}` are exactly the token texts (derived Debug of generated types)",
                       "`?=`-bound tokens are allowed to appear as text or not (the generator ignores is_bool)"]


def _has_rn(d, tree):
    if tree[0] == "T":
        return False
    p = d.prods[tree[1]]
    if len(tree[2]) < len(p["rhs"]):
        return True
    return any(_has_rn(d, c) for c in tree[2])


def replay(rep, path):
    import json
    p = json.load(open(path))
    main_rs = open(os.path.join(HERE, "c10_main.rs")).read()
    s = p["settings"]
    it = B.Item("r0", p["grammar"], s, inputs=[p.get("input", "")])
    bt = B.Batch("c10replay", [it], main_rs, per_member=1)
    bt.go()
    c = Case("replay", p["grammar"], [p.get("input", "")], algo=s["algo"], table=s["table"], run=s["algo"],
             flags=dict(ps=s["ps"], pse=s["pse"], go=s["go"]))
    h = run_cases([c], "c10replay", shards=1)[0]
    print("generator:", it.gen_status, it.gen_msg[:200])
    print("generic  :", (h.results.get((s["algo"], 0)) or "")[:600])
    for l in it.output or []:
        if l.startswith("RESULT "):
            w = l.split(" ")
            for a in w[5:] if w[3] == "AST" else []:
                dbg = unhx(a).decode(errors="replace")
                print("default  :", dbg[:800])
                print("literals :", [x[0] for x in literals(dbg)[0]])
    bt.cleanup()
    rep.coverage = dict(explanation="replay", programs=1, checker_cmd="replay", trusted_base=[])
