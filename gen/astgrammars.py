"""Grammars for the generator-facing properties (C10, C11): rustemo grammar texts that exercise the
default builder's type inference (enum / struct / ref / vec / optional shapes, recursion that needs
Box, named and boolean assignments, repetition sugar with and without separators, @vec in both
recursion directions, production kinds, unreachable rules, keyword-like names), together with a
sentence sampler.

An `AG` is a list of rules over two kinds of terminals: string terminals (no content: they never
appear in the AST) and regex terminals (content tokens). All randomness comes from the rng given by
the caller (seeded by VERIF_SEED)."""
import random

# ------------------------------------------------------------------------ terminals
# name -> (kind, recognizer text, sampler)
CONTENT = {
    "Num": ("r", r"\d+", lambda r: str(r.randint(0, 999))),
    "Id": ("r", r"[a-z][a-z0-9_]*", lambda r: r.choice(["x", "y", "foo", "bar1", "z_9", "q"])),
    "Str": ("r", r'"[^"]*"', lambda r: '"%s"' % r.choice(["", "a", "hi there", "x1"])),
    "Up": ("r", r"[A-Z]+", lambda r: r.choice(["A", "BC", "XYZ"])),
}


class Ref:
    def __init__(self, sym, op="", sep=None, name=None, boolean=False):
        self.sym, self.op, self.sep, self.name, self.boolean = sym, op, sep, name, boolean

    def text(self, g):
        s = g.symtext(self.sym) + self.op
        if self.sep:
            s += "[%s]" % self.sep
        if self.name:
            s = "%s%s%s" % (self.name, "?=" if self.boolean else "=", s)
        return s


class Alt:
    def __init__(self, refs, kind=None, meta=None):
        self.refs, self.kind, self.meta = refs, kind, meta

    def text(self, g):
        s = " ".join(r.text(g) for r in self.refs) if self.refs else "EMPTY"
        m = [x for x in [self.kind, self.meta] if x]
        if m:
            s += " {%s}" % ", ".join(m)
        return s


class Rule:
    def __init__(self, name, alts, ann=None):
        self.name, self.alts, self.ann = name, alts, ann


class AG:
    def __init__(self, rules, strterms, shape="", features=(), content=None, inline=False):
        self.rules = rules
        self.strterms = dict(strterms)      # terminal name -> literal
        self.content = dict(content or {})  # terminal name -> (kind, regex, sampler)
        self.shape = shape
        self.features = list(features)
        self.inline = inline
        used = set()
        for r in rules:
            for a in r.alts:
                for x in a.refs:
                    used.add(x.sym)
                    if x.sep:
                        used.add(x.sep)
        for n in used:
            if n in CONTENT and n not in self.content:
                self.content[n] = CONTENT[n]

    def symtext(self, sym):
        if self.inline and sym in self.strterms:
            return "'%s'" % self.strterms[sym]
        return sym

    def text(self):
        out = []
        for r in self.rules:
            head = ("@%s " % r.ann if r.ann else "") + r.name
            out.append("%s: %s;" % (head, "\n  | ".join(a.text(self) for a in r.alts)))
        out.append("terminals")
        for n, lit in self.strterms.items():
            out.append("%s: '%s';" % (n, lit))
        for n, (k, rx, _) in self.content.items():
            out.append("%s: /%s/;" % (n, rx))
        return "\n".join(out) + "\n"

    def key(self):
        return self.text()

    # -------------------------------------------------------------------- sentences
    def _rules(self):
        return {r.name: r for r in self.rules}

    def min_depth(self):
        INF = 10 ** 6
        rules = self._rules()
        depth = {n: INF for n in rules}
        for _ in range(len(rules) + 3):
            for n, r in rules.items():
                for a in r.alts:
                    d = 0
                    for x in a.refs:
                        if x.op in ("?", "*"):
                            continue
                        d = max(d, depth.get(x.sym, 0) if x.sym in rules else 0)
                    if 1 + d < depth[n]:
                        depth[n] = 1 + d
        return depth

    def sample(self, rng, budget=6, maxtok=40):
        """random sentence: list of token texts (None if the start symbol is unproductive)"""
        rules = self._rules()
        depth = self.min_depth()
        start = self.rules[0].name
        if depth[start] >= 10 ** 6:
            return None
        out = []

        def emit_sym(sym, b):
            if len(out) > maxtok:
                b = 0
            if sym in rules:
                expand(sym, b)
            elif sym in self.strterms:
                out.append(self.strterms[sym])
            else:
                out.append(self.content[sym][2](rng))

        def expand(n, b):
            r = rules[n]

            def need(a):
                return max([depth.get(x.sym, 0) if x.sym in rules and x.op not in ("?", "*") else 0
                            for x in a.refs] + [0])
            ok = [a for a in r.alts if need(a) < b]
            if not ok:
                ok = [min(r.alts, key=need)]
            a = rng.choice(ok)
            for x in a.refs:
                d = depth.get(x.sym, 0) if x.sym in rules else 0
                if x.op == "?":
                    if d < b and rng.random() < 0.5:
                        emit_sym(x.sym, b - 1)
                elif x.op in ("*", "+"):
                    lo = 0 if x.op == "*" else 1
                    k = rng.choice([lo, lo, 1, 2, 3]) if d < b else lo
                    for i in range(k):
                        if i > 0 and x.sep:
                            emit_sym(x.sep, b - 1)
                        emit_sym(x.sym, b - 1)
                else:
                    emit_sym(x.sym, b - 1)

        expand(start, budget)
        return out


# ------------------------------------------------------------------------ features
# Every feature is a function (rng, uid) -> (entry rule name, [rules], {string terminals}, feature tag).
# Rule names are made unique with the uid suffix so that features compose.

def R(sym, **kw):
    return Ref(sym, **kw)


def f_enum_plain(rng, u):
    n = "Color" + u
    return n, [Rule(n, [Alt([R("KRed")]), Alt([R("KGreen")]), Alt([R("KBlue")])])], \
        dict(KRed="red", KGreen="green", KBlue="blue"), "enum-plain"


def f_ref_chain(rng, u):
    a, b, c = "RefA" + u, "RefB" + u, "RefC" + u
    return a, [Rule(a, [Alt([R(b)])]), Rule(b, [Alt([R(c)])]), Rule(c, [Alt([R("Num")])])], {}, "ref-chain"


def f_struct(rng, u):
    n = "Pair" + u
    v = rng.choice(["named", "plain", "same-type", "mixed", "plain-named", "plain-named-same"])
    if v == "plain-named":
        # a reference named after its type BEFORE a named assignment of the same Rust type (String)
        alt = Alt([R("Id"), R("Colon"), R("Num", name="value")])
    elif v == "plain-named-same":
        alt = Alt([R("Num"), R("Colon"), R("Num", name="second"), R("Id", name="third")])
    elif v == "named":
        alt = Alt([R("Id", name="key"), R("Colon"), R("Num", name="value")])
    elif v == "plain":
        alt = Alt([R("Id"), R("Colon"), R("Num")])
    elif v == "same-type":
        alt = Alt([R("Num"), R("Colon"), R("Num")])
    else:
        alt = Alt([R("Num", name="first"), R("Colon"), R("Num"), R("Id")])
    return n, [Rule(n, [alt])], dict(Colon=":"), "struct-" + v


def f_optional(rng, u):
    n = "Opt" + u
    v = rng.choice(["content", "string", "bool", "nonterm"])
    rules = []
    if v == "content":
        alt = Alt([R("Id"), R("Num", op="?")])
    elif v == "string":
        alt = Alt([R("KStatic", op="?"), R("Id")])
    elif v == "bool":
        alt = Alt([R("KStatic", name="is_static", boolean=True, op="?"), R("Id", name="name")])
    else:
        inner = "OptIn" + u
        rules.append(Rule(inner, [Alt([R("Num"), R("Colon"), R("Id")])]))
        alt = Alt([R("Id"), R(inner, op="?")])
    return n, [Rule(n, [alt])] + rules, dict(KStatic="static", Colon=":"), "optional-" + v


def f_repeat(rng, u):
    n = "Rep" + u
    op = rng.choice(["*", "+"])
    sep = rng.choice([None, "Comma"])
    v = rng.choice(["content", "nonterm", "string", "named"])
    rules = []
    if v == "content":
        alt = Alt([R("LBr"), R("Num", op=op, sep=sep), R("RBr")])
    elif v == "string":
        alt = Alt([R("LBr"), R("KTick", op=op, sep=sep), R("Num"), R("RBr")])
    elif v == "named":
        alt = Alt([R("LBr"), R("Id", op=op, sep=sep, name="items"), R("RBr")])
    else:
        inner = "RepIn" + u
        rules.append(Rule(inner, [Alt([R("Id"), R("Colon"), R("Num")])]))
        alt = Alt([R("LBr"), R(inner, op=op, sep=sep), R("RBr")])
    return n, [Rule(n, [alt])] + rules, dict(LBr="[", RBr="]", Comma=",", KTick="tick", Colon=":"), \
        "repeat-%s%s-%s" % ({"*": "star", "+": "plus"}[op], "-sep" if sep else "", v)


def f_vec(rng, u):
    n = "Vec" + u
    direction = rng.choice(["left", "right"])
    empty = rng.choice([False, True])
    elem = rng.choice(["Num", "nonterm"])
    rules = []
    e = "Num"
    if elem == "nonterm":
        e = "VecEl" + u
        rules.append(Rule(e, [Alt([R("Id"), R("Colon"), R("Num")])]))
    rec = Alt([R(n), R(e)]) if direction == "left" else Alt([R(e), R(n)])
    alts = [rec, Alt([R(e)])]
    if empty:
        # `A: A B | B | EMPTY` is ambiguous for LR (B | EMPTY then A B); use it only left-recursive
        alts = [rec, Alt([])] if direction == "left" else alts
    wrap = "VecW" + u
    rules = [Rule(wrap, [Alt([R("LBr"), R(n), R("RBr")])]), Rule(n, alts, ann="vec")] + rules
    return wrap, rules, dict(LBr="[", RBr="]", Colon=":"), "vec-%s%s-%s" % (direction, "-empty" if empty else "", elem)


def f_vec_boxed(rng, u):
    """a @vec rule whose elements contain the vector again (element type is boxed: Vec<Box<El>>), the element rule
    being reached first from the start rule"""
    el, v = "BEl" + u, "BVec" + u
    direction = rng.choice(["left", "right"])
    rec = Alt([R(v), R(el)]) if direction == "left" else Alt([R(el), R(v)])
    rules = [Rule(el, [Alt([R("Num")]), Alt([R("LPar"), R(v), R("RPar")])]),
             Rule(v, [rec, Alt([R(el)])], ann="vec")]
    return el, rules, dict(LPar="(", RPar=")"), "vec-boxed-%s" % direction


def f_opt_enum(rng, u):
    n = "MaybeE" + u
    w = "MaybeW" + u
    return w, [Rule(w, [Alt([R("LPar"), R(n), R("RPar")])]),
               Rule(n, [Alt([R("Num")]), Alt([R("Id")]), Alt([])])], dict(LPar="(", RPar=")"), "optional-enum"


def f_struct_empty(rng, u):
    n = "MaybeS" + u
    w = "MaybeSW" + u
    return w, [Rule(w, [Alt([R("LPar"), R(n), R("RPar")])]),
               Rule(n, [Alt([R("Num"), R("Id")]), Alt([])])], dict(LPar="(", RPar=")"), "optional-struct"


def f_opt_ref(rng, u):
    n = "MaybeR" + u
    w = "MaybeRW" + u
    return w, [Rule(w, [Alt([R("LPar"), R(n), R("RPar")])]),
               Rule(n, [Alt([R("Num")]), Alt([])])], dict(LPar="(", RPar=")"), "optional-ref"


def f_expr(rng, u):
    n = "Expr" + u
    kinds = rng.choice([True, False])
    named = rng.choice([True, False])

    def bin_(op, kind, meta):
        l = R(n, name="left") if named else R(n)
        r = R(n, name="right") if named else R(n)
        return Alt([l, R(op), r], kind=kind if kinds else None, meta=meta)
    alts = [bin_("Plus", "Add", "1, left"), bin_("Star", "Mul", "2, left"),
            Alt([R("LPar"), R(n), R("RPar")], kind="Paren" if kinds else None),
            Alt([R("Num")], kind="Number" if kinds else None)]
    return n, [Rule(n, alts)], dict(Plus="+", Star="*", LPar="(", RPar=")"), \
        "rec-expr%s%s" % ("-kinds" if kinds else "", "-named" if named else "")


def f_rec_mutual(rng, u):
    b, s = "Block" + u, "Stmt" + u
    op = rng.choice(["*", "+"])
    return b, [Rule(b, [Alt([R("LBrace"), R(s, op=op), R("RBrace")])]),
               Rule(s, [Alt([R(b)]), Alt([R("Num"), R("Semi")]), Alt([R("KLet"), R("Id"), R("Semi")])])], \
        dict(LBrace="{", RBrace="}", Semi=";", KLet="let"), "rec-mutual-" + {"*": "star", "+": "plus"}[op]


def f_rec_struct(rng, u):
    n = "Cons" + u
    v = rng.choice(["struct", "enum"])
    if v == "struct":
        alts = [Alt([R("Num"), R("Arrow"), R(n)]), Alt([R("KNil")])]
    else:
        alts = [Alt([R("Num"), R("Arrow"), R(n)]), Alt([R("Id"), R("Arrow"), R(n)]), Alt([R("KNil")])]
    return n, [Rule(n, alts)], dict(Arrow="->", KNil="nil"), "rec-direct-" + v


def f_rec_optref(rng, u):
    n = "Chain" + u
    w = "ChainW" + u
    return w, [Rule(w, [Alt([R("LPar"), R(n), R("RPar")])]),
               Rule(n, [Alt([R("KDot"), R(n)]), Alt([])])], dict(LPar="(", RPar=")", KDot="."), "rec-optional-ref"


def f_same_choice(rng, u):
    n = "Signed" + u
    return n, [Rule(n, [Alt([R("Num")]), Alt([R("KNeg"), R("Num")]), Alt([R("KPos"), R("Num")])])], \
        dict(KNeg="neg", KPos="pos"), "choice-name-dedup"


def f_kinds(rng, u):
    n = "Lit" + u
    return n, [Rule(n, [Alt([R("Num")], kind="Number"), Alt([R("Id")], kind="Ident"),
                        Alt([R("Str"), R("Num")], kind="Tagged")])], {}, "kinds"


def f_nested_opt_vec(rng, u):
    n = "Call" + u
    a = "Arg" + u
    return n, [Rule(n, [Alt([R("Id", name="callee"), R("LPar"), R(a, op="*", sep="Comma", name="args"), R("RPar")])]),
               Rule(a, [Alt([R("Num")]), Alt([R("Id", name="name"), R("Colon"), R("Num", name="value")]),
                        Alt([R(n)])])], dict(LPar="(", RPar=")", Comma=",", Colon=":"), "nested-call-args"


FEATURES = [f_enum_plain, f_ref_chain, f_struct, f_optional, f_repeat, f_vec, f_vec_boxed, f_opt_enum, f_struct_empty,
            f_opt_ref, f_expr, f_rec_mutual, f_rec_struct, f_rec_optref, f_same_choice, f_kinds,
            f_nested_opt_vec]

TAGS = ["ka", "kb", "kc", "kd", "ke", "kf", "kg", "kh"]


def compose(rng, feats, top=None, unreachable=False, inline=False):
    """Top: Item+ ; Item: 'ka' F1 ';;' | 'kb' F2 ';;' ...  — every feature is delimited by a tag and
    an end marker, so the composition of LR features stays LR."""
    top = top or rng.choice(["plus", "star", "vec-left", "sep"])
    rules, strterms, tags = [], {}, []
    item_alts = []
    for i, f in enumerate(feats):
        entry, rs, st, tag = f(rng, str(i + 1))
        rules.extend(rs)
        strterms.update(st)
        tags.append(tag)
        tn = "Tag%d" % (i + 1)
        strterms[tn] = TAGS[i]
        item_alts.append(Alt([R(tn), R(entry), R("End")]))
    strterms["End"] = ";;"
    if top == "plus":
        head = [Rule("Top", [Alt([R("Item", op="+")])])]
    elif top == "star":
        head = [Rule("Top", [Alt([R("Item", op="*")])])]
    elif top == "sep":
        strterms["Bar"] = "|"
        head = [Rule("Top", [Alt([R("Item", op="+", sep="Bar")])])]
    else:
        head = [Rule("Top", [Alt([R("Items")])]), Rule("Items", [Alt([R("Items"), R("Item")]), Alt([R("Item")])],
                                                      ann="vec")]
    rules = head + [Rule("Item", item_alts)] + rules
    if unreachable == "shared":
        # an unreachable rule built only from terminals the reachable part uses (no unreachable terminal exists)
        used = [x.sym for r in rules for a in r.alts for x in a.refs if x.sym in CONTENT]
        t1 = used[0] if used else "End"
        t2 = used[-1] if used else "End"
        rules.append(Rule("Orphan", [Alt([R(t1), R(t2)]), Alt([R("OrphanKid")])]))
        rules.append(Rule("OrphanKid", [Alt([R("End"), R(t1)])]))
        tags.append("unreachable-shared-terminals")
    elif unreachable:
        rules.append(Rule("Orphan", [Alt([R("OrphanKid"), R("Num")]), Alt([R("KOrphan")])]))
        rules.append(Rule("OrphanKid", [Alt([R("Up")])]))
        strterms["KOrphan"] = "orphan"
        strterms["KNever"] = "never"
        tags.append("unreachable")
    return AG(rules, strterms, shape="+".join(tags), features=tags + ["top-" + top], inline=inline)


def random_ag(rng, nfeat=None, exclude=()):
    nfeat = nfeat or rng.choice([1, 2, 3, 3, 4])
    pool = [f for f in FEATURES if f not in exclude]
    feats = [rng.choice(pool) for _ in range(nfeat)]
    return compose(rng, feats, unreachable=rng.choice([False, False, False, False, True, "shared"]), inline=rng.random() < 0.3)


def feature_cover(rng, per_feature=2, exclude=()):
    """one grammar per feature (so that a rustc rejection is attributable to a single shape)"""
    out = []
    for f in FEATURES:
        if f in exclude:
            continue
        for _ in range(per_feature):
            out.append(compose(rng, [f], top=rng.choice(["plus", "vec-left"]), inline=False))
    return out


# ------------------------------------------------------------------------ hand-written shapes
def handwritten():
    H = []

    def add(shape, text, inputs):
        H.append((shape, text, inputs))

    add("unreachable-shared-terminals", "S: Item+;\nItem: Id | Num;\nPair: Id Num;\nterminals\nId: /[a-z]+/;\nNum: /\\d+/;\n",
        ["a 1 b", "7"])
    add("unreachable-own-terminals", "S: Item+;\nItem: Id | Num;\nPair: Id Up;\nterminals\nId: /[a-z]+/;\nNum: /\\d+/;\n"
        "Up: /[A-Z]+/;\n", ["a 1 b", "7"])
    add("vec-right-boxed", "S: Item;\nItem: Num | '(' Items ')';\n@vec Items: Item Items | Item;\nterminals\nNum: /\\d+/;\n"
        "LP: '(';\nRP: ')';\n", ["( 1 2 3 )", "( 1 ( 2 3 ) 4 )", "5"])
    add("vec-left-boxed", "S: Item;\nItem: Num | '(' Items ')';\n@vec Items: Items Item | Item;\nterminals\nNum: /\\d+/;\n"
        "LP: '(';\nRP: ')';\n", ["( 1 2 3 )", "( 1 ( 2 3 ) 4 )", "5"])
    add("struct-plain-then-named", "S: Entry+;\nEntry: Key ':' value=Val ';';\nKey: Id;\nVal: Num;\nterminals\nId: /[a-z]+/;\n"
        "Num: /\\d+/;\nColon: ':';\nSemi: ';';\n", ["a : 1 ;", "a : 1 ; bb : 22 ;"])
    add("struct-plain-then-named-terminals", "S: Id ':' value=Num second=Id;\nterminals\nId: /[a-z]+/;\nNum: /\\d+/;\nColon: ':';\n",
        ["a : 1 b", "zz : 42 q"])
    add("vec-left", "@vec A: A B | B;\nB: Num;\nterminals\nNum: /\\d+/;\n", ["1 2 3", "7", "4 5"])
    add("vec-right", "@vec A: B A | B;\nB: Num;\nterminals\nNum: /\\d+/;\n", ["1 2 3", "7", "4 5"])
    add("vec-left-direct", "@vec A: A Num | Num;\nterminals\nNum: /\\d+/;\n", ["1 2 3", "9"])
    add("vec-right-direct", "@vec A: Num A | Num;\nterminals\nNum: /\\d+/;\n", ["1 2 3", "9"])
    add("vec-left-empty", "S: '[' A ']';\n@vec A: A Num | EMPTY;\nterminals\nLB: '[';\nRB: ']';\nNum: /\\d+/;\n",
        ["[ 1 2 3 ]", "[ ]", "[ 5 ]"])
    add("vec-right-empty", "S: '[' A ']';\n@vec A: Num A | EMPTY;\nterminals\nLB: '[';\nRB: ']';\nNum: /\\d+/;\n",
        ["[ 1 2 3 ]", "[ ]", "[ 5 ]"])
    add("sugar-star-plus-opt", "S: Num* Id+ Str?;\nterminals\nNum: /\\d+/;\nId: /[a-z]+/;\nStr: /\"[^\"]*\"/;\n",
        ["1 2 a b \"s\"", "a", "1 a", "a b c"])
    add("sugar-sep", "S: Num+[Comma] ';' Id*[Comma];\nterminals\nNum: /\\d+/;\nId: /[a-z]+/;\nComma: ',';\nSemi: ';';\n",
        ["1, 2, 3 ; a, b", "1 ;", "4 ; x"])
    add("bool-assign", "S: is_pub?='pub' name=Id value=Num?;\nterminals\nPub: 'pub';\nId: /[a-z]+/;\nNum: /\\d+/;\n",
        ["pub x 1", "x", "pub y", "z 3"])
    add("bool-assign-content", "S: flag?=Id Num other?=Str?;\nterminals\nNum: /\\d+/;\nId: /[a-z]+/;\nStr: /\"[^\"]*\"/;\n",
        ["x 1", "y 2 \"s\""])
    add("right-nulled", "S: A B Cc;\nA: Num;\nB: Id | EMPTY;\nCc: Str | EMPTY;\nterminals\nNum: /\\d+/;\nId: /[a-z]+/;\n"
        "Str: /\"[^\"]*\"/;\n", ["1", "1 a", "1 \"s\"", "1 a \"s\""])
    add("right-nulled-opt", "S: Num Id? Str? Up?;\nterminals\nNum: /\\d+/;\nId: /[a-z]+/;\nStr: /\"[^\"]*\"/;\n"
        "Up: /[A-Z]+/;\n", ["1", "1 a", "1 \"s\"", "1 a \"s\" X", "1 X"])
    add("right-nulled-vec", "S: Num A;\n@vec A: A Id | EMPTY;\nterminals\nNum: /\\d+/;\nId: /[a-z]+/;\n",
        ["1", "1 a", "1 a b c"])
    add("right-nulled-struct", "S: Num B;\nB: Cc D;\nCc: Id | EMPTY;\nD: Str | EMPTY;\nterminals\nNum: /\\d+/;\n"
        "Id: /[a-z]+/;\nStr: /\"[^\"]*\"/;\n", ["1", "1 a", "1 \"s\"", "1 a \"s\""])
    add("right-nulled-recursive-ref", "S: A;\nA: Num B;\nB: A | EMPTY;\nterminals\nNum: /\\d+/;\n", ["1", "1 2 3"])
    add("right-nulled-vec-tail", "S: Num A;\n@vec A: A Id | Id | EMPTY;\nterminals\nNum: /\\d+/;\nId: /[a-z]+/;\n",
        ["1", "1 a", "1 a b"])
    add("right-nulled-box-option", "S: 'x' Inl;\nInl: El*;\nEl: '(' Inl ')' | Num;\nterminals\nX: 'x';\nLP: '(';\n"
        "RP: ')';\nNum: /\\d+/;\n", ["x", "x 1 ( 2 ( ) )", "x ( ( 3 ) 4 )"])
    add("right-nulled-star", "S: Num Id* Str*;\nterminals\nNum: /\\d+/;\nId: /[a-z]+/;\nStr: /\"[^\"]*\"/;\n",
        ["1", "1 a b", "1 \"s\" \"t\"", "1 a \"s\""])
    add("enum-struct-mix", "S: Num Id {Pair} | Str {Text} | 'nil' {Nil} | '(' S ')' {Nested};\nterminals\nNum: /\\d+/;\n"
        "Id: /[a-z]+/;\nStr: /\"[^\"]*\"/;\nNil: 'nil';\nLP: '(';\nRP: ')';\n", ["1 a", "\"t\"", "nil", "( ( 2 b ) )"])
    add("calc", "E: E '+' E {Add, 1, left}\n | E '*' E {Mul, 2, left}\n | '(' E ')' {Paren}\n | Num {Num};\nterminals\n"
        "Plus: '+';\nMul: '*';\nLP: '(';\nRP: ')';\nNum: /\\d+/;\n", ["1 + 2 * 3", "( 1 + 2 ) * 3", "4"])
    add("json-like", "Value: Obj | Arr | Str | Num | 'true' {True} | 'null' {Null};\nObj: '{' Member*[Comma] '}';\n"
        "Member: key=Str ':' value=Value;\nArr: '[' Value*[Comma] ']';\nterminals\nLB: '{';\nRB: '}';\nLS: '[';\n"
        "RS: ']';\nComma: ',';\nColon: ':';\nTrue: 'true';\nNull: 'null';\nStr: /\"[^\"]*\"/;\nNum: /\\d+/;\n",
        ["{ \"a\" : 1 , \"b\" : [ 1 , 2 , null ] }", "[ ]", "{ }", "[ true , \"x\" ]", "3"])
    return H


# names that collide with what the generated code itself uses
ODD_RULE_NAMES = ["C", "Box", "Vec", "Option", "String", "Token", "Input", "Ctx", "Context", "State", "Symbol",
                  "Terminal", "NonTerminal", "Some", "None", "Result", "TokenKind", "ProdKind", "Builder",
                  "DefaultBuilder", "Parser", "ValSpan", "Debug", "Clone", "Lexer", "Self_", "Type", "Fn", "Mod"]
ODD_TERM_NAMES = ["Box", "Option", "String", "Token", "Input", "STOP", "EMPTY", "Terminal", "Vec", "None", "Ctx"]
ODD_ASSIGN_NAMES = ["type", "fn", "match", "self", "ref", "box", "mod", "r#type", "_ctx", "token", "context",
                    "Self", "crate", "async", "dyn", "_"]


def odd_name_grammars():
    """small grammars with one unusual (but syntactically accepted) name each"""
    out = []
    for n in ODD_RULE_NAMES:
        # the odd rule is used as a struct, inside an optional and inside a vector
        out.append(("odd-rule-name:" + n,
                    "S: %s+ Tail?;\n%s: Id ':' Num;\nTail: 'end' Num;\nterminals\nId: /[a-z]+/;\nNum: /\\d+/;\n"
                    "Colon: ':';\nEnd: 'end';\n" % (n, n), ["a : 1 b : 2 end 3", "a : 1"]))
    for n in ODD_TERM_NAMES:
        out.append(("odd-terminal-name:" + n,
                    "S: %s Num | Num;\nterminals\n%s: /[a-z]+/;\nNum: /\\d+/;\n" % (n, n), ["a 1", "2"]))
    for n in ODD_ASSIGN_NAMES:
        out.append(("odd-assign-name:" + n,
                    "S: %s=Id ':' value=Num;\nterminals\nId: /[a-z]+/;\nNum: /\\d+/;\nColon: ':';\n" % n, ["a : 1"]))
    # F8: two alternatives of one rule with the same {Kind}
    out.append(("dup-kind", "S: A {X} | B {X} | C {X1};\nA: Num;\nB: Id;\nC: Str;\nterminals\nNum: /\\d+/;\n"
                "Id: /[a-z]+/;\nStr: /\"[^\"]*\"/;\n", ["1", "a"]))
    out.append(("dedup-collision", "S: A | 'x' A | A1;\nA: Num;\nA1: Id;\nterminals\nNum: /\\d+/;\nId: /[a-z]+/;\nX: 'x';\n",
                ["1", "x 2", "a"]))
    out.append(("kind-equals-rule-name", "S: A {A} | Id {S};\nA: Num;\nterminals\nNum: /\\d+/;\nId: /[a-z]+/;\n",
                ["1", "a"]))
    out.append(("kind-equals-struct-name", "S: Num Id {Foo} | Foo;\nFoo: Str Num;\nterminals\nNum: /\\d+/;\n"
                "Id: /[a-z]+/;\nStr: /\"[^\"]*\"/;\n", ["1 a", "\"s\" 2"]))
    out.append(("snake-collision", "S: AB | A_B;\nAB: Num;\nA_B: Id;\nterminals\nNum: /\\d+/;\nId: /[a-z]+/;\n", ["1", "a"]))
    out.append(("field-name-collision", "S: num=Id Num;\nterminals\nNum: /\\d+/;\nId: /[a-z]+/;\n", ["a 1"]))
    out.append(("helper-name-collision", "S: A* A0;\nA: Num;\nA0: Id;\nterminals\nNum: /\\d+/;\nId: /[a-z]+/;\n",
                ["1 2 a", "a"]))
    out.append(("opt-helper-collision", "S: A? AOpt;\nA: Num;\nAOpt: Id;\nterminals\nNum: /\\d+/;\nId: /[a-z]+/;\n",
                ["1 a", "a"]))
    return out
