"""C01 — a deterministic LR parser accepts exactly the language of its grammar.

(T) Properties/C01.v: lr_complete, c01_iff, sentence_never_errors, lr_unique (+ C02.lr_sound).
(V) wf_grammar_b, sound_b, complete_b evaluated (vm_compute) on the REAL LALR and LALR_PAGER tables of
    every generated grammar that is conflict-free with no disambiguation (decided by compiling with the
    GLR algorithm, same table type, all shift preferences off: zero conflicts).
(C) real LRParser outcome == model outcome on every input; and the statement itself on the real code:
    every bounded-language sentence is accepted, every accepted input's tree is a derivation (verified
    oracle), every short non-sentence is rejected."""
import itertools
import random

from rvlib import *  # noqa
import grammars as GR
import lrcommon as LC
from common import TRUSTED_BASE

LEVEL = "proof"


def derivation_tree(g, dump, tokens):
    """Python search for a derivation tree of `tokens` (letters) from the start symbol; returns nested
    ('N', prod, [children]) / ('T', kind) or None. The result is only a WITNESS: it is judged by the
    Coq-verified derivation_b before being used."""
    rules = dict(g.rules)
    names = {n["name"]: n["idx"] + dump.nterm for n in dump.nonterms}
    prod_of = {}
    for p in dump.prods:
        prod_of[(p["lhs"], tuple(p["rhs"]))] = p["idx"]

    def symidx(x):
        return GR.TERMS.index(x) + 1 if x in GR.TERMS else names[x]

    toks = list(tokens)
    memo = {}

    budget = [400000]

    def nt(n, i, j, depth):
        key = (n, i, j)
        if key in memo:
            return memo[key]
        budget[0] -= 1
        if depth > 12 or budget[0] < 0:
            return None
        memo[key] = None  # cut cycles
        for alt in rules[n]:
            ch = seq(alt, i, j, depth)
            if ch is not None:
                pidx = prod_of.get((names[n], tuple(symidx(x) for x in alt)))
                if pidx is None:
                    continue
                memo[key] = ("N", pidx, ch)
                return memo[key]
        del memo[key]
        return None

    def seq(alt, i, j, depth):
        if not alt:
            return [] if i == j else None
        x, rest = alt[0], alt[1:]
        if x in GR.TERMS:
            if i < j and toks[i] == x:
                r = seq(rest, i + 1, j, depth)
                if r is not None:
                    return [("T", symidx(x))] + r
            return None
        for k in range(i, j + 1):
            a = nt(x, i, k, depth + 1)
            if a is None:
                continue
            r = seq(rest, k, j, depth)
            if r is not None:
                return [a] + r
        return None

    return nt(g.rules[0][0], 0, len(toks), 0)


def make_grammars(tier, seed):
    rng = random.Random(seed * 7919 + 1)
    gs = [g for g in GR.corpus() if not g.meta and not g.tmeta]
    n = 220 if tier == "quick" else 3000
    for _ in range(n):
        gs.append(GR.random_grammar(rng))
    for _ in range(n):
        gs.append(GR.merge_family(rng))
    for _ in range(n // 4):
        gs.append(GR.late_lookahead_family(rng))
    for _ in range(n // 5):
        gs.append(GR.first_chain_family(rng))
    return gs, rng


def run(rep, tier, seed):
    gs, rng = make_grammars(tier, seed)
    maxlen = 5 if tier == "quick" else 6
    # 1. scope: conflict-free with no disambiguation (GLR algorithm keeps every conflict)
    probe = []
    uniq = {}
    for gi, g in enumerate(gs):
        if g.key() in uniq:
            continue
        uniq[g.key()] = gi
        for table in ("LALR", "LALR_PAGER"):
            probe.append(Case("p%d_%s" % (gi, table), g.text(), [], algo="GLR", table=table, run="NONE",
                              flags=dict(ps=0, pse=0), meta=dict(gi=gi, table=table)))
    pres = run_cases(probe, "c01probe")
    inscope = []
    n_conf = n_err = 0
    for r in pres:
        if r.status == "OK" and r.dump is not None and r.dump.conflicts == 0 and not r.dump.missing_rec:
            inscope.append((r.case.meta["gi"], r.case.meta["table"]))
        elif r.status == "OK":
            n_conf += 1
        else:
            n_err += 1
    # 2. the LR parser for every in-scope (grammar, table type)
    cases, toks, oracle = [], [], []
    oracle_by_id = {}
    for gi, table in inscope:
        g = gs[gi]
        valid, longer, invalid, sset = GR.inputs_for(g, rng, maxlen=maxlen)
        words = list(valid) + list(longer) + list(invalid)
        flags = dict(ps=rng.random() < 0.5, pse=rng.random() < 0.5, partial=0)
        cases.append(Case("g%d_%s" % (gi, table), g.text(inline=(gi % 4 == 0)), [GR.render(w) for w in words],
                          algo="LR", table=table, run="LR", flags=flags, meta=dict(gi=gi, shape=g.shape)))
        toks.append(words)
        oracle.append((set(valid) | set(longer), set(invalid)))
        oracle_by_id["g%d_%s" % (gi, table)] = oracle[-1]
    results = run_cases(cases, "c01")
    triples = []
    for r, w in zip(results, toks):
        base = dict(grammar=r.case.grammar, table=r.case.table, flags=r.case.flags)
        if not (r.status == "OK" and r.dump is not None):
            rep.violation("lr-compile", "grammar is conflict-free with no disambiguation but the LR compile failed",
                          dict(base, status=r.status, msg=r.msg))
            continue
        if r.dump.conflicts != 0:
            rep.violation("spurious-conflict", "conflict-free automaton (GLR probe) but LR compile reports conflicts",
                          dict(base, conflicts=r.dump.conflicts))
            continue
        triples.append((r.case.id, r, w))
    ev = LC.eval_cases("c01", triples, extra_validators=("complete_b g%(n)d T%(n)d",))
    n_val = n_inputs = n_sent = n_nons = 0
    shapes = {}
    samples = []
    for (tag, r, w) in triples:
        sents, nons = oracle_by_id[tag]
        g = gs[r.case.meta["gi"]]
        base = dict(grammar=r.case.grammar, table=r.case.table, flags=r.case.flags)
        e = ev.get(tag)
        if e is None or "error" in e:
            rep.violation("coq-eval", "Coq evaluation of the case failed", dict(base, err=(e or {}).get("error")),
                          found_input=False)
            continue
        n_val += 1
        shapes[r.case.meta["shape"]] = shapes.get(r.case.meta["shape"], 0) + 1
        wf, sound, complete = e["vals"][0], e["vals"][1], e["vals"][2]
        # the statement on the real code first
        stmt_bad = False
        for i, word in enumerate(w):
            out = r.results.get(("LR", i), "")
            n_inputs += 1
            accepted = out.startswith("OK")
            if accepted and not e["oracle"].get(i, False):
                rep.violation("not-a-derivation", "real LR parser accepted an input with a tree that is not a derivation",
                              dict(base, input=GR.render(word), real=out))
                stmt_bad = True
                break
            if word in sents:
                n_sent += 1
                if not accepted:
                    if confirm_sentence(rep, g, r, word, base, out):
                        stmt_bad = True
                        break
            elif word in nons:
                n_nons += 1
                # accepted with a verified derivation tree => the Python language oracle was wrong (machinery)
                if accepted:
                    rep.violation("oracle-mismatch", "bounded-language oracle says non-sentence but a verified "
                                  "derivation exists (machinery defect)", dict(base, input=GR.render(word)), found_input=False)
                    stmt_bad = True
                    break
        if stmt_bad:
            continue
        if not (wf and sound and complete):
            which = [n for n, b in (("wf_grammar_b", wf), ("sound_b", sound), ("complete_b", complete)) if not b]
            if not search_rejected_sentence(rep, g, r, base, maxlen + 2):
                rep.violation("validator", "%s false on the real table of a conflict-free grammar" % "/".join(which),
                              dict(base, obligation="Spec.Validators.%s (hypothesis of Properties.C01.c01_iff)" % which[0]),
                              found_input=False)
            continue
        for i, okb in enumerate(e["corr"]):
            if not okb:
                model = LC.show_model_outcome(r, w[i], 0)
                rep.violation("corr-lr", "real LRParser and the Gallina LR model disagree",
                              dict(base, input=GR.render(w[i]), real=r.results.get(("LR", i)), model=model,
                                   obligation="correspondence Model.LR.run vs rustemo::LRParser"), found_input=False)
                break
        if len(samples) < 5 and r.case.meta["shape"] not in [s["shape"] for s in samples]:
            samples.append(dict(shape=r.case.meta["shape"], grammar=r.case.grammar, table=r.case.table,
                                sentence=GR.render(w[0]) if w else "", real=r.results.get(("LR", 0), "")[:160]))
    pt = rep.theorems or {}
    nthm = len(pt.get("theorems", []))
    rep.coverage = dict(
        obligations=nthm + 3 * n_val, discharged=(pt.get("closed", 0) if not rep.violations else 0) + 3 * n_val,
        checker_cmd="make -C coq Properties/C01.vo ; coqc work/c01_*.v (vm_compute of wf_grammar_b, sound_b, complete_b)",
        trusted_base=TRUSTED_BASE, theorems=pt.get("theorems", []),
        programs=n_val, evaluations=n_inputs, distinct_nontrivial=n_sent,
        rule="grammars: unannotated corpus + structured random BNF; in scope iff compiling with the GLR algorithm "
             "(conflicts kept) and the same table type yields zero conflicts; both LALR and LALR_PAGER; inputs: "
             "sentences <= %d tokens from a bounded-language oracle, longer sampled sentences, mutated non-sentences; "
             "non-trivial = sentences" % maxlen,
        grammars_generated=len(gs), table_probes=len(probe), probes_with_conflicts=n_conf, probes_compiler_error=n_err,
        in_scope=len(inscope), validated=n_val, shapes=shapes, sentences=n_sent, non_sentences=n_nons,
        samples=samples)
    rep.assumptions = ["token-level: each terminal is a distinct one-letter string recognizer (lexing is C06's subject)",
                       "bounded-language oracle (Python) only proposes; a rejected sentence is reported only with a "
                       "derivation tree accepted by the Coq-verified derivation_b"]


def confirm_sentence(rep, g, r, word, base, out):
    t = derivation_tree(g, r.dump, word)
    if t is None:
        # the bounded-language oracle proposed a sentence the real parser rejects and no derivation tree was found
        # within the search budget: not reported as a violation (nothing verified), but never silent
        msg = "rejected word proposed as a sentence, no derivation tree found: %s | %r | table %s" % (
            GR.render(word), r.case.grammar, r.case.table)
        rep.notes.append(msg)
        print("NOTE: " + msg[:400])
        return False
    kinds = LC.letters_to_kinds(word)
    body = LC.HEADER + "Definition g := %s.\nEval vm_compute in [derivation_b g (%s) %s].\n" % (
        gl_grammar(r.dump), gl_tree(t), gl_nats(kinds))
    ok, o = coq_eval("c01_witness", body)
    b = parse_bools(o)
    if ok and b and b[0] and b[0][0]:
        rep.violation("sentence-rejected", "a sentence of a conflict-free grammar is rejected by the real LR parser",
                      dict(base, input=GR.render(word), real=out, derivation=gl_tree(t)))
        return True
    return False


def search_rejected_sentence(rep, g, r, base, maxlen):
    lang = g.language(maxlen)
    sents = sorted(lang[g.rules[0][0]], key=lambda s: (len(s), s))[:3000]
    if not sents:
        return False
    c = Case("search", r.case.grammar, [GR.render(w) for w in sents], algo="LR", table=r.case.table, run="LR",
             flags=r.case.flags)
    rr = run_cases([c], "c01search", shards=1)[0]
    for i, w in enumerate(sents):
        out = rr.results.get(("LR", i), "")
        if not out.startswith("OK"):
            if confirm_sentence(rep, g, r, w, base, out):
                return True
    # accepted non-sentences: every short string outside the bounded language
    letters = GR.TERMS[:g.nterms]
    sset = set(sents)
    others = [w for n in range(0, min(maxlen, 5) + 1) for w in itertools.product(letters, repeat=n) if w not in sset][:2000]
    c = Case("search2", r.case.grammar, [GR.render(w) for w in others], algo="LR", table=r.case.table, run="LR",
             flags=r.case.flags)
    rr = run_cases([c], "c01search2", shards=1)[0]
    acc = [(i, w) for i, w in enumerate(others) if rr.results.get(("LR", i), "").startswith("OK")]
    if acc and rr.dump is not None:
        ev = LC.eval_cases("c01search2", [("s", rr, others)], per_file=1)
        for i, okb in (ev.get("s", {}).get("oracle") or {}).items():
            if not okb:
                rep.violation("not-a-derivation", "real LR parser accepted an input with a tree that is not a derivation",
                              dict(base, input=GR.render(others[i]), real=rr.results.get(("LR", i))))
                return True
    return False


def replay(rep, path):
    import json
    p = json.load(open(path))
    c = Case("replay", p["grammar"], [p.get("input", "")], algo="LR", table=p.get("table", "LALR_PAGER"), run="LR",
             flags=p.get("flags", {}))
    r = run_cases([c], "c01replay", shards=1)[0]
    print("real   :", r.results.get(("LR", 0)))
    if r.dump is not None:
        w = tuple(p.get("input", "").split())
        print("model  :", LC.show_model_outcome(r, w, 0))
        if p.get("derivation"):
            body = LC.HEADER + "Definition g := %s.\nEval vm_compute in [derivation_b g (%s) %s].\n" % (
                gl_grammar(r.dump), p["derivation"], gl_nats(LC.letters_to_kinds(w)))
            print("oracle : derivation_b =", parse_bools(coq_eval("c01_replay", body)[1]))
    rep.coverage = dict(obligations=1, discharged=1, checker_cmd="replay", trusted_base=[])
