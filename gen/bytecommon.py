"""Byte-level LR correspondence shared by C06, C12, C13, C14, C15: grammars with real lexical
structure (string/regex terminals, overlaps, priorities, whitespace variety, Layout rules),
arbitrary input text, the real LRParser+StringLexer vs Model/LRBytes.v."""
import random

from rvlib import *  # noqa
import grammars as GR

# (recognizer kind, recognizer text as written in the grammar, sample lexemes)
POOL_STR = [("S", "a", ["a"]), ("S", "b", ["b"]), ("S", "ab", ["ab"]), ("S", "abc", ["abc"]), ("S", "+", ["+"]),
            ("S", "++", ["++"]), ("S", "-", ["-"]), ("S", "=", ["="]), ("S", "==", ["=="]), ("S", "(", ["("]),
            ("S", ")", [")"]), ("S", "if", ["if"]), ("S", "iff", ["iff"]), ("S", "i", ["i"]), ("S", ",", [","]),
            ("S", ";", [";"]), ("S", "é", ["é"]), ("S", "→", ["→"])]
POOL_RE = [("R", r"\d+", ["0", "42", "007"]), ("R", r"[a-z]+", ["x", "if", "abc", "ab"]),
           ("R", r"[a-z][a-z0-9]*", ["x1", "a", "ab2"]), ("R", r"\d+\.\d+", ["1.5", "0.0"]),
           ("R", r'"[^"]*"', ['""', '"a b"', '"\u00e9"', '"x\n\u017e\u0107"', '"\n\u2192"']), ("R", r"[α-ω]+", ["αβ", "ω"]),
           ("R", r"[A-Z]\w*", ["Ab", "X"]), ("R", r"(a|b)+", ["abba", "b"]), ("R", r"a*b", ["aab", "b"])]
WS_CHOICES = [" ", " ", " ", "  ", "\t", "\n", "\r\n", " \n  ", "\u00a0", "\u3000", "", "\n\u3000", "\n\u00a0 ",
              " \n\u2003\u2003", "\u000b", "\u0085", " \r", "\n\r ", "\r \n"]


class BG:
    """grammar skeleton (GR.G over letters) + a lexical assignment letter -> (kind, text, samples, prio)"""

    def __init__(self, skel, lex, layout=None, shape=""):
        self.skel, self.lex, self.layout, self.shape = skel, lex, layout, shape

    def text(self):
        out = []
        for ri, (name, alts) in enumerate(self.skel.rules):
            parts = []
            for ai, alt in enumerate(alts):
                s = "EMPTY" if not alt else " ".join(("T" + x) if x in GR.TERMS else x for x in alt)
                m = self.skel.meta.get((ri, ai))
                if m:
                    s += " {%s}" % m
                parts.append(s)
            out.append("%s: %s;" % (name, " | ".join(parts)))
        if self.layout:
            out.append(self.layout[0])
        out.append("terminals")
        for t in GR.TERMS[:self.skel.nterms]:
            kind, txt, _, prio = self.lex[t]
            rec = ("'%s'" % txt) if kind == "S" else "/%s/" % txt
            out.append("T%s: %s%s;" % (t, rec, (" {%d}" % prio) if prio is not None else ""))
        if self.layout:
            out.append(self.layout[1])
        return "\n".join(out) + "\n"

    def render(self, tokens, rng, ws=None):
        parts = []
        for i, t in enumerate(tokens):
            sep = rng.choice(WS_CHOICES) if ws is None else ws
            if i == 0 and rng.random() < 0.7 and ws is None:
                sep = ""
            parts.append(sep + rng.choice(self.lex[t][2]))
        tail = rng.choice(["", "", " ", "\n"]) if ws is None else ""
        return "".join(parts) + tail


LAYOUTS = [
    ("Layout: LayoutItem+;\nLayoutItem: WS | Comment;", "WS: /\\s+/;\nComment: /\\/\\/.*/;", [" ", "\n", " // c\n", "\t//x\n "]),
    ("Layout: LayoutItem*;\nLayoutItem: WS | Comment;", "WS: /\\s+/;\nComment: /#[^\\n]*/;", [" ", "\n", " # c\n", "#\n"]),
    ("Layout: LayoutItem+ | EMPTY;\nLayoutItem: WS | Comment;", "WS: /\\s+/;\nComment: /\\/\\/.*/;", [" ", "\n", " // c\n", "\t//x\n "]),
    # a Layout rule that does NOT repeat: several layout items before a token are skipped in several rounds
    ("Layout: WS | Comment;", "WS: /\\s+/;\nComment: /\\/\\/.*\\n?/;", [" ", "\n", "//c\n", " \t ", "\n\n"]),   # every sample is ONE sentence of this rule (layout is parsed once per token)
    ("Layout: LayoutItem+;\nLayoutItem: WS | Comment;\nComment: CO Inner CC;\nInner: Inner Chunk | Inner Comment | EMPTY;",
     "WS: /\\s+/;\nCO: '/*';\nCC: '*/';\nChunk: /[^*\\/]+/;", [" ", "\n", " /* c */ ", "/* a /* n */ b */"]),
]


def random_bg(rng, layout_prob=0.25):
    skel = GR.random_grammar(rng)
    lex = {}
    used = set()
    for t in GR.TERMS[:skel.nterms]:
        for _ in range(20):
            pool = POOL_STR if rng.random() < 0.6 else POOL_RE
            c = rng.choice(pool)
            if c[1] not in used:
                break
        used.add(c[1])
        prio = rng.choice([None, None, None, 5, 15, 20])
        lex[t] = (c[0], c[1], c[2], prio)
    layout = None
    if rng.random() < layout_prob:
        layout = rng.choice(LAYOUTS)
    return BG(skel, lex, layout, skel.shape + ("+layout" if layout else ""))


def corpus_bg():
    C = []

    def mk(rules, lexs, layout=None, shape=""):
        skel = GR.G(rules, len(lexs), shape=shape)
        lex = {GR.TERMS[i]: (k, t, s, p) for i, (k, t, s, p) in enumerate(lexs)}
        C.append(BG(skel, lex, layout, shape))

    mk([("S", [["a", "B", "c"]]), ("B", [[], ["b"]])],
       [("S", "a", ["a"], None), ("S", "b", ["b"], None), ("S", "c", ["c"], None)], shape="nullable-mid")
    mk([("S", [["S", "a"], ["a"]])], [("R", r"\d+", ["1", "22", "333"], None)], shape="numbers")
    mk([("E", [["E", "a", "T"], ["T"]]), ("T", [["T", "b", "F"], ["F"]]), ("F", [["c", "E", "d"], ["e"]])],
       [("S", "+", ["+"], None), ("S", "*", ["*"], None), ("S", "(", ["("], None), ("S", ")", [")"], None),
        ("R", r"\d+(\.\d+)?", ["1", "2.5", "10"], None)], shape="calc")
    mk([("S", [["A", "S"], []]), ("A", [["a"], ["b"], ["c"]])],
       [("S", "if", ["if"], None), ("S", "iff", ["iff"], None), ("R", r"[a-z]+", ["x", "ifx", "i"], None)],
       shape="keyword-vs-id")
    mk([("S", [["A", "S"], []]), ("A", [["a"], ["b"], ["c"]])],
       [("R", r"\d+\.\d+", ["1.5"], None), ("R", r"\d+", ["15", "1"], None), ("S", ".", ["."], None)],
       shape="float-vs-int")
    mk([("S", [["a", "B", "c"]]), ("B", [[], ["b"]])],
       [("S", "a", ["a"], None), ("S", "b", ["b"], None), ("S", "c", ["c"], None)], layout=LAYOUTS[0],
       shape="nullable-mid+layout")
    mk([("S", [["S", "a"], ["a"]])], [("R", r"\d", ["1", "2"], None)], layout=LAYOUTS[2], shape="digits+nested-comments")
    mk([("S", [["S", "a"], []])], [("R", r"[α-ω]+", ["αβ", "ω"], None)], shape="greek")
    mk([("S", [["A", "S"], ["A"]]), ("A", [["a"], ["b"], ["c"]])],
       [("R", r"ab", ["ab"], 15), ("R", r"zz", ["zz"], 15), ("R", r"abc", ["abc"], None)], shape="prio-groups")
    # a Layout rule that does not repeat: two layout items before a token are skipped in two rounds
    mk([("S", [["S", "a"], ["a"]])], [("S", "x", ["x"], None)], layout=LAYOUTS[3], shape="single-item-layout")
    # a production ending in a nullable symbol, inside a list, followed by layout: right-nulled reductions in GLR and
    # the place of the empty node relative to the layout (LR and GLR must agree, C07; node span = hull of children, C13)
    for k, lay in enumerate([None] + LAYOUTS):
        mk([("S", [["S", "I"], ["I"]]), ("I", [["a", "B", "c", "D"]]), ("B", [[], ["b"]]), ("D", [[], ["d"]])],
           [("S", "a", ["a"], None), ("S", "b", ["b"], None), ("S", "c", ["c"], None), ("S", "d", ["d"], None)],
           layout=lay, shape="rn-trailing-empty" + ("+layout%d" % k if lay else ""))
    return C


def garbage(rng):
    n = rng.randint(0, 12)
    alphabet = ["a", "b", "1", " ", "\n", "\t", "+", "é", "→", " ", "\x00", "\x7f", "𝄞", "\"", "/", "*", "#", "(", "\r"]
    return "".join(rng.choice(alphabet) for _ in range(n))


def inputs_bg(bg, rng, n_valid=12, n_invalid=8, n_garbage=6):
    valid, longer, invalid, _ = GR.inputs_for(bg.skel, rng, maxlen=4, nvalid=n_valid, ninvalid=n_invalid)
    texts = []
    for w in list(valid) + list(longer)[:3]:
        texts.append((bg.render(w, rng), "valid", w))
    for w in invalid:
        texts.append((bg.render(w, rng), "invalid", w))
    for _ in range(n_garbage):
        texts.append((garbage(rng), "garbage", None))
    if bg.layout:
        for w in list(valid)[:4]:
            parts = []
            for t in w:
                parts.append(rng.choice(bg.layout[2]) + rng.choice(bg.lex[t][2]))
            texts.append(("".join(parts) + rng.choice(["", " ", "\n"]), "valid-layout", w))
        # two layout samples in a row before each token: for a Layout rule that repeats this is layout again, for one
        # that does not it is no sentence (layout is parsed once per token) - LR and GLR must agree either way
        for w in list(valid)[:2]:
            parts = []
            for t in w:
                parts.append(rng.choice(bg.layout[2]) + rng.choice(bg.layout[2]) + rng.choice(bg.lex[t][2]))
            texts.append(("".join(parts), "layout-sequence", w))
    return texts


# --------------------------------------------------------------------- Gallina printers
def gl_pos(p):
    return "(mkPos %d %d %d)" % (p[0], p[1] if p[1] is not None else 0, p[2] if p[2] is not None else 0)


def gl_bytes(b):
    return gl_nats(list(b))


def gl_rtree(t):
    if t[0] == "T":
        _, kind, _, st, en, lay, val, ptr = t
        return "RLeaf %d (mkSpan %s %s) (%s) %s" % (kind, gl_pos(st), gl_pos(en),
                                                   "None" if lay is None else "Some %s" % gl_bytes(lay), gl_bytes(val))
    _, prod, ch, st, en, lay = t
    return "RNode %d (mkSpan %s %s) (%s) %s" % (prod, gl_pos(st), gl_pos(en),
                                               "None" if lay is None else "Some %s" % gl_bytes(lay),
                                               gl_list(["(%s)" % gl_rtree(c) for c in ch]))


def gl_mtable(m):
    rows = []
    for off in sorted(m):
        ws, d = m[off]
        rows.append("(%d, (%d, %s))" % (off, ws, gl_list(["(%d, %d)" % (t, d[t][0]) for t in sorted(d)])))
    return gl_list(rows)


def match_ok(m):
    """recognizer hypothesis `returns_prefix`: every match starts at the offset it was asked at and no
    recognizer panicked. Measured, not assumed."""
    for off, (ws, d) in m.items():
        for t, (l, rel) in d.items():
            if l == "P" or rel != 0:
                return False
    return True


PANIC_SITES = [
    ("index out of bounds: the len is 0", 2),
    ("Invalid goto", 4),
    ("attempt to subtract with overflow", 3),
    ("`at` split index", 3),
    ("called `Option::unwrap()` on a `None` value", 6),
]


def real_to_rout(outcome):
    w = outcome.split(" ", 1)
    if w[0] == "OK":
        t = parse_sexp(w[1])
        return "ROk (%s)" % gl_rtree(t), t
    if w[0] == "ERR":
        f = w[1].split(" ")
        if f[0] != "E":
            return "RErrNoAction", None
        exp = [] if f[5] == "-" else [int(x) for x in f[5].split(",")]
        return "RErr (mkPos %s %s %s) %s" % (f[1], f[2], f[3], gl_nats(exp)), None
    if w[0] == "PANIC":
        msg = unhx(w[1]).decode(errors="replace") if len(w) > 1 else ""
        site = 99
        for k, v in PANIC_SITES:
            if k in msg:
                site = v
                break
        return "RPanic %d" % site, None
    if w[0] == "TIMEOUT":
        return "RTimeout", None
    return "RPanic 97", None


BHEADER = ("From RV Require Import Model.LR Model.LRBytes Model.Compare Model.CompareBytes Spec.Validators "
           "Spec.TreeCheck Spec.SpanCheck Proofs.RoundTrip.\nOpen Scope nat_scope.\n")


def byte_jobs(name, items, per_file=6, extra=None):
    """items: list of (tag, CaseResult, texts). Produces Coq jobs evaluating per case:
       [shape_b]; per input bout_eqb(model, real); per real Ok tree the extra checkers.
       extra: function (n, i, rtree_term, inp_term) -> list of boolean Gallina terms (per Ok tree)."""
    files = []
    for k in range(0, len(items), per_file):
        chunk = items[k:k + per_file]
        body = [BHEADER]
        layout = []
        for n, (tag, r, texts) in enumerate(chunk):
            d = r.dump
            fl = r.case.flags
            has_layout = d.augl >= 0
            body.append("Definition g%d := %s." % (n, gl_grammar(d)))
            body.append("Definition T%d := %s." % (n, gl_table(d)))
            body.append("Definition cfg%d := mkCfg %s %s %s %s." % (
                n, gl_bool(fl.get("partial", 0)), gl_bool(fl.get("skipws", 1) and not has_layout),
                gl_bool(fl.get("lm", 1)), gl_bool(has_layout)))
            body.append("Eval vm_compute in [wf_grammar_b g%d; shape_b g%d T%d]." % (n, n, n))
            corr, idx, skipped, extras, extra_idx, mtoks = [], [], 0, [], [], []
            for i, text in enumerate(texts):
                out = r.results.get(("LR", i))
                m = r.matches.get(i)
                if out is None or m is None:
                    continue
                if not match_ok(m):
                    skipped += 1
                    continue
                inp = gl_bytes(text.encode())
                term, tree = real_to_rout(out)
                body.append("Definition i%d_%d : list nat := %s." % (n, i, inp))
                corr.append("bout_eqb i%d_%d (bparse_auto g%d T%d i%d_%d %s cfg%d) (%s)" % (
                    n, i, n, n, n, i, gl_mtable(m), n, term))
                idx.append(i)
                mtoks.append("mt_ok_b i%d_%d %s" % (n, i, gl_mtable(m)))
                if tree is not None and extra:
                    ex = extra(n, i, gl_rtree(tree), "i%d_%d" % (n, i), gl_mtable(m))
                    if ex:
                        extras.append("(%s)" % " && ".join(ex))
                        extra_idx.append(i)
            body.append("Eval vm_compute in %s." % gl_list(corr if corr else ["true"]))
            body.append("Eval vm_compute in %s." % gl_list(extras if extras else ["true"]))
            body.append("Eval vm_compute in %s." % gl_list(mtoks if mtoks else ["true"]))
            layout.append(dict(tag=tag, idx=idx, extra_idx=extra_idx, skipped=skipped))
        files.append(("%s_%d" % (name, k // per_file), "\n".join(body) + "\n", layout))
    outs = coq_eval_many([(f[0], f[1]) for f in files])
    res = {}
    for (fname, body, layout), (ok, out) in zip(files, outs):
        if not ok:
            for l in layout:
                res[l["tag"]] = dict(error=out[-2500:], file=fname)
            continue
        answers = parse_bools(out)
        if len(answers) != 4 * len(layout):
            for l in layout:
                res[l["tag"]] = dict(error="unexpected coq output (%d answers)\n%s" % (len(answers), out[-1500:]), file=fname)
            continue
        for j, l in enumerate(layout):
            vals, corr, ext, mto = answers[4 * j], answers[4 * j + 1], answers[4 * j + 2], answers[4 * j + 3]
            res[l["tag"]] = dict(vals=vals, corr=dict(zip(l["idx"], corr)), extra=dict(zip(l["extra_idx"], ext)),
                                 mtok=dict(zip(l["idx"], mto)), skipped=l["skipped"], file=fname)
    return res


def show_model(r, text, m):
    d = r.dump
    fl = r.case.flags
    has_layout = d.augl >= 0
    body = BHEADER + "Definition g := %s.\nDefinition T := %s.\nEval vm_compute in (bparse_auto g T %s %s (mkCfg %s %s %s %s)).\n" % (
        gl_grammar(d), gl_table(d), gl_bytes(text.encode()), gl_mtable(m), gl_bool(fl.get("partial", 0)),
        gl_bool(fl.get("skipws", 1) and not has_layout), gl_bool(fl.get("lm", 1)), gl_bool(has_layout))
    ok, out = coq_eval("replay_bmodel", body)
    return " ".join(out.split())[:3000]


def make_byte_cases(tier, seed, salt, n_random=None, layout_prob=0.25, partial_prob=0.2, lexer="default"):
    rng = random.Random(seed * 7919 + salt)
    bgs = corpus_bg()
    n = n_random if n_random is not None else (60 if tier == "quick" else 500)
    for _ in range(n):
        bgs.append(random_bg(rng, layout_prob))
    cases, texts_all, bgl = [], [], []
    for i, bg in enumerate(bgs):
        texts = inputs_bg(bg, rng)
        flags = dict(ps=rng.random() < 0.5, pse=rng.random() < 0.7, ms=rng.random() < 0.7, lm=rng.random() < 0.7,
                     go=1, partial=rng.random() < partial_prob, skipws=rng.random() < 0.9, match=1)
        table = rng.choice(["LALR", "LALR_PAGER"])
        cases.append(Case("b%d" % i, bg.text(), [t[0] for t in texts], algo="LR", table=table, run="LR", flags=flags,
                          lexer=lexer, meta=dict(shape=bg.shape, bi=i)))
        texts_all.append(texts)
        bgl.append(bg)
    return cases, texts_all, bgl
