"""Shared machinery of the rustemo verification checks.

 * case files for the Rust harness `rv`, running it (with resume after a hang or crash)
 * parsing the harness output (real dump + real outcomes)
 * printing dumps as Gallina terms, running coqc on generated case files
 * evidence / violation reporting
"""
import hashlib
import json
import os
import random
import re
import subprocess
import sys
import time
from concurrent.futures import ThreadPoolExecutor

VERIF = os.path.dirname(os.path.dirname(os.path.abspath(__file__)))
REPO = os.environ.get("RV_REPO", "/repo")
CACHE = os.path.join(VERIF, ".cache")
WORK = os.path.join(VERIF, "work")
TARGET = os.path.join(CACHE, "target")
RV = os.path.join(TARGET, "debug", "rv")
COQDIR = os.path.join(VERIF, "coq")
NCPU = int(os.environ.get("RV_JOBS", "16"))


def hx(s):
    b = s.encode() if isinstance(s, str) else s
    return b.hex() if b else "-"


def unhx(s):
    return b"" if s == "-" else bytes.fromhex(s)


def sh(cmd, timeout=None, cwd=None, env=None):
    e = dict(os.environ)
    e["CARGO_NET_OFFLINE"] = "true"
    if env:
        e.update(env)
    p = subprocess.run(cmd, shell=isinstance(cmd, str), cwd=cwd, env=e, timeout=timeout,
                       stdout=subprocess.PIPE, stderr=subprocess.STDOUT, text=True, errors="replace")
    return p.returncode, p.stdout


# --------------------------------------------------------------------- builds
def build_harness():
    """Rebuild the harness against /repo's current working tree (hooks on)."""
    rc, out = sh(["cargo", "build", "--offline", "--manifest-path",
                  os.path.join(VERIF, "harness", "Cargo.toml")],
                 env={"CARGO_TARGET_DIR": TARGET}, timeout=3000)
    if rc != 0:
        return False, out
    return True, out


def build_coq(targets=None):
    if not os.path.exists(os.path.join(COQDIR, "Makefile")):
        sh("coq_makefile -f _CoqProject -o Makefile", cwd=COQDIR)
    cmd = ["make", "-j%d" % NCPU] + (targets or [])
    rc, out = sh(cmd, cwd=COQDIR, timeout=3000)
    return rc == 0, out


HYGIENE_RE = re.compile(
    r"\b(Admitted|admit|Axiom|Axioms|Parameter|Parameters|Conjecture|Admit Obligations|"
    r"bypass_check|Unset Guard Checking|Unset Positivity Checking|Unset Universe Checking|"
    r"type-in-type|impredicative-set)\b")
TOPVAR_RE = re.compile(r"^\s*(Variable|Variables|Hypothesis|Hypotheses|Context)\b")


def strip_comments(src):
    out, depth, i = [], 0, 0
    while i < len(src):
        if src.startswith("(*", i):
            depth += 1
            i += 2
        elif src.startswith("*)", i) and depth > 0:
            depth -= 1
            i += 2
        else:
            if depth == 0:
                out.append(src[i])
            elif src[i] == "\n":
                out.append("\n")
            i += 1
    return "".join(out)


def hygiene():
    """No Admitted/Axiom/... anywhere; Variable/Hypothesis only inside sections."""
    bad = []
    for root, _, files in os.walk(COQDIR):
        for f in files:
            if not f.endswith(".v"):
                continue
            p = os.path.join(root, f)
            src = strip_comments(open(p).read())
            depth = 0
            for n, line in enumerate(src.split("\n"), 1):
                if re.match(r"^\s*Section\b", line):
                    depth += 1
                elif re.match(r"^\s*End\b", line) and depth > 0:
                    depth -= 1
                m = HYGIENE_RE.search(line)
                if m:
                    bad.append("%s:%d: %s" % (p, n, m.group(0)))
                if depth == 0 and TOPVAR_RE.match(line):
                    bad.append("%s:%d: top-level %s" % (p, n, line.strip()))
    for f in ("_CoqProject",):
        t = open(os.path.join(COQDIR, f)).read()
        if "type-in-type" in t or "impredicative-set" in t:
            bad.append(f + ": forbidden flag")
    return bad


ALLOWED_AXIOMS = set()   # the development is closed under the global context


def check_assumptions(prop_file_out):
    """Parse `Print Assumptions` output of a Properties/*.v compile log."""
    axioms = []
    closed = prop_file_out.count("Closed under the global context")
    for m in re.finditer(r"Axioms:\n((?:.+\n)+?)(?=\n|\Z)", prop_file_out):
        axioms.append(m.group(1))
    return closed, axioms


# --------------------------------------------------------------------- cases
class Case:
    def __init__(self, cid, grammar, inputs=(), algo="LR", table="LALR_PAGER", run="LR",
                 flags=None, lexer="default", meta=None):
        self.id = cid
        self.grammar = grammar
        self.inputs = list(inputs)
        self.algo = algo
        self.table = table
        self.run = run
        self.flags = flags or {}
        self.lexer = lexer
        self.meta = meta or {}

    def text(self):
        l = ["CASE %s" % self.id, "ALGO %s" % self.algo, "TABLE %s" % self.table]
        if self.flags:
            l.append("FLAGS " + " ".join("%s=%d" % (k, int(v)) for k, v in self.flags.items()))
        l.append("RUN %s" % self.run)
        l.append("LEXER %s" % self.lexer)
        l.append("GRAMMAR %s" % hx(self.grammar))
        for i in self.inputs:
            l.append("INPUT %s" % hx(i))
        l.append("ENDCASE")
        return "\n".join(l) + "\n"


def run_harness_file(casefile, outfile, ncases, timeout_s=3):
    """Runs rv over one case file, resuming after hangs (exit 3) and crashes. After two hangs or
    crashes in one case the remaining inputs of that case are skipped (RESULT ... SKIPPED)."""
    if os.path.exists(outfile):
        os.remove(outfile)
    start_case, start_input = 0, 0
    guard = 0
    bad_in_case = {}
    while True:
        guard += 1
        if guard > 400:
            raise RuntimeError("harness restart loop")
        p = subprocess.run([RV, "run", casefile, outfile, str(start_case), str(start_input)],
                           stdout=subprocess.DEVNULL, stderr=subprocess.PIPE,
                           env=dict(os.environ, RV_TIMEOUT=str(timeout_s)))
        if p.returncode == 0:
            return
        # find where it stopped
        txt = open(outfile, errors="replace").read() if os.path.exists(outfile) else ""
        last_case = None
        last_begin = None
        for line in txt.split("\n"):
            if line.startswith("CASE "):
                last_case = int(line.split(" ")[2])
                last_begin = None
            elif line.startswith("BEGIN "):
                last_begin = int(line.split(" ")[1])
        kind = "TIMEOUT" if p.returncode == 3 else "CRASH"
        with open(outfile, "a") as f:
            if last_case is None:
                # died in the compiler of the first case
                f.write("CASE ? %d\n%s compile\nENDCASE\n" % (start_case, kind))
                start_case, start_input = start_case + 1, 0
            elif last_begin is None:
                # died while compiling the next case (after an ENDCASE) or in this one's dump
                if txt.rstrip().endswith("ENDCASE"):
                    f.write("CASE ? %d\n%s compile\nENDCASE\n" % (last_case + 1, kind))
                    start_case, start_input = last_case + 2, 0
                else:
                    f.write("%s compile\nENDCASE\n" % kind)
                    start_case, start_input = last_case + 1, 0
            else:
                f.write("RESULT ANY %d %s\n" % (last_begin, kind))
                bad_in_case[last_case] = bad_in_case.get(last_case, 0) + 1
                if bad_in_case[last_case] >= 2:
                    f.write("SKIPREST %d\nENDCASE\n" % (last_begin + 1))
                    start_case, start_input = last_case + 1, 0
                else:
                    start_case, start_input = last_case, last_begin + 1
        if start_case >= ncases:
            with open(outfile, "a") as f:
                f.write("DONE\n")
            return


def run_cases(cases, tag, shards=NCPU, timeout_s=3, confirm_s=20):
    """Run cases on the real code. Returns list of CaseResult in order. A hang or crash seen under the
    short watchdog is confirmed by re-running that case alone under a longer one (machine load must not
    turn into a false alarm)."""
    results = _run_cases_once(cases, tag, shards, timeout_s)
    if confirm_s and confirm_s > timeout_s:
        redo = []
        for i, r in enumerate(results):
            bad_status = r.status in ("TIMEOUT", "CRASH", "MISSING", None)
            bad_inputs = sorted(set(k[1] for k, v in r.results.items() if v.split(" ")[0] in ("TIMEOUT", "CRASH")))
            if bad_status or bad_inputs:
                redo.append((i, bad_status, bad_inputs))
        for i, bad_status, bad_inputs in redo[:40]:
            c = cases[i]
            if bad_status:
                r2 = _run_cases_once([c], tag + "_confirm", 1, confirm_s)[0]
                r2.case = c
                results[i] = r2
            else:
                sub = Case(c.id, c.grammar, [c.inputs[j] for j in bad_inputs], c.algo, c.table, c.run, c.flags, c.lexer, c.meta)
                r2 = _run_cases_once([sub], tag + "_confirm", 1, confirm_s)[0]
                for n, j in enumerate(bad_inputs):
                    for algo in ("LR", "GLR"):
                        if (algo, n) in r2.results:
                            results[i].results[(algo, j)] = r2.results[(algo, n)]
                    if n in r2.matches:
                        results[i].matches[j] = r2.matches[n]
    return results


def _run_cases_once(cases, tag, shards, timeout_s):
    os.makedirs(WORK, exist_ok=True)
    shards = max(1, min(shards, len(cases)))
    groups = [[] for _ in range(shards)]
    for i, c in enumerate(cases):
        groups[i % shards].append((i, c))
    jobs = []
    for k, grp in enumerate(groups):
        cf = os.path.join(WORK, "%s.%d.case" % (tag, k))
        of = os.path.join(WORK, "%s.%d.out" % (tag, k))
        with open(cf, "w") as f:
            for _, c in grp:
                f.write(c.text())
        jobs.append((cf, of, len(grp)))
    with ThreadPoolExecutor(max_workers=shards) as ex:
        list(ex.map(lambda j: run_harness_file(j[0], j[1], j[2], timeout_s), jobs))
    results = [None] * len(cases)
    for k, grp in enumerate(groups):
        rs = parse_out(jobs[k][1])
        byidx = {}
        for r in rs:
            byidx.setdefault(r.index, r)
            if byidx[r.index] is not r:
                byidx[r.index].merge(r)
        for j, (i, c) in enumerate(grp):
            r = byidx.get(j)
            if r is None:
                r = CaseResult("?", j)
                r.status = "MISSING"
            r.case = c
            results[i] = r
    return results


class CaseResult:
    def __init__(self, cid, index):
        self.id = cid
        self.index = index
        self.status = None        # OK / ERROR stage msg / PANIC stage msg / TIMEOUT / CRASH
        self.msg = ""
        self.dump_lines = []
        self.results = {}         # (algo, i) -> outcome string
        self.matches = {}         # i -> {offset: (ws, {t: (len, rel)})}
        self.dump = None
        self.case = None
        self.recerror = None
        self.skip_from = None

    def merge(self, other):
        self.results.update(other.results)
        for k, v in other.matches.items():
            self.matches.setdefault(k, {}).update(v)


def parse_out(path):
    res = []
    cur = None
    txt = open(path, errors="replace").read()
    for line in txt.split("\n"):
        if line.startswith("CASE "):
            w = line.split(" ")
            cur = CaseResult(w[1], int(w[2]))
            res.append(cur)
            continue
        if cur is None:
            continue
        if cur.status is None and line:
            w = line.split(" ")
            if w[0] in ("OK", "ERROR", "PANIC", "TIMEOUT", "CRASH"):
                cur.status = w[0]
                if w[0] in ("ERROR", "PANIC"):
                    cur.stage = w[1]
                    cur.msg = unhx(w[2]).decode(errors="replace") if len(w) > 2 else ""
                continue
        if line.startswith("RESULT "):
            w = line.split(" ", 3)
            algo, i = w[1], int(w[2])
            if algo == "ANY":
                for a in ("LR", "GLR"):
                    cur.results.setdefault((a, i), w[3])
                cur.results.setdefault(("LRS", 0), w[3])
            else:
                cur.results[(algo, i)] = w[3]
        elif line.startswith("MATCH "):
            w = line.split(" ")
            i, off, ws = int(w[1]), int(w[2]), int(w[3])
            d = {}
            for e in w[4:]:
                t, l = e.split(":")
                rel = 0
                if "@" in l:
                    l, rel = l.split("@")
                d[int(t)] = (l if l == "P" else int(l), int(rel))
            cur.matches.setdefault(i, {})[off] = (ws, d)
        elif line.startswith("SKIPREST "):
            cur.skip_from = int(line.split(" ")[1])
        elif line.startswith("RECERROR "):
            cur.recerror = unhx(line.split(" ")[1]).decode(errors="replace")
        elif line.startswith("BEGIN ") or line in ("ENDCASE", "DONE", ""):
            pass
        else:
            cur.dump_lines.append(line)
    for r in res:
        if r.status in ("OK",) or (r.status in ("ERROR", "PANIC") and getattr(r, "stage", "") == "table"):
            try:
                r.dump = parse_dump(r.dump_lines)
            except Exception as e:  # a malformed dump is a harness defect
                r.dump = None
                r.dump_error = repr(e)
    return res


# --------------------------------------------------------------------- dump
class Dump:
    pass


def parse_dump(lines):
    d = Dump()
    d.terms, d.nonterms, d.prods, d.first, d.states = [], [], [], {}, []
    d.rn = None
    d.layout_state = None
    d.conflicts = None
    d.missing_rec = False
    cur = None
    for line in lines:
        w = line.split(" ")
        k = w[0]
        if k == "TERM":
            d.terms.append(dict(idx=int(w[1]), name=w[2], prio=int(w[3]), assoc=w[4], kind=w[5],
                                rec=unhx(w[6]).decode(), has_content=w[7] == "1", reachable=w[8] == "1"))
        elif k == "NONTERM":
            d.nonterms.append(dict(idx=int(w[1]), name=w[2], reachable=w[3] == "1",
                                   prods=[int(x) for x in w[4:]]))
        elif k == "PROD":
            n = int(w[9])
            d.prods.append(dict(idx=int(w[1]), lhs=int(w[2]), ntidx=int(w[3]), prio=int(w[4]), assoc=w[5],
                                nops=w[6] == "1", nopse=w[7] == "1", kind=None if w[8] == "-" else w[8],
                                rhs=[int(x) for x in w[10:10 + n]], assign=[], meta={}))
        elif k == "PRODASSIGN":
            p = d.prods[int(w[1])]
            for e in w[2:]:
                nm, b = e.rsplit(":", 1)
                p["assign"].append((None if nm == "-" else nm, b == "1"))
        elif k == "PRODMETA":
            p = d.prods[int(w[1])]
            for e in w[2:]:
                kk, vv = e.split("=", 1)
                p["meta"][kk] = unhx(vv).decode()
        elif k == "SPECIAL":
            d.empty, d.stop, d.aug, d.augl, d.start = [int(x) for x in w[1:6]]
        elif k == "MISSINGREC":
            d.missing_rec = w[1] == "1"
        elif k == "FIRST":
            d.first[int(w[1])] = [int(x) for x in w[2:]]
        elif k == "RN":
            d.rn = None if w[1:] == ["-"] else [int(x) for x in w[1:]]
        elif k == "LAYOUT":
            d.layout_state = None if w[1] == "-1" else int(w[1])
        elif k == "STATE":
            cur = dict(idx=int(w[1]), sym=int(w[2]), items=[], actions={}, gotos={}, sorted=[], maxprio=[])
            d.states.append(cur)
        elif k == "ITEM":
            cur["items"].append((int(w[1]), int(w[2]), [int(x) for x in w[3:]]))
        elif k == "ACT":
            acts = []
            for a in w[2:]:
                if a[0] == "S":
                    acts.append(("S", int(a[1:])))
                elif a[0] == "R":
                    p, l = a[1:].split(",")
                    acts.append(("R", int(p), int(l)))
                else:
                    acts.append(("A",))
            cur["actions"][int(w[1])] = acts
        elif k == "GOTO":
            cur["gotos"][int(w[1])] = int(w[2])
        elif k == "SORTED":
            cur["sorted"] = [(int(e.split(":")[0]), e.split(":")[1] == "1") for e in w[1:]]
        elif k == "MAXPRIO":
            cur["maxprio"] = [(int(e.split(":")[0]), int(e.split(":")[1])) for e in w[1:]]
        elif k == "CONFLICTS":
            d.conflicts = w[1] if w[1] == "PANIC" else int(w[1])
    d.nterm = len(d.terms)
    d.nnonterm = len(d.nonterms)
    return d


# --------------------------------------------------------------------- Gallina printers
def gl_list(xs):
    return "[" + "; ".join(xs) + "]"


def gl_nats(xs):
    return gl_list([str(x) for x in xs])


def gl_bool(b):
    return "true" if b else "false"


def gl_assoc(a):
    return {"N": "ANone", "L": "ALeft", "R": "ARight"}[a]


def gl_grammar(d):
    terms = []
    for t in d.terms:
        sl = "Some %d" % len(t["rec"].encode()) if t["kind"] == "S" else "None"
        terms.append("mkTerm %d %s (%s)" % (t["prio"], gl_assoc(t["assoc"]), sl))
    prods = []
    for p in d.prods:
        prods.append("mkProd %d %s %d %s %s %s" % (p["lhs"], gl_nats(p["rhs"]), p["prio"], gl_assoc(p["assoc"]),
                                                  gl_bool(p["nops"]), gl_bool(p["nopse"])))
    layout = "None"
    if d.augl >= 0:
        # AUGL: Layout — production 1, rhs[0] is the layout rule's symbol
        layout = "Some %d" % d.prods[1]["rhs"][0]
    return "mkGrammar %s %d %s (%s) %d" % (gl_list(terms), d.nnonterm, gl_list(prods), layout, d.start)


def gl_action(a):
    if a[0] == "S":
        return "Shift %d" % a[1]
    if a[0] == "R":
        return "Reduce %d %d" % (a[1], a[2])
    return "Accept"


def gl_table(d):
    sts = []
    for s in d.states:
        items = gl_list(["mkItem %d %d %s" % (p, i, gl_nats(f)) for (p, i, f) in s["items"]])
        acts = gl_list([gl_list([gl_action(a) for a in s["actions"].get(t, [])]) for t in range(d.nterm)])
        gotos = gl_list([("Some %d" % s["gotos"][n]) if n in s["gotos"] else "None" for n in range(d.nnonterm)])
        srt = gl_list(["(%d, %s)" % (t, gl_bool(f)) for (t, f) in s["sorted"]])
        mp = gl_list(["(%d, %d)" % (t, p) for (t, p) in s["maxprio"]])
        sts.append("mkState %d %s %s %s %s %s" % (s["sym"], items, acts, gotos, srt, mp))
    first = gl_list([gl_nats(d.first.get(i, [])) for i in range(d.nterm + d.nnonterm)])
    layout = "None" if d.layout_state is None else "Some %d" % d.layout_state
    rn = "None" if d.rn is None else "Some %s" % gl_nats(d.rn)
    return "mkTable %s (%s) %s (%s)" % (gl_list(sts), layout, first, rn)


def gl_tree(t):
    if t[0] == "T":
        return "Leaf %d" % t[1]
    return "Node %d %s" % (t[1], gl_list([gl_tree(c) for c in t[2]]))


# --------------------------------------------------------------------- s-expressions of real trees
def parse_sexp(s):
    """Parses the harness tree format into nested tuples:
       ('N', prod, [children], start, end, layout) / ('T', kind, None, start, end, layout, value, ptr)"""
    toks = s.replace("(", " ( ").replace(")", " ) ").split()
    pos = [0]

    def ppos(x):
        a = x.split("/")
        return (int(a[0]), None if a[1] == "-" else int(a[1]), None if a[2] == "-" else int(a[2]))

    def play(x):
        return None if x == "~" else unhx(x[1:])

    def node():
        assert toks[pos[0]] == "("
        pos[0] += 1
        k = toks[pos[0]]
        if k == "T":
            kind = int(toks[pos[0] + 1])
            st, en = ppos(toks[pos[0] + 2]), ppos(toks[pos[0] + 3])
            lay = play(toks[pos[0] + 4])
            val = unhx(toks[pos[0] + 5])
            ptr = toks[pos[0] + 6]
            pos[0] += 7
            assert toks[pos[0]] == ")"
            pos[0] += 1
            return ("T", kind, None, st, en, lay, val, None if ptr == "-" else int(ptr))
        prod = int(toks[pos[0] + 1])
        st, en = ppos(toks[pos[0] + 2]), ppos(toks[pos[0] + 3])
        lay = play(toks[pos[0] + 4])
        pos[0] += 5
        ch = []
        while toks[pos[0]] == "(":
            ch.append(node())
        assert toks[pos[0]] == ")"
        pos[0] += 1
        return ("N", prod, ch, st, en, lay)

    t = node()
    return t


def tree_leaves(t):
    if t[0] == "T":
        return [t]
    out = []
    for c in t[2]:
        out.extend(tree_leaves(c))
    return out


# --------------------------------------------------------------------- coq runner
def coq_eval(name, body, timeout=600):
    """Writes work/<name>.v with the given body (after the standard imports), compiles it with
    coqc and returns (ok, output)."""
    os.makedirs(WORK, exist_ok=True)
    path = os.path.join(WORK, name + ".v")
    with open(path, "w") as f:
        f.write(body)
    try:
        rc, out = sh(["coqc", "-noglob", "-Q", COQDIR, "RV", path], timeout=timeout, cwd=WORK)
    except subprocess.TimeoutExpired:
        rc, out = 124, "TIMEOUT: coqc did not finish %s within %d s" % (path, timeout)
    for ext in (".vo", ".vok", ".vos", ".glob"):
        q = os.path.join(WORK, name + ext)
        if os.path.exists(q):
            os.remove(q)
    aux = os.path.join(WORK, "." + name + ".aux")
    if os.path.exists(aux):
        os.remove(aux)
    return rc == 0, out


def coq_eval_many(jobs, timeout=900):
    """jobs: list of (name, body). Runs up to NCPU coqc in parallel. Returns list of (ok,out)."""
    with ThreadPoolExecutor(max_workers=NCPU) as ex:
        return list(ex.map(lambda j: coq_eval(j[0], j[1], timeout), jobs))


def parse_bools(out):
    """Extracts, per `Eval` answer, the list of booleans printed. Answers are
    separated by lines starting with '     = '."""
    answers = []
    cur = None
    for line in out.split("\n"):
        if line.lstrip().startswith("= "):
            if cur is not None:
                answers.append(cur)
            cur = line
        elif cur is not None:
            cur += " " + line
    if cur is not None:
        answers.append(cur)
    res = []
    for a in answers:
        a = a.split(" : ")[0]
        res.append([x == "true" for x in re.findall(r"\b(true|false)\b", a)])
    return res


# --------------------------------------------------------------------- evidence / violations
def repo_state():
    rc, head = sh("git -C %s rev-parse HEAD" % REPO)
    rc, diff = sh("git -C %s diff HEAD -- . ':!target'" % REPO)
    return dict(head=head.strip(), dirty_hash=hashlib.sha1(diff.encode()).hexdigest()[:12] if diff.strip() else "clean")


def write_replay(pid, payload):
    os.makedirs(os.path.join(VERIF, "replays"), exist_ok=True)
    h = hashlib.sha1(json.dumps(payload, sort_keys=True, default=str).encode()).hexdigest()[:10]
    path = os.path.join(VERIF, "replays", "%s-%s.json" % (pid, h))
    with open(path, "w") as f:
        json.dump(payload, f, indent=1, default=str)
    return path


MAX_PER_KEY = 4


def load_known():
    known, fixed = [], []
    p = os.path.join(VERIF, "KNOWN_FINDINGS.txt")
    if os.path.exists(p):
        for line in open(p):
            line = line.strip()
            if line.startswith("known:"):
                m = re.match(r"known:\s+property=(\S+)\s+key=(\S+)\s+(.*)", line)
                if m:
                    known.append(dict(property=m.group(1), key=m.group(2), text=m.group(3)))
            elif line.startswith("fixed:"):
                fixed.append(line)
    return known, fixed


class Report:
    """Collects violations, known findings and coverage; writes evidence; decides the exit code."""

    def __init__(self, pid, level, tier, seed):
        self.pid, self.level, self.tier, self.seed = pid, level, tier, seed
        self.t0 = time.time()
        self.violations = []
        self.known_hits = []
        self.coverage = {}
        self.assumptions = []
        self.known, self.fixed = load_known()
        self.notes = []

    def violation(self, key, what, payload, found_input=True):
        """key: canonical key of the failure class (matched against KNOWN_FINDINGS.txt)."""
        for k in self.known:
            if k["property"] == self.pid and k["key"] == key:
                if key not in [x[0] for x in self.known_hits]:
                    self.known_hits.append((key, k["text"]))
                return False
        # at most MAX_PER_KEY replay files (and VIOLATION lines) per failure class; the rest is counted
        self.per_key = getattr(self, "per_key", {})
        self.per_key[key] = self.per_key.get(key, 0) + 1
        if self.per_key[key] > MAX_PER_KEY:
            return True
        payload = dict(payload)
        payload.update(property=self.pid, key=key, what=what, found_failing_input=found_input)
        path = write_replay(self.pid, payload)
        self.violations.append((key, what, path, found_input))
        return True

    def finish(self):
        ev = dict(property_id=self.pid, tier=self.tier, seed=self.seed, level=self.level,
                  coverage=self.coverage, assumptions=self.assumptions,
                  wall_s=round(time.time() - self.t0, 2), violations=len(self.violations),
                  known_findings=[k for k, _ in self.known_hits], repo=repo_state(), notes=self.notes)
        if getattr(self, "per_key", None):
            ev["violations_per_key"] = self.per_key
        os.makedirs(os.path.join(VERIF, "evidence"), exist_ok=True)
        # a replay is not a check of the property: its record goes to work/, evidence/ keeps the last quick/thorough run
        evpath = (os.path.join(WORK, "%s.replay-evidence.json" % self.pid) if getattr(self, "is_replay", False)
                  else os.path.join(VERIF, "evidence", "%s.json" % self.pid))
        with open(evpath, "w") as f:
            json.dump(ev, f, indent=1, default=str)
        for key, text in self.known_hits:
            print("KNOWN-FINDING: property=%s %s %s" % (self.pid, key, text))
        seen = set()
        for key, what, path, found in self.violations:
            if path in seen:
                continue
            seen.add(path)
            print("VIOLATION property=%s replay=%s%s" % (self.pid, path, "" if found else " no-failing-input-found"))
        if self.violations:
            return 1
        print("PASS property=%s tier=%s wall=%.1fs" % (self.pid, self.tier, time.time() - self.t0))
        return 0
