#!/usr/bin/env python3
"""Translator  main.rs + settings.rs (+ table/mod.rs for TableType)  ->  coq/Model/CliGen.v

Reads the Rust sources on every run and emits, as Gallina:
  gen_default   Settings::default()                        (settings.rs  impl Default for Settings)
  g_<setter>    the body of every builder-style setter     (settings.rs  pub fn x(mut self, ..) -> Self)
  gen_apply     dispatch from the API vocabulary of Model/Cli.v to the g_<setter>
  cli           the clap `Cli` struct                      (main.rs)
  cli_default   clap's defaults
  cli_chain     the setter chain of main(), in source order (main.rs)

The Rust subset understood is exactly what these functions use today (assignments to self.<field>,
if / if let / match on the argument or on a field, matches!, panic!, tail `self` / `self.other()`);
anything else raises TranslateError, which the check reports (the model has to be extended by hand).

usage: cli_translate.py [REPO] [OUT.v]
"""
import hashlib
import os
import re
import sys


class TranslateError(Exception):
    pass


FIELDS = ["out_dir_root", "out_dir_actions_root", "root_dir", "prefer_shifts", "prefer_shifts_over_empty",
          "table_type", "parser_algo", "print_table", "exclude", "actions", "trace", "lexer_type", "builder_type",
          "builder_loc_info", "generator_table_type", "input_type", "lexical_disamb_most_specific",
          "lexical_disamb_longest_match", "lexical_disamb_grammar_order", "partial_parse", "skip_ws", "force",
          "force_explicit", "dot", "fancy_regex"]

ENUMS = {  # Rust enum -> (Coq type, {variant: constructor})
    "ParserAlgo": ("parser_algo", {"LR": "LR", "GLR": "GLR"}),
    "TableType": ("table_type", {"LALR": "LALR", "LALR_PAGER": "LALR_PAGER", "LALR_RN": "LALR_RN"}),
    "LexerType": ("lexer_type", {"Default": "LexDefault", "Custom": "LexCustom"}),
    "BuilderType": ("builder_type", {"Default": "BDefault", "Generic": "BGeneric", "Custom": "BCustom"}),
    "GeneratorTableType": ("gen_table_type", {"Arrays": "GArrays", "Functions": "GFunctions"}),
}

TYPES = {"bool": "bool", "PathBuf": "path", "Option<PathBuf>": "option path", "Option<bool>": "option bool",
         "String": "str", "Vec<String>": "strs", "u8": "nat"}
for _k, (_t, _) in ENUMS.items():
    TYPES[_k] = _t

PANICS = {"actions_in_source_tree": "P_actions_in_source_tree_non_default_builder",
          "lexical_disamb_grammar_order": "P_grammar_order_off_under_lr"}

ENVVARS = {"OUT_DIR": "e_out_dir ev", "CARGO_MANIFEST_DIR": "e_manifest_dir ev"}


def strip_comments(src):
    out, i, n = [], 0, len(src)
    while i < n:
        if src.startswith("//", i):
            j = src.find("\n", i)
            i = n if j < 0 else j
        elif src.startswith("/*", i):
            j = src.find("*/", i)
            i = n if j < 0 else j + 2
        elif src[i] == '"':
            j = i + 1
            while j < n and src[j] != '"':
                j += 2 if src[j] == "\\" else 1
            out.append(src[i:j + 1])
            i = j + 1
        else:
            out.append(src[i])
            i += 1
    return "".join(out)


TOKEN_RE = re.compile(r'\s*("(?:\\.|[^"\\])*"|[A-Za-z_][A-Za-z0-9_]*|::|=>|==|!=|&&|\|\||->|[{}()\[\];,.=!&|<>:#\'*+-/?])')


def tokenize(s):
    toks, i = [], 0
    s = s.strip()
    while i < len(s):
        m = TOKEN_RE.match(s, i)
        if not m:
            raise TranslateError("cannot tokenize: %r" % s[i:i + 40])
        toks.append(m.group(1))
        i = m.end()
    return toks


def matching(src, i, open_c="{", close_c="}"):
    """index of the bracket closing the one at src[i]"""
    depth = 0
    j = i
    while j < len(src):
        c = src[j]
        if c == '"':
            j += 1
            while src[j] != '"':
                j += 2 if src[j] == "\\" else 1
        elif c == open_c:
            depth += 1
        elif c == close_c:
            depth -= 1
            if depth == 0:
                return j
        j += 1
    raise TranslateError("unbalanced brackets")


# ------------------------------------------------------------------ enum defaults
def enum_default(src, name):
    m = re.search(r"pub enum %s\s*\{" % name, src)
    if not m:
        raise TranslateError("enum %s not found" % name)
    body = src[m.end():matching(src, m.end() - 1)]
    d = re.search(r"#\[default\]\s*(\w+)", body)
    if not d:
        raise TranslateError("enum %s has no #[default]" % name)
    variants = re.findall(r"^\s*(\w+)\s*,", re.sub(r"#\[[^\]]*\]", "", body), re.M)
    known = ENUMS[name][1]
    if sorted(variants) != sorted(known):
        raise TranslateError("enum %s variants changed: %s" % (name, variants))
    return known[d.group(1)]


# ------------------------------------------------------------------ setter bodies
class P:
    """recursive descent over the token list of one function body"""

    def __init__(self, toks, fn, args):
        self.t, self.i, self.fn, self.args = toks, 0, fn, args

    def peek(self, k=0):
        return self.t[self.i + k] if self.i + k < len(self.t) else None

    def eat(self, x=None):
        tok = self.peek()
        if x is not None and tok != x:
            raise TranslateError("%s: expected %r, found %r at %s" % (self.fn, x, tok, " ".join(self.t[self.i:self.i + 8])))
        self.i += 1
        return tok

    def block(self):
        """statements up to the closing brace (consumed)"""
        out = []
        while self.peek() != "}":
            if self.peek() is None:
                raise TranslateError("%s: unexpected end" % self.fn)
            out.append(self.stmt())
        self.eat("}")
        return out

    def skip_parens(self):
        self.eat("(")
        depth = 1
        while depth:
            tok = self.eat()
            if tok == "(":
                depth += 1
            elif tok == ")":
                depth -= 1

    def expr(self):
        tok = self.peek()
        if tok in ("true", "false"):
            self.eat()
            return ("lit", tok)
        if tok == "None":
            self.eat()
            return ("lit", "None")
        if tok == "Some":
            self.eat()
            self.eat("(")
            e = self.expr()
            self.eat(")")
            return ("some", e)
        if tok in ENUMS and self.peek(1) == "::":
            self.eat()
            self.eat("::")
            return ("lit", ENUMS[tok][1][self.eat()])
        if re.match(r"[a-z_]\w*$", tok or ""):
            self.eat()
            return ("var", tok)
        raise TranslateError("%s: unsupported expression at %s" % (self.fn, " ".join(self.t[self.i:self.i + 8])))

    def cond(self):
        neg = False
        if self.peek() == "!":
            self.eat()
            neg = True
        if self.peek() == "matches":
            self.eat()
            self.eat("!")
            self.eat("(")
            self.eat("self")
            self.eat(".")
            f = self.eat()
            self.eat(",")
            ty = self.eat()
            self.eat("::")
            v = ENUMS[ty][1][self.eat()]
            self.eat(")")
            return ("matches", neg, f, v)
        if self.peek() == "self":
            self.eat()
            self.eat(".")
            return ("field", neg, self.eat())
        if self.peek() == "let":
            self.eat()
            ty = self.eat()
            self.eat("::")
            v = ENUMS[ty][1][self.eat()]
            self.eat("=")
            self.eat("self")
            self.eat(".")
            return ("iflet", False, self.eat(), v)
        return ("var", neg, self.eat())

    def stmt(self):
        tok = self.peek()
        if tok == "self" and self.peek(1) == "." and self.peek(3) == "=":
            self.eat()
            self.eat(".")
            f = self.eat()
            self.eat("=")
            e = self.expr()
            self.eat(";")
            return ("assign", f, e)
        if tok == "self" and self.peek(1) == "." and self.peek(3) == "(":
            self.eat()
            self.eat(".")
            m = self.eat()
            self.eat("(")
            self.eat(")")
            return ("retcall", m)
        if tok == "self":
            self.eat()
            return ("ret",)
        if tok == "panic":
            self.eat()
            self.eat("!")
            self.skip_parens()
            if self.peek() == ";":
                self.eat()
            return ("panic",)
        if tok == "if":
            self.eat()
            c = self.cond()
            self.eat("{")
            a = self.block()
            b = []
            if self.peek() == "else":
                self.eat()
                self.eat("{")
                b = self.block()
            return ("if", c, a, b)
        if tok == "match":
            self.eat()
            v = self.eat()
            self.eat("{")
            arms = []
            while self.peek() != "}":
                ty = self.eat()
                self.eat("::")
                con = ENUMS[ty][1][self.eat()]
                self.eat("=>")
                self.eat("{")
                arms.append((con, self.block()))
                if self.peek() == ",":
                    self.eat()
            self.eat("}")
            return ("match", v, arms)
        if tok == "let":
            # the only `let` in a setter today:  Settings::trace  (settings.rs:347-357)
            text = " ".join(self.t[self.i:])
            pinned = ('let trace = if ! trace { std :: env :: var ( "RUSTEMO_TRACE" ) . is_ok ( ) } else '
                      '{ std :: env :: set_var ( "RUSTEMO_TRACE" , "1" ) ; true } ;')
            if not text.startswith(pinned):
                raise TranslateError("%s: unsupported let statement: %s" % (self.fn, text[:120]))
            self.i += len(pinned.split(" "))
            return ("let_trace",)
        raise TranslateError("%s: unsupported statement at %s" % (self.fn, " ".join(self.t[self.i:self.i + 10])))


def gl_expr(e):
    if e[0] == "lit":
        return e[1]
    if e[0] == "some":
        return "(Some %s)" % gl_expr(e[1])
    return "a_" + e[1]


def gl_cond(c):
    kind, neg = c[0], c[1]
    if kind == "matches":
        b = "(match s_%s s with %s => true | _ => false end)" % (c[2], c[3])
    elif kind == "field":
        b = "(s_%s s)" % c[2]
    else:
        b = "a_" + c[2]
    return "(negb %s)" % b if neg else b


def gl_stmts(stmts, fn, ind):
    """continuation-passing translation: the statements, then `SOk s`"""
    pad = "  " * ind
    if not stmts:
        return pad + "SOk s"
    st, rest = stmts[0], stmts[1:]
    k = st[0]
    if k == "assign":
        if st[1] not in FIELDS:
            raise TranslateError("%s assigns unknown field %s" % (fn, st[1]))
        return pad + "let s := set_%s s %s in\n" % (st[1], gl_expr(st[2])) + gl_stmts(rest, fn, ind)
    if k == "ret":
        return pad + "SOk s"
    if k == "retcall":
        return pad + "g_%s ev s" % st[1]
    if k == "panic":
        if fn not in PANICS:
            raise TranslateError("new panic! in setter %s: add a psite to Model/Cli.v" % fn)
        return pad + "SPanic %s" % PANICS[fn]
    if k == "let_trace":
        return pad + "let a_trace := if negb a_trace then e_trace ev else true in\n" + gl_stmts(rest, fn, ind)
    if k == "if":
        c, a, b = st[1], st[2], st[3]
        if c[0] == "iflet":
            return (pad + "match s_%s s with\n" % c[2] + pad + "| %s =>\n" % c[3] + gl_stmts(a + rest, fn, ind + 2) + "\n"
                    + pad + "| _ =>\n" + gl_stmts(b + rest, fn, ind + 2) + "\n" + pad + "end")
        return (pad + "if %s then\n" % gl_cond(c) + gl_stmts(a + rest, fn, ind + 1) + "\n" + pad + "else\n"
                + gl_stmts(b + rest, fn, ind + 1))
    if k == "match":
        out = pad + "match a_%s with\n" % st[1]
        for con, body in st[2]:
            out += pad + "| %s =>\n" % con + gl_stmts(body + rest, fn, ind + 2) + "\n"
        return out + pad + "end"
    raise TranslateError("internal: " + k)


def calls_of(stmts):
    out = []
    for st in stmts:
        if st[0] == "retcall":
            out.append(st[1])
        elif st[0] == "if":
            out += calls_of(st[2]) + calls_of(st[3])
        elif st[0] == "match":
            for _, b in st[2]:
                out += calls_of(b)
    return out


SETTER_CTORS = [  # constructor of Model/Cli.v setter_call, Rust method, argument Coq type (None: no argument)
    ("C_root_dir", "root_dir", "path"), ("C_out_dir_root", "out_dir_root", "path"),
    ("C_out_dir_actions_root", "out_dir_actions_root", "path"), ("C_in_source_tree", "in_source_tree", None),
    ("C_actions_in_source_tree", "actions_in_source_tree", None), ("C_exclude", "exclude", "strs"),
    ("C_prefer_shifts", "prefer_shifts", "bool"), ("C_prefer_shifts_over_empty", "prefer_shifts_over_empty", "bool"),
    ("C_table_type", "table_type", "table_type"), ("C_parser_algo", "parser_algo", "parser_algo"),
    ("C_lexer_type", "lexer_type", "lexer_type"), ("C_builder_type", "builder_type", "builder_type"),
    ("C_builder_loc_info", "builder_loc_info", "bool"),
    ("C_generator_table_type", "generator_table_type", "gen_table_type"), ("C_input_type", "input_type", "str"),
    ("C_lexical_disamb_most_specific", "lexical_disamb_most_specific", "bool"),
    ("C_lexical_disamb_longest_match", "lexical_disamb_longest_match", "bool"),
    ("C_lexical_disamb_grammar_order", "lexical_disamb_grammar_order", "bool"), ("C_fancy_regex", "fancy_regex", "bool"),
    ("C_print_table", "print_table", "bool"), ("C_partial_parse", "partial_parse", "bool"), ("C_skip_ws", "skip_ws", "bool"),
    ("C_actions", "actions", "bool"), ("C_trace", "trace", "bool"), ("C_force", "force", "bool"), ("C_dot", "dot", "bool"),
]


def translate_settings(src, table_src):
    out = []
    # --- struct fields
    m = re.search(r"pub struct Settings\s*\{", src)
    body = src[m.end():matching(src, m.end() - 1)]
    fields = re.findall(r"^\s*(?:pub(?:\(crate\))?\s+)?(\w+)\s*:\s*([^,\n]+),", body, re.M)
    names = [f for f, _ in fields]
    if names != FIELDS:
        raise TranslateError("struct Settings changed: %s (Model/Cli.v has %s)" % (names, FIELDS))
    ftype = dict(fields)
    # --- Default impl
    m = re.search(r"impl Default for Settings\s*\{", src)
    body = src[m.end():matching(src, m.end() - 1)]
    lets = {}
    for lm in re.finditer(r'let\s+(\w+)\s*=\s*std::env::var\("(\w+)"\)\.map_or\(None,\s*\|d\|\s*Some\(PathBuf::from\(d\)\)\);', body):
        if lm.group(2) not in ENVVARS:
            raise TranslateError("Settings::default reads an unmodelled environment variable " + lm.group(2))
        lets[lm.group(1)] = ENVVARS[lm.group(2)]
    if len(re.findall(r"std::env::var", body)) != len(lets):
        raise TranslateError("Settings::default reads the environment in an unsupported way")
    sm = list(re.finditer(r"(?<!-> )\bSelf\s*\{", body))[-1]
    init = body[sm.end():matching(body, sm.end() - 1)]
    vals = {}
    for part in [p.strip() for p in re.split(r",\s*\n", init) if p.strip()]:
        part = part.rstrip(",").strip()
        if ":" in part:
            f, e = [x.strip() for x in part.split(":", 1)]
        else:
            f, e = part, part
        e = re.sub(r"\.clone\(\)$", "", e)
        if e in ("true", "false"):
            v = e
        elif e in lets:
            v = "(%s)" % lets[e]
        elif e == "Default::default()":
            ty = ftype[f].strip()
            src_for = table_src if ty == "TableType" else src
            v = enum_default(src_for, ty)
        elif e == '"str".into()':
            v = "STR_str"
        elif e == "vec![]":
            v = "STRS_empty"
        else:
            raise TranslateError("Settings::default: unsupported initialiser %s: %s" % (f, e))
        vals[f] = v
    if sorted(vals) != sorted(FIELDS):
        raise TranslateError("Settings::default does not initialise exactly the fields of the struct")
    out.append("Definition gen_default (ev : env) : settings :=\n  mkSettings %s." % " ".join(vals[f] for f in FIELDS))
    # --- setters: pub fn name(mut self[, arg: T]) -> Self { body }
    setters = {}
    for fm in re.finditer(r"pub fn (\w+)\s*\(\s*mut self\s*(?:,\s*(\w+)\s*:\s*([^)]+?)\s*)?\)\s*->\s*Self\s*\{", src):
        name, arg, aty = fm.group(1), fm.group(2), fm.group(3)
        end = matching(src, fm.end() - 1)
        toks = tokenize(src[fm.end():end]) + ["}"]
        p = P(toks, name, [arg] if arg else [])
        stmts = p.block()
        if p.peek() is not None:
            raise TranslateError("%s: trailing tokens" % name)
        setters[name] = (arg, aty, stmts)
    known = [r for _, r, _ in SETTER_CTORS]
    if sorted(setters) != sorted(known):
        raise TranslateError("the set of builder-style setters changed: %s vs %s" % (sorted(setters), sorted(known)))
    # definitions in dependency order
    done, order = set(), []

    def visit(n):
        if n in done:
            return
        for c in calls_of(setters[n][2]):
            visit(c)
        done.add(n)
        order.append(n)

    for n in known:
        visit(n)
    ctype = {r: t for _, r, t in SETTER_CTORS}
    for n in order:
        arg, aty, stmts = setters[n]
        if (arg is None) != (ctype[n] is None):
            raise TranslateError("setter %s changed its arity" % n)
        if arg is not None:
            rt = TYPES.get(aty.replace(" ", ""))
            if rt != ctype[n]:
                raise TranslateError("setter %s changed its argument type: %s" % (n, aty))
        binder = " (a_%s : %s)" % (arg, ctype[n]) if arg else ""
        out.append("Definition g_%s (ev : env)%s (s : settings) : outcome :=\n%s." % (n, binder, gl_stmts(stmts, n, 1)))
    disp = ["Definition gen_apply (ev : env) (c : setter_call) (s : settings) : outcome :=", "  match c with"]
    for ctor, r, t in SETTER_CTORS:
        if t is None:
            disp.append("  | %s => g_%s ev s" % (ctor, r))
        else:
            disp.append("  | %s x => g_%s ev x s" % (ctor, r))
    disp.append("  end.")
    out.append("\n".join(disp))
    return out


# ------------------------------------------------------------------ main.rs
def translate_main(src, settings_src, table_src):
    out = []
    m = re.search(r"struct Cli\s*\{", src)
    if not m:
        raise TranslateError("struct Cli not found")
    body = src[m.end():matching(src, m.end() - 1)]
    fields = []
    attr = ""
    for line in body.split("\n"):
        line = line.strip()
        if line.startswith("#["):
            attr += line
            continue
        fm = re.match(r"(\w+)\s*:\s*(.+?),$", line)
        if fm:
            fields.append((fm.group(1), fm.group(2).replace(" ", ""), attr))
            attr = ""
    rec, dflt, doc = [], [], []
    for name, ty, at in fields:
        if ty not in TYPES:
            raise TranslateError("Cli field %s has an unsupported type %s" % (name, ty))
        rec.append("  c_%s : %s" % (name, TYPES[ty]))
        if ty == "bool":
            if "default_value" in at:
                raise TranslateError("bool flag %s with a default value" % name)
            d = "false"
        elif ty.startswith("Option<"):
            d = "None"
        elif ty in ENUMS:
            if "default_value_t" not in at:
                raise TranslateError("enum option %s without default_value_t" % name)
            d = enum_default(table_src if ty == "TableType" else settings_src, ty)
        elif ty == "String":
            dm = re.search(r'default_value\s*=\s*"([^"]*)"', at)
            if not dm or dm.group(1) != "str":
                raise TranslateError("String option %s: default is not \"str\"" % name)
            d = "STR_str"
        elif ty == "Vec<String>":
            d = "STRS_empty"
        elif ty == "u8":
            d = "0"
        elif ty == "PathBuf":
            d = "grammar"
        else:
            raise TranslateError("no default rule for %s" % ty)
        dflt.append(d)
        doc.append("%s:%s" % (name, ty))
    out.append("Record cli := mkCli {\n%s\n}." % ";\n".join(rec))
    out.append("(* clap defaults: flags off, Option None, enums `default_value_t` = the #[default] variant *)\n"
               "Definition cli_default (grammar : path) : cli :=\n  mkCli %s." % " ".join(dflt))
    ftype = {n: t for n, t, _ in fields}
    # --- the chain
    mm = re.search(r"fn main\s*\(\s*\)\s*\{", src)
    mbody = src[mm.end():matching(src, mm.end() - 1)]
    sm = re.search(r"Settings::new\(\)", mbody)
    if not sm:
        raise TranslateError("main(): Settings::new() not found")
    i = sm.end()
    chain = []
    method = {r: (c, t) for c, r, t in SETTER_CTORS}
    while True:
        cm = re.match(r"\s*\.\s*(\w+)\s*\(\s*(!?)\s*cli\.(\w+)\s*\)", mbody[i:])
        if not cm:
            break
        meth, neg, f = cm.group(1), cm.group(2), cm.group(3)
        if meth not in method or f not in ftype:
            raise TranslateError("main(): unknown setter or field in .%s(cli.%s)" % (meth, f))
        ctor, t = method[meth]
        if TYPES[ftype[f]] != t:
            raise TranslateError("main(): .%s(cli.%s) type mismatch" % (meth, f))
        e = "(c_%s c)" % f
        if neg:
            if t != "bool":
                raise TranslateError("main(): negation of a non-bool")
            e = "(negb %s)" % e
        chain.append("[%s %s]" % (ctor, e))
        i += cm.end()
    if not re.match(r"\s*;", mbody[i:]):
        raise TranslateError("main(): unsupported expression in the setter chain near: %r" % mbody[i:i + 60])
    rest = mbody[i:]
    stop = rest.find("let result")
    if stop < 0:
        raise TranslateError("main(): `let result` not found")
    cond = rest[:stop]
    pos = 0
    for im in re.finditer(r"if let Some\((\w+)\)\s*=\s*cli\.(\w+)\s*\{\s*settings\s*=\s*settings\.(\w+)\(\s*(\w+)\s*\)\s*;?\s*\}", cond):
        if cond[pos:im.start()].strip(" ;\n"):
            raise TranslateError("main(): unsupported statement: %r" % cond[pos:im.start()].strip()[:80])
        pos = im.end()
        v, f, meth, v2 = im.groups()
        if v != v2 or meth not in method or f not in ftype or not ftype[f].startswith("Option<"):
            raise TranslateError("main(): unsupported conditional setter for cli.%s" % f)
        ctor, t = method[meth]
        if TYPES[ftype[f]] != "option " + t:
            raise TranslateError("main(): conditional .%s(cli.%s) type mismatch" % (meth, f))
        chain.append("(match c_%s c with Some x => [%s x] | None => [] end)" % (f, ctor))
    if cond[pos:].strip(" ;\n"):
        raise TranslateError("main(): unsupported statement: %r" % cond[pos:].strip()[:80])
    tail = rest[stop:]
    if "settings.process_grammar(&cli.grammar_file_or_dir)" not in re.sub(r"\s+", "", tail).replace("&cli", "&cli") \
            and "settings.process_grammar(&cli.grammar_file_or_dir)" not in tail:
        raise TranslateError("main(): the final process_grammar call changed")
    out.append("(* main.rs: Settings::new() followed by, in this order: *)\nDefinition cli_chain (c : cli) : list setter_call :=\n  "
               + "\n  ++ ".join(chain) + ".")
    return out, fields


def translate(repo):
    main_p = os.path.join(repo, "rustemo-compiler", "src", "main.rs")
    set_p = os.path.join(repo, "rustemo-compiler", "src", "settings.rs")
    tab_p = os.path.join(repo, "rustemo-compiler", "src", "table", "mod.rs")
    main_src = strip_comments(open(main_p).read())
    set_src = strip_comments(open(set_p).read())
    tab_src = strip_comments(open(tab_p).read())
    parts = ["(* GENERATED by gen/cli_translate.py from rustemo-compiler/src/main.rs, settings.rs and table/mod.rs\n"
             "   (TableType).  Do not edit: the check regenerates this file and compares / recompiles. *)\n"
             "From RV Require Import Util Model.Cli."]
    parts += translate_settings(set_src, tab_src)
    m, fields = translate_main(main_src, set_src, tab_src)
    parts += m
    return "\n\n".join(parts) + "\n", fields


def main():
    repo = sys.argv[1] if len(sys.argv) > 1 else "/repo"
    out = sys.argv[2] if len(sys.argv) > 2 else None
    text, _ = translate(repo)
    if out:
        with open(out, "w") as f:
            f.write(text)
    else:
        sys.stdout.write(text)


if __name__ == "__main__":
    try:
        main()
    except TranslateError as e:
        sys.stderr.write("cli_translate: %s\n" % e)
        sys.exit(3)
