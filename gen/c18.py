"""C18 — regenerating actions preserves user edits and only adds what is missing.

(T) Properties/C18.v (unbounded in the existing file and in the generator output): regen_prefix,
    regen_forced, regen_adds_missing, regen_complete, regen_idempotent, regen_no_dup_known / _refuted
    (the former defect F10 — types of a rule guarded by the rule's own name only — was repaired by /repo
    commit 4a0de5f; its witnesses are regression Examples and fixed histories of this check).
(C) random edit histories over hand-written grammars, run on the REAL generator
    (Settings::new()...process_grammar through harness/src/bin/rvgen.rs); every regeneration is
    compared item by item (kind, name, hash of the token stream) with Model.Regen.regen evaluated
    by Coq's vm_compute, and the statements of the property are checked directly on the real lists
    (prefix kept token-for-token, exactly the missing items added, no duplicate names, second
    regeneration is a fixed point incl. bytes).  The known class GenDup is decided both here and by the
    Coq function gen_dup_b on the same witness.
"""
import json
import os
import random
import re
from concurrent.futures import ThreadPoolExecutor

from rvlib import *  # noqa
import gencorpus as GC
import genlib as GL
from common import TRUSTED_BASE

LEVEL = "proof"

BASES = [[], ["builder_loc_info:true"], ["lexer_type:custom"]]

KEY_DUP = "partial-types:duplicate"
KEY_LOST = "partial-types:not-readded"
KEY_GENDUP = "generator-duplicate-names"
KEY_REPRINT = "reprint-normalises-tokens"
KEY_TEXT = {
    KEY_REPRINT: "existing items are not kept token-for-token: the whole file is re-printed by prettyplease, which adds / "
                 "removes commas after match arms and prints a unit arm body `()` as `{}` (generator/actions/mod.rs:199); "
                 "token streams are equal modulo these two normalisations",
    KEY_DUP: "REGRESSION of F10 (repaired by 4a0de5f): a type of a rule was re-added although a type of that name is "
             "present (only part of the rule's types had been deleted): duplicate item",
    KEY_LOST: "REGRESSION of F10 (repaired by 4a0de5f): a type of a rule that is missing while other types of the rule "
              "are present (choice struct deleted, or a production added to the grammar) was not re-added",
    KEY_GENDUP: "the generator emits two items with one name (duplicate production kinds after "
                "make_choices_name_unique, or two terminal names with one snake_case form); names collected before "
                "generation are not updated while generating (generator/actions/mod.rs:105-136)",
}


# ------------------------------------------------------------------------------- the vocabulary
def names_of(items):
    return [i.nsname() for i in items if i.nsname() is not None]


def nodup(items):
    n = names_of(items)
    return len(n) == len(set(n))


def present(fileitems, item):
    return item.nsname() is not None and item.nsname() in set(names_of(fileitems))


class GenModel:
    """header + groups of the generator's output for (grammar, settings), observed on the real
    generator: header from a fresh generation, the groups from a regeneration over an EMPTY existing
    file (no name is present, so everything is emitted), cut by the real grammar's terminal and
    nonterminal lists (hook dump)."""

    def __init__(self):
        self.header, self.groups, self.flat, self.fresh = [], [], [], []
        self.error = None

    def missing(self, fileitems):
        pres = set(names_of(fileitems))
        return [i for i in self.flat if i.nsname() not in pres]

    def partial(self, fileitems):
        pres = set(names_of(fileitems))
        for g in self.groups:
            if g[0] == "N":
                k = ("T", g[1]) in pres
                for t in g[2]:
                    if (("T", t.name) in pres) != k:
                        return True
        return False

    def gen_dup(self):
        return not nodup(self.flat)

    def wf(self):
        for g in self.groups:
            if g[0] == "T":
                _, tkey, ty, akey, act = g
                if not (ty.ns() == "T" and ty.name == tkey and act.ns() == "F" and act.name == akey):
                    return False
            else:
                _, nkey, types, acts = g
                if any(t.ns() != "T" for t in types):
                    return False
                if any(a.ns() != "F" or a.name != k for k, a in acts):
                    return False
        return True

    def regen(self, force, existing):
        """Python twin of Model.Regen.regen (used for classification only; Coq decides)"""
        ast = list(self.header) if (existing is None or force) else list(existing)
        tn = set(i.name for i in ast if i.ns() == "T")
        an = set(i.name for i in ast if i.ns() == "F")
        for g in self.groups:
            if g[0] == "T":
                _, tkey, ty, akey, act = g
                if tkey not in tn:
                    ast.append(ty)
                if akey not in an:
                    ast.append(act)
            else:
                _, nkey, types, acts = g
                for t in types:
                    # mod.rs:176-187: each type guarded by its own name; other items always pushed
                    if t.ns() != "T" or t.name not in tn:
                        ast.append(t)
                for k, a in acts:
                    if k not in an:
                        ast.append(a)
        return ast


GM_CACHE = {}


def gen_model(stem, gname, base):
    """GenModel of (file stem, grammar, base settings), observed once per run"""
    key = (stem, gname, tuple(base))
    if key not in GM_CACHE:
        GM_CACHE[key] = observe_gen("gm_%s_%s_%s" % (stem, gname, "_".join(base).replace(":", "-") or "default"),
                                    stem, GC.text(gname), base)
    return GM_CACHE[key]


def observe_gen(tag, stem, gtext, base):
    gm = GenModel()
    d = GL.fresh_dir("c18", tag, "observe")
    g = os.path.join(d, stem + ".rustemo")
    open(g, "w").write(gtext)
    af = os.path.join(d, stem + "_actions.rs")
    r1 = GL.rvgen(["gen", g] + base + ["in_source_tree"])
    if r1.result != "OK" or r1.after.state != "OK":
        gm.error = "fresh generation failed: %s %s" % (r1.result, r1.msg)
        return gm
    gm.fresh = r1.after.items
    open(af, "w").write("")
    r2 = GL.rvgen(["gen", g] + base + ["in_source_tree"])
    if r2.result != "OK" or r2.after.state != "OK" or r2.before.state != "OK" or r2.before.items:
        gm.error = "generation over an empty file failed: %s %s" % (r2.result, r2.msg)
        return gm
    gm.flat = r2.after.items
    info = GL.GrammarInfo(GL.rvgen(["info", g] + base).info)
    if info.status != "OK" or info.special is None:
        gm.error = "hook dump failed"
        return gm
    # header: everything up to the alias `Token` (mod.rs:93-101)
    k = None
    for n, it in enumerate(gm.fresh):
        if it.kind == "Type" and it.name == "Token":
            k = n
            break
    if k is None:
        gm.error = "no Token alias in a fresh file"
        return gm
    gm.header = gm.fresh[:k + 1]
    pos = 0
    flat = gm.flat
    try:
        for t in info.gen_terminals():
            ty, act = flat[pos], flat[pos + 1]
            pos += 2
            gm.groups.append(("T", t["name"], ty, act.name, act))
        for nt in info.gen_nonterminals():
            types, acts = [], []
            while pos < len(flat) and flat[pos].mkind() != "Fn":
                types.append(flat[pos])
                pos += 1
            for _ in range(nt["nprods"]):
                a = flat[pos]
                if a.mkind() != "Fn":
                    raise IndexError
                acts.append((a.name, a))
                pos += 1
            gm.groups.append(("N", nt["name"], types, acts))
        if pos != len(flat):
            raise IndexError
    except IndexError:
        gm.error = "the generated items do not have the shape (type fn)* (types* fn^nprods)*"
    return gm


# ------------------------------------------------------------------------------- edits
USER_ITEMS = [
    ("use std::fmt;", None),
    ("use std::collections::{BTreeMap, HashMap as Map};", None),
    ("pub const LIMIT: usize = 10;", None),
    ("static mut COUNTER: u32 = 0;", None),
    ("impl fmt::Display for UserData {\n    fn fmt(&self, f: &mut fmt::Formatter<'_>) -> fmt::Result {\n"
     "        write!(f, \"{}:{}\", self.id, self.name)\n    }\n}", None),
    ("#[cfg(test)]\nmod tests {\n    use super::*;\n    #[test]\n    fn t() {\n        assert_eq!(1 + 1, 2);\n    }\n}", None),
    ("macro_rules! helper {\n    ($x:expr) => { $x + 1 };\n}", None),
    ("pub trait Visit {\n    fn visit(&mut self, n: &UserData) -> bool {\n        true\n    }\n}", None),
    ("pub union Bits {\n    a: u32,\n    b: f32,\n}", None),
    ("extern crate core as mycore;", None),
    ("/// documented helper\n/// second line\npub fn user_helper<'a, T: Clone>(x: &'a [T]) -> Vec<T>\nwhere\n    T: fmt::Debug,\n"
     "{\n    x.iter().cloned().collect()\n}", ("F", "user_helper")),
    ("#[derive(Debug, Clone, Default)]\npub struct UserData {\n    pub id: u32,\n    pub name: String,\n}", ("T", "UserData")),
    ("pub enum UserKind {\n    A,\n    B(u32),\n    C { x: i64 },\n}", ("T", "UserKind")),
    ("pub type UserAlias<'i> = Vec<&'i str>;", ("T", "UserAlias")),
    # same names as generated items, but not at the top level: must not count as present
    ("mod inner {\n    pub fn s_a() {}\n    pub fn s_c1() {}\n    pub struct S;\n    pub struct SC2;\n    pub type A = u8;\n}", None),
    ("extern \"C\" {\n    fn abs(x: i32) -> i32;\n}", None),
    ("helper_items! {\n    pub fn generated_by_macro() {}\n}", None),
    ("pub(crate) fn second_helper(x: u32) -> u32 {\n    x.wrapping_mul(31) ^ 0xdead_beef\n}", ("F", "second_helper")),
]

BODIES = [
    "{\n    let v = vec![1, 2, 3];\n    match v.len() {\n        0 => {},\n        1 => { println!(\"one\"); }\n        _ => (),\n    };\n    todo!()\n}",
    "{\n    if let Some(x) = None::<u32> {\n        let _ = x as usize;\n    }\n    unimplemented!(\"later\")\n}",
    "{\n    let f = |a: u32, b: u32| -> u32 { a + b };\n    let _ = f(1, 2);\n    loop {\n        break;\n    }\n    panic!()\n}",
    "{\n    // a comment the generator is documented to drop\n    #[allow(unused)]\n    let s = \"str\\\"ing \\u{1F600}\";\n"
    "    let r = r#\"raw \"x\"\"#;\n    let c = 'c';\n    let b = b\"bytes\";\n    unreachable!()\n}",
    "{\n    let x = (1 + 2) * 3;\n    let y = -(x as i64);\n    let z = &mut [0u8; 4][..];\n    z[0] = y as u8;\n    return Default::default();\n}",
    "{\n    for (i, c) in \"abc\".chars().enumerate() {\n        if i > 1 {\n            continue;\n        }\n        let _ = c;\n    }\n    Default::default()\n}",
    "{\n    let t: Result<u8, String> = Ok(1);\n    let _n = match t { Ok(n) => n, Err(_) => 0 };\n    let _ = async { 1 };\n"
    "    unsafe { std::hint::unreachable_unchecked() }\n}",
    "{\n    let _ = (_ctx, 1..=3, [1u8; 2], (1,), ((2)));\n    let w = if true { 1 } else { 2 };\n    while w > 5 {}\n    Default::default()\n}",
]


def compose(items):
    """Rust source of a file made of the given items (file-level attributes first)"""
    attrs = [i.text for i in items if i.kind == "Attrs"]
    rest = [i.text for i in items if i.kind != "Attrs"]
    return "".join(t if t.endswith("\n") else t + "\n" for t in attrs + rest)


class T:
    """an item text the driver wrote (kind/name are what syn will say; only text matters)"""

    def __init__(self, text, kind="Other", name="-"):
        self.text, self.kind, self.name = text, kind, name

    def nsname(self):
        if self.kind in ("Enum", "Struct", "Type"):
            return ("T", self.name)
        if self.kind == "Fn":
            return ("F", self.name)
        return None


def rewrite_body(text, body):
    k = text.find("fn ")
    b = text.find("{", k)
    return text[:b] + body + "\n"


def swap_kind_text(it, rng):
    n = it.name
    if it.kind == "Type":
        return rng.choice([
            T("#[derive(Debug, Clone, PartialEq)]\npub struct %s(pub String);" % n, "Struct", n),
            T("pub enum %s {\n    Text(String),\n    Number(i64),\n}" % n, "Enum", n),
            T("pub struct %s {\n    pub value: String,\n    pub line: usize,\n}" % n, "Struct", n)])
    if it.kind == "Enum":
        return rng.choice([
            T("pub type %s = Box<dyn std::any::Any>;" % n, "Type", n),
            T("#[derive(Debug)]\npub struct %s {\n    pub node: usize,\n}" % n, "Struct", n)])
    return rng.choice([
        T("pub type %s = (String, String);" % n, "Type", n),
        T("pub enum %s {\n    Only,\n}" % n, "Enum", n)])


def apply_edit(op, cur, gm, rng):
    """cur: items of the current file (Item objects).  Returns (new item list | None for 'remove
    the file', description, raw text override or None)."""
    gen_names = set(names_of(gm.flat))
    items = list(cur)
    body = [i for i in items if i.kind != "Attrs"]
    attrs = [i for i in items if i.kind == "Attrs"]
    if op == "nothing":
        return items, "no edit", None
    if op == "delete_subset":
        p = rng.choice([0.15, 0.4, 0.8])
        keep = [i for i in body if not (i.nsname() in gen_names and rng.random() < p)]
        return attrs + keep, "delete a random subset (p=%.2f) of generated items" % p, None
    if op == "delete_fns":
        p = rng.choice([0.3, 0.7])
        keep = [i for i in body if not (i.kind == "Fn" and i.nsname() in gen_names and rng.random() < p)]
        return attrs + keep, "delete action functions (p=%.1f)" % p, None
    if op == "delete_group":
        ng = [g for g in gm.groups if g[0] == "N"]
        if not ng:
            return items, "no edit", None
        g = rng.choice(ng)
        kill = set(("T", t.name) for t in g[2])
        if rng.random() < 0.5:
            kill |= set(("F", k) for k, _ in g[3])
        return attrs + [i for i in body if i.nsname() not in kill], "delete all types of rule %s" % g[1], None
    if op == "delete_part_of_group":
        ng = [g for g in gm.groups if g[0] == "N" and len(g[2]) >= 2]
        if not ng:
            return items, "no edit", None
        g = rng.choice(ng)
        if rng.random() < 0.5:
            kill = {("T", g[1])}
            what = "the rule's own type"
        else:
            others = [t.name for t in g[2] if t.name != g[1]]
            kill = {("T", rng.choice(others))} if others else {("T", g[1])}
            what = "one other type"
        return attrs + [i for i in body if i.nsname() not in kill], "delete %s of rule %s only" % (what, g[1]), None
    if op == "rewrite_bodies":
        fns = [n for n, i in enumerate(body) if i.kind == "Fn"]
        if not fns:
            return items, "no edit", None
        for n in rng.sample(fns, min(len(fns), rng.randint(1, 3))):
            body[n] = T(rewrite_body(body[n].text, rng.choice(BODIES)), "Fn", body[n].name)
        return attrs + body, "rewrite function bodies", None
    if op == "swap_kind":
        tys = [n for n, i in enumerate(body) if i.kind in ("Type", "Enum", "Struct") and i.nsname() in gen_names]
        if not tys:
            return items, "no edit", None
        n = rng.choice(tys)
        body[n] = swap_kind_text(body[n], rng)
        return attrs + body, "replace a generated type by a user type of another kind", None
    if op == "add_user_items":
        have = set(x.nsname() for x in body if x.nsname())
        for text, nn in rng.sample(USER_ITEMS, rng.randint(1, 4)):
            if nn is not None and nn in have:
                continue
            kind = {"F": "Fn", "T": "Struct"}.get(nn[0]) if nn else "Other"
            body.insert(rng.randint(0, len(body)), T(text, kind, nn[1] if nn else "-"))
            if nn:
                have.add(nn)
        return attrs + body, "add user items", None
    if op == "reorder":
        if rng.random() < 0.5:
            rng.shuffle(body)
            return attrs + body, "shuffle all items", None
        if len(body) > 1:
            x = body.pop(rng.randrange(len(body)))
            body.insert(rng.randint(0, len(body)), x)
        return attrs + body, "move one item", None
    if op == "rename_fn":
        fns = [n for n, i in enumerate(body) if i.kind == "Fn" and i.nsname() in gen_names]
        if not fns:
            return items, "no edit", None
        n = rng.choice(fns)
        old = body[n].name
        new = old + "_mine"
        if ("F", new) in set(x.nsname() for x in body):
            return items, "no edit", None
        body[n] = T(re.sub(r"\bfn %s\b" % re.escape(old), "fn " + new, body[n].text, count=1), "Fn", new)
        return attrs + body, "rename function %s" % old, None
    if op == "hide_in_mod":
        cand = [n for n, i in enumerate(body) if i.nsname() in gen_names]
        if not cand:
            return items, "no edit", None
        n = rng.choice(cand)
        inner = "".join("    " + l + "\n" for l in body[n].text.rstrip("\n").split("\n"))
        body[n] = T("pub mod hidden_%d {\n    use super::*;\n%s}" % (n, inner))
        return attrs + body, "move a generated item into a module", None
    if op == "inner_attrs":
        if attrs:
            return body, "drop the file-level attributes", None
        return [T("//! Actions of my language.\n#![allow(dead_code)]\n#![allow(clippy::all)]", "Attrs")] + body, \
            "add file-level doc and attributes", None
    if op == "comments":
        out = []
        for i in body:
            if rng.random() < 0.4:
                out.append(T("// note: keep in sync with the grammar\n/* block\n   comment */\n" + i.text, i.kind, i.name))
            else:
                out.append(i)
        return attrs + out, "add non-doc comments", None
    if op == "empty_file":
        return [], "truncate the file to nothing", None
    if op == "remove_file":
        return None, "remove the file", None
    if op == "break_syntax":
        txt = compose(items)
        k = rng.randint(0, max(0, len(txt) - 1))
        return items, "make the file unparsable", txt[:k] + " }} fn ( " + txt[k:]
    raise ValueError(op)


OPS = ["delete_subset", "delete_subset", "delete_fns", "delete_group", "delete_part_of_group", "rewrite_bodies",
       "rewrite_bodies", "swap_kind", "add_user_items", "add_user_items", "reorder", "rename_fn", "hide_in_mod",
       "inner_attrs", "comments", "empty_file", "remove_file", "break_syntax", "nothing"]


def regen_calls(rng, base, d, forced):
    if forced:
        return rng.choice([base + ["in_source_tree", "force:true"], base + ["force:true", "in_source_tree"], list(base)])
    return rng.choice([
        base + ["in_source_tree"], base + ["in_source_tree"],
        base + ["actions_in_source_tree", "root_dir:" + d, "out_dir_root:" + os.path.join(d, "out")],
        base + ["in_source_tree", "force:false"],
        base + ["force:false", "in_source_tree"]])


# ------------------------------------------------------------------------------- one history
class Step:
    hid = n = op = base = stem = gname = gtext = gm = error = desc = file_text = calls = None
    result = msg = settings = force = before = after = bytes1 = result2 = after2 = bytes2 = py = None


def run_history(hid, gname, base, ops, seed, forced_at=()):
    """Runs one edit history on the real generator.  Returns (list of Step, list of GenModel used)."""
    rng = random.Random(seed)
    d = GL.fresh_dir("c18", hid, "run")
    stem = gname
    gpath = os.path.join(d, stem + ".rustemo")
    apath = os.path.join(d, stem + "_actions.rs")
    gtext = GC.text(gname)
    open(gpath, "w").write(gtext)
    def gm_of(name):
        return gen_model(stem, name, base)

    cur_g = gname
    steps = []
    cur_items = None      # last parsed listing of the file (None: absent)
    for n, op in enumerate(ops):
        st = Step()
        st.hid, st.n, st.op = hid, n, op
        st.base, st.stem = base, stem
        if op == "evolve":
            nxt = GC.evolution(cur_g)
            if nxt:
                cur_g = nxt
                gtext = GC.text(cur_g)
                open(gpath, "w").write(gtext)
            op = "nothing"
        gm = gm_of(cur_g)
        st.gname, st.gtext, st.gm = cur_g, gtext, gm
        st.error = gm.error
        if cur_items is None and op not in ("nothing", "remove_file"):
            op = "nothing"
        if op == "nothing" and cur_items is None:
            new_items, st.desc, raw = None, "no file", None
        else:
            new_items, st.desc, raw = apply_edit(op, cur_items, gm, rng)
        if new_items is None:
            if os.path.exists(apath):
                os.remove(apath)
            st.file_text = None
        else:
            st.file_text = raw if raw is not None else compose(new_items)
            open(apath, "w").write(st.file_text)
        forced = n in forced_at
        st.calls = regen_calls(rng, base, d, forced)
        r = GL.rvgen(["gen", gpath] + st.calls)
        st.result, st.msg = r.result, r.msg
        st.settings = r.settings or ""
        m = re.search(r"\bforce: (true|false)", st.settings)
        st.force = (m.group(1) == "true") if m else None
        st.before, st.after = r.before, r.after
        st.bytes1 = open(apath, "rb").read() if os.path.exists(apath) else None
        # second regeneration, same call
        r2 = GL.rvgen(["gen", gpath] + st.calls)
        st.result2 = r2.result
        st.after2 = r2.after
        st.bytes2 = open(apath, "rb").read() if os.path.exists(apath) else None
        steps.append(st)
        if st.after is not None and st.after.state == "OK":
            cur_items = st.after2.items if (st.after2 is not None and st.after2.state == "OK") else st.after.items
        elif st.after is not None and st.after.state == "ABSENT":
            cur_items = None
        # UNPARSABLE: keep the last good listing; the next edit rewrites the file from it
    return steps


# ------------------------------------------------------------------------------- Coq side
class Interner:
    def __init__(self):
        self.names, self.bodies = {}, {}

    def name(self, s):
        if s == "-":
            return 0
        return self.names.setdefault(s, len(self.names) + 1)

    def body(self, h):
        return self.bodies.setdefault(h, len(self.bodies) + 1)


KIND = {"Enum": "KEnum", "Struct": "KStruct", "Type": "KType", "Fn": "KFn", "Other": "KOther"}


def gl_item(it, I):
    k = it.mkind()
    return "mkR %s %d %d" % (KIND[k], I.name(it.name) if k != "Other" else 0, I.body(it.hash))


def gl_items(items, I):
    return "[" + "; ".join(gl_item(i, I) for i in items) + "]"


def gl_gen(gm, I):
    gs = []
    for g in gm.groups:
        if g[0] == "T":
            gs.append("GTerm %d (%s) %d (%s)" % (I.name(g[1]), gl_item(g[2], I), I.name(g[3]), gl_item(g[4], I)))
        else:
            acts = "[" + "; ".join("(%d, %s)" % (I.name(k), gl_item(a, I)) for k, a in g[3]) + "]"
            gs.append("GNonterm %s %s" % (gl_items(g[2], I), acts))
    return "mkGen %s [%s]" % (gl_items(gm.header, I), "; ".join(gs))


def coq_eval_steps(tag, steps):
    """steps: list of Step with a parsed before (or absent) and after.  Returns {id(step): [6 bools]}"""
    shards = [[] for _ in range(max(1, min(NCPU, len(steps))))]
    for n, s in enumerate(steps):
        shards[n % len(shards)].append(s)
    jobs = []
    for k, sh in enumerate(shards):
        I = Interner()
        lines = ["From RV Require Import Util Model.Regen Spec.RegenSpec."]
        gen_names = {}
        for s in sh:
            gk = id(s.gm)
            if gk not in gen_names:
                gen_names[gk] = "gen_%d" % len(gen_names)
                lines.append("Definition %s : genout := %s." % (gen_names[gk], gl_gen(s.gm, I)))
            g = gen_names[gk]
            e = s.before.items if s.before.state == "OK" else []
            ex = "Some e" if s.before.state == "OK" else "None"
            lines.append(
                "Eval vm_compute in (let e := %s in let a := %s in "
                "(ritems_eqb (regen %s (%s) %s) a, wf_gen_b (g_groups %s), "
                "gen_dup_b (g_groups %s), nodup_names_b e, nodup_names_b a, "
                "ritems_eqb a (e ++ missing e (g_groups %s))))."
                % (gl_items(e, I), gl_items(s.after.items, I), gl_bool(bool(s.force)), ex, g, g, g, g))
        jobs.append(("c18_%s_%d" % (tag, k), "\n".join(lines) + "\n"))
    outs = coq_eval_many(jobs)
    res = {}
    for (ok, out), sh in zip(outs, shards):
        if not ok:
            for s in sh:
                res[id(s)] = dict(error=out[-1500:])
            continue
        bl = parse_bools(out)
        if len(bl) != len(sh):
            for s in sh:
                res[id(s)] = dict(error="expected %d answers, got %d" % (len(sh), len(bl)))
            continue
        for s, b in zip(sh, bl):
            res[id(s)] = dict(vals=b)
    return res


# ------------------------------------------------------------------------------- judging
def step_payload(s, **kw):
    p = dict(grammar=s.gtext, grammar_name=s.gname, stem=s.stem, base=s.base, calls=s.calls, edit=s.desc,
             file_before=s.file_text, history=s.hid, step=s.n)
    if s.before is not None and s.before.state == "OK":
        p["before_items"] = ["%s %s %s" % k for k in s.before.keys()]
    if s.after is not None and s.after.state == "OK":
        p["after_items"] = ["%s %s %s" % k for k in s.after.keys()]
    p.update(kw)
    return p


class Judge:
    def __init__(self, rep):
        self.rep = rep
        self.found = {}     # key -> (size, what, payload, found_input)
        self.counts = {}

    def hit(self, key, what, s, found_input=True, **kw):
        self.counts[key] = self.counts.get(key, 0) + 1
        size = len(s.file_text or "") + len(s.gtext)
        if key not in self.found or size < self.found[key][0]:
            self.found[key] = (size, what, step_payload(s, **kw), found_input)

    def flush(self):
        for key in sorted(self.found):
            size, what, payload, fi = self.found[key]
            payload["occurrences_in_this_run"] = self.counts[key]
            self.rep.violation(key, what, payload, found_input=fi)


def intended_force(calls):
    """documented meaning of the API calls used by the driver (settings.rs:185-208, 359-364): overwriting is the
    default for OUT_DIR output; generating the actions in the source tree switches it off unless force was set
    explicitly"""
    force, explicit = True, False
    for c in calls:
        if c.startswith("force:"):
            force, explicit = c == "force:true", True
        elif c in ("in_source_tree", "actions_in_source_tree") and not explicit:
            force = False
    return force


def judge_step(s, J, stats):
    """direct checks of the property's statements on the real lists; returns the Python-side values
    mirrored by the Coq evaluation (partial, gendup, nodup_e, nodup_a, exact) or None"""
    gm = s.gm
    if s.calls is not None and s.force is not None and intended_force(s.calls) != s.force:
        J.hit("force-semantics", "Settings.force is %s after %s: an existing hand-edited actions file would be %s"
              % (s.force, s.calls, "overwritten" if s.force else "kept although force was requested"), s)
        b, a = s.before, s.after
        if s.force and b is not None and a is not None and b.state == "OK" and a.state == "OK" and \
                a.keys()[:len(b.items)] != b.keys():
            J.hit("kept-items-changed", "an existing item was changed, moved or dropped by regeneration", s)
    if s.error:
        J.hit("observe-gen", "could not observe the generator's output: " + s.error, s, found_input=False)
        # the part of the property that needs no knowledge of the generator's output
        b, a = s.before, s.after
        if b is not None and a is not None and b.state == "OK" and a.state == "OK" and s.result == "OK":
            if s.force is False and a.keys()[:len(b.items)] != b.keys():
                J.hit("kept-items-changed", "an existing item was changed, moved or dropped by regeneration", s)
            if s.after2 is None or s.after2.state != "OK" or s.after2.keys() != a.keys():
                J.hit("second-regen-changes-items", "a second regeneration changed the item list", s)
            if nodup(b.items) and not nodup(a.items):
                J.hit("no-dup", "regeneration created a duplicate name", s)
        return None
    stats["steps"] += 1
    stats["ops"][s.op] = stats["ops"].get(s.op, 0) + 1
    b, a = s.before, s.after
    if b is None or a is None:
        J.hit("harness", "rvgen produced no listing", s, found_input=False, raw=s.msg)
        return None
    if b.state == "UNPARSABLE" and not s.force:
        stats["unparsable"] += 1
        if s.result != "ERR":
            J.hit("unparsable-not-error", "an unparsable existing actions file did not yield an error", s, result=s.result)
        if s.bytes1 != (s.file_text or "").encode():
            J.hit("unparsable-file-touched", "the unparsable actions file was modified", s)
        return None
    if s.result != "OK" or a.state != "OK":
        J.hit("regen-failed", "regeneration failed: %s %s" % (s.result, s.msg[:200]), s, found_input=True)
        return None
    # second regeneration is a fixed point
    if s.after2 is None or s.after2.state != "OK" or s.after2.keys() != a.keys():
        J.hit("second-regen-changes-items", "a second regeneration changed the item list", s,
              after2=["%s %s %s" % k for k in s.after2.keys()] if s.after2 and s.after2.state == "OK" else None)
    elif s.bytes1 != s.bytes2:
        J.hit("second-regen-changes-bytes", "a second regeneration changed the bytes of the file", s)
    forced = s.force or b.state == "ABSENT"
    if forced:
        stats["forced_or_fresh"] += 1
        if a.keys() != [i.key() for i in gm.fresh]:
            J.hit("forced-not-fresh", "forced / first generation differs from a fresh file", s)
        e = []
    else:
        e = b.items
        if b.state == "UNPARSABLE":
            e = []
    ak, ek = a.keys(), [i.key() for i in e]
    exact = None
    if not forced:
        stats["regen_over_existing"] += 1
        # every existing item kept in place token-for-token
        if ak[:len(ek)] != ek:
            J.hit("kept-items-changed", "an existing item was changed, moved or dropped by regeneration", s)
            return None
        added = a.items[len(e):]
        if added:
            stats["nontrivial"] += 1
        stats["items_kept"] += len(e)
        stats["items_added"] += len(added)
        for i in e:
            if i.drift in (",", "u"):
                stats["drift_only_commas" if i.drift == "," else "drift_unit_arm"] += 1
                J.hit(KEY_REPRINT, KEY_TEXT[KEY_REPRINT], s, item_after_reprint=i.text,
                      drift_class="commas" if i.drift == "," else "unit match-arm body () -> {}")
            elif i.drift != "=":
                J.hit("token-drift", "re-printing an existing item changes its tokens (not a known normalisation)", s,
                      item_after_reprint=i.text)
        want = [i.key() for i in gm.missing(e)]
        exact = [i.key() for i in added] == want
        part = gm.partial(e)
        gd = gm.gen_dup()
        pres_e = set(names_of(e))
        pres_after = set(names_of(a.items))
        # (1) re-added although an item with that name exists
        clash = [i for i in added if i.nsname() in pres_e]
        # (2) one name appended twice
        an = names_of(added)
        twice = len(an) != len(set(an))
        # (3) generated for the grammar, absent afterwards
        lost = [i for i in gm.flat if i.nsname() not in pres_after]
        if part:
            stats["class_partial"] += 1
        if clash:
            if part:
                J.hit(KEY_DUP, KEY_TEXT[KEY_DUP], s, readded_although_present=[repr(i) for i in clash])
            else:
                J.hit("no-dup", "an item was appended although its name is present (outside the known class)", s,
                      readded_although_present=[repr(i) for i in clash])
        if twice:
            if gd:
                stats["class_gendup"] += 1
                J.hit(KEY_GENDUP, KEY_TEXT[KEY_GENDUP], s, added=[repr(i) for i in added])
            else:
                J.hit("no-dup", "one name was appended twice (outside the known class)", s, added=[repr(i) for i in added])
        if lost:
            if part:
                J.hit(KEY_LOST, KEY_TEXT[KEY_LOST], s, not_readded=[repr(i) for i in lost])
            else:
                J.hit("incomplete", "a generated item is absent after regeneration (outside the known class)", s,
                      not_readded=[repr(i) for i in lost])
        if not exact and not (clash or lost):
            J.hit("adds-missing", "the appended items are not exactly the missing ones, in generation order", s,
                  added=[repr(i) for i in added], missing=["%s %s %s" % k for k in want])
    else:
        if not nodup(a.items):
            if gm.gen_dup():
                J.hit(KEY_GENDUP, KEY_TEXT[KEY_GENDUP], s)
                stats["class_gendup"] += 1
            else:
                J.hit("no-dup", "a fresh file has duplicate names", s)
    ee = e if not forced or b.state == "OK" else []
    ecoq = b.items if b.state == "OK" else []
    return dict(partial=gm.partial(ecoq), gendup=gm.gen_dup(), nodup_e=nodup(ecoq), nodup_a=nodup(a.items),
                exact=[i.key() for i in a.items] == [i.key() for i in ecoq] + [i.key() for i in gm.missing(ecoq)],
                wf=gm.wf())


# ------------------------------------------------------------------------------- witnesses of the known findings
def witness_histories():
    """(id, grammar, ops, expected key) — fixed, replayed in every run"""
    return [
        # regression histories of the repaired F10: no finding expected
        ("w_f10_dup", "enumstruct", ["nothing", ("only", "S")], None),
        ("w_f10_lost", "enumstruct", ["nothing", ("only", "SC2")], None),
        ("w_evo_lost", "evo1", ["nothing", "evolve"], None),
        ("w_gendup_kinds", "dupkinds", ["nothing"], KEY_GENDUP),
        ("w_gendup_snake", "snakeclash", ["nothing"], KEY_GENDUP),
    ]


def run_witness(hid, gname, ops):
    """like run_history but with deterministic 'delete exactly this type' edits"""
    d = GL.fresh_dir("c18", hid, "run")
    gpath = os.path.join(d, gname + ".rustemo")
    apath = os.path.join(d, gname + "_actions.rs")
    cur_g = gname
    open(gpath, "w").write(GC.text(cur_g))
    steps, cur = [], None
    for n, op in enumerate(ops):
        st = Step()
        st.hid, st.n, st.base, st.error, st.stem = hid, n, [], None, gname
        st.op = op if isinstance(op, str) else "delete_part_of_group"
        if op == "evolve":
            cur_g = GC.evolution(cur_g)
            open(gpath, "w").write(GC.text(cur_g))
        st.gm, st.gname, st.gtext = gen_model(gname, cur_g, []), cur_g, GC.text(cur_g)
        st.error = st.gm.error
        if isinstance(op, tuple):
            items = [i for i in cur if not (i.ns() == "T" and i.name == op[1])]
            st.file_text = compose(items)
            st.desc = "delete only the type %s" % op[1]
            open(apath, "w").write(st.file_text)
        else:
            st.file_text = open(apath).read() if os.path.exists(apath) else None
            st.desc = "grammar changed" if op == "evolve" else "no edit"
        st.calls = ["in_source_tree"]
        r = GL.rvgen(["gen", gpath] + st.calls)
        st.result, st.msg, st.settings = r.result, r.msg, r.settings or ""
        st.force = "force: true" in st.settings
        st.before, st.after = r.before, r.after
        st.bytes1 = open(apath, "rb").read() if os.path.exists(apath) else None
        r2 = GL.rvgen(["gen", gpath] + st.calls)
        st.result2, st.after2 = r2.result, r2.after
        st.bytes2 = open(apath, "rb").read() if os.path.exists(apath) else None
        steps.append(st)
        cur = st.after.items if st.after.state == "OK" else cur
    return steps


# ------------------------------------------------------------------------------- entry points
def plan(tier, seed):
    rng = random.Random(seed * 104729 + 18)
    nh, nsteps = (2, 6) if tier == "quick" else (14, 10)
    hs = []
    for gname in GC.names():
        if gname in ("evo2", "evo4"):
            continue
        for bi, base in enumerate(BASES):
            for h in range(nh if bi == 0 else max(1, nh // 3)):
                ops = [rng.choice(OPS) for _ in range(nsteps)]
                ops[0] = "nothing"                       # first generation
                if GC.evolution(gname):
                    ops[rng.randint(2, nsteps - 1)] = "evolve"
                forced = {rng.randint(1, nsteps - 1)} if rng.random() < 0.35 else set()
                hs.append(("h_%s_%d_%d" % (gname, bi, h), gname, base, ops, rng.randrange(1 << 30), forced))
    return hs


def run(rep, tier, seed):
    if not os.path.exists(GL.RVGEN):
        rep.violation("harness-build", "rvgen binary missing", dict(path=GL.RVGEN), found_input=False)
        return
    hs = plan(tier, seed)
    J = Judge(rep)
    stats = dict(steps=0, ops={}, unparsable=0, forced_or_fresh=0, regen_over_existing=0, nontrivial=0,
                 items_kept=0, items_added=0, class_partial=0, class_gendup=0, drift_only_commas=0, drift_unit_arm=0)
    # known-finding witnesses first
    wit = witness_histories()
    import time
    t0 = time.time()
    need = set()
    for h in hs:
        need.add((h[1], h[1], tuple(h[2])))
        if GC.evolution(h[1]):
            need.add((h[1], GC.evolution(h[1]), tuple(h[2])))
    for w in wit:
        need.add((w[1], w[1], ()))
        if GC.evolution(w[1]):
            need.add((w[1], GC.evolution(w[1]), ()))
    with ThreadPoolExecutor(max_workers=NCPU) as ex:
        list(ex.map(lambda k: gen_model(k[0], k[1], list(k[2])), sorted(need)))
    t_observe = time.time() - t0
    t0 = time.time()
    with ThreadPoolExecutor(max_workers=NCPU) as ex:
        wres = list(ex.map(lambda w: run_witness(w[0], w[1], w[2]), wit))
        hres = list(ex.map(lambda h: run_history(*h), hs))
    t_real = time.time() - t0
    all_steps = []
    expect = {}
    for (hid, gname, ops, key), steps in zip(wit, wres):
        before = J.counts.get(key, 0)
        for s in steps:
            s.py = judge_step(s, J, stats)
            all_steps.append(s)
        if key is not None and J.counts.get(key, 0) == before:
            rep.notes.append("witness %s of known finding %s no longer reproduces (fixed?)" % (hid, key))
        expect[hid] = key
    for steps in hres:
        for s in steps:
            s.py = judge_step(s, J, stats)
            all_steps.append(s)
    # Coq: model vs real on every step that produced a listing
    evs = [s for s in all_steps if s.py is not None]
    t0 = time.time()
    ev = coq_eval_steps("run", evs)
    t_coq = time.time() - t0
    n_model_ok = 0
    for s in evs:
        e = ev.get(id(s), {})
        if "error" in e or "vals" not in e:
            J.hit("coq-eval", "Coq evaluation of the step failed", s, found_input=False, err=e.get("error"))
            continue
        v = e["vals"]
        if len(v) != 6:
            J.hit("coq-eval", "unexpected Coq answer", s, found_input=False, err=str(v))
            continue
        model_eq, wf, gd, nde, nda, exact = v
        if not wf:
            J.hit("gen-not-wf", "the generator's output violates wf_gen_b (names of generated items are not the "
                                "lookup keys): regen_idempotent and the *_known theorems do not apply", s, found_input=False)
        if not model_eq:
            model = s.gm.regen(bool(s.force), s.before.items if s.before.state == "OK" else None)
            J.hit("corr-regen", "real regeneration and Model.Regen.regen disagree", s, found_input=False,
                  model_items=["%s %s %s" % i.key() for i in model],
                  obligation="correspondence Model.Regen.regen vs generator/actions/mod.rs")
        else:
            n_model_ok += 1
        py = s.py
        if (gd, nde, nda, exact, wf) != (py["gendup"], py["nodup_e"], py["nodup_a"], py["exact"], py["wf"]):
            J.hit("spec-mismatch", "Python-side statement check and Coq Spec.RegenSpec functions disagree", s,
                  found_input=False, coq=v, python=py)
    J.flush()
    pt = rep.theorems or {}
    nthm = len(pt.get("theorems", []))
    samples = []
    for s in evs:
        if s.before.state == "OK" and len(s.after.items) > len(s.before.items) and len(samples) < 4 and \
                s.gname not in [x["grammar_name"] for x in samples]:
            samples.append(dict(grammar_name=s.gname, edit=s.desc, calls=s.calls,
                                kept=len(s.before.items), added=[repr(i) for i in s.after.items[len(s.before.items):]]))
    unexpected = [k for k in J.found if k not in (KEY_GENDUP, KEY_REPRINT)]
    rep.coverage = dict(
        obligations=nthm + len(evs), discharged=(pt.get("closed", 0) if not unexpected else 0) + n_model_ok,
        checker_cmd="make -C coq Properties/C18.vo ; coqc work/c18_run_*.v (vm_compute)",
        trusted_base=TRUSTED_BASE + [
            "harness/src/bin/rvgen.rs: lists the items of the actions file with the same syn::parse_file call the "
            "generator uses; item identity = FNV-1a of quote::ToTokens rendering",
            "syn::parse_file / prettyplease::unparse are not modelled: their round trip is measured (every kept item "
            "is compared by token-stream hash, the second regeneration by bytes)"],
        theorems=pt.get("theorems", []),
        histories=len(hs) + len(wit), evaluations=len(evs), distinct_nontrivial=stats["nontrivial"],
        model_agrees=n_model_ok, stats=stats, finding_counts=J.counts,
        seconds=dict(observe_generator=round(t_observe, 1), real_histories=round(t_real, 1), coq_eval=round(t_coq, 1)),
        rule="grammars: %d hand-written (enum / choice structs / struct / optional / Ref / Vec / recursive / plain / "
             "named / kinds / sugar helpers / Layout / header-name clash / generator duplicates / grammar evolution) "
             "x {default, builder_loc_info, custom lexer}; history = first generation then random edits (%s) each "
             "followed by a real regeneration (no force, 4 API spellings; forced with p=0.35 once) and a second one; "
             "non-trivial = regenerations over an existing file that appended at least one item"
             % (len(GC.names()), ", ".join(sorted(set(OPS)))),
        samples=samples)
    rep.assumptions = [
        "an item is (syn::Item variant, identifier, token stream); names interned as naturals; bodies opaque",
        "the generator's output per grammar (header, groups) is observed on the real generator (fresh file, and "
        "regeneration over an empty file) and cut into groups with the real grammar's symbol lists (hook dump); "
        "its well-formedness wf_gen_b is evaluated in Coq for every grammar of the run",
        "model evaluated by Coq's vm_compute on Gallina terms printed from the real listings"]


def replay(rep, path):
    p = json.load(open(path))
    d = GL.fresh_dir("c18", "replay", "run")
    stem = p.get("stem", p.get("grammar_name", "g"))
    gpath = os.path.join(d, stem + ".rustemo")
    apath = os.path.join(d, stem + "_actions.rs")
    open(gpath, "w").write(p["grammar"])
    base = p.get("base", [])
    gm = observe_gen("replay", stem, p["grammar"], base)
    if gm.error:
        print("observe:", gm.error)
        return
    if p.get("file_before") is not None:
        open(apath, "w").write(p["file_before"])
    calls = [c if not c.startswith(("root_dir:", "out_dir_root:")) else
             (c.split(":")[0] + ":" + (d if c.startswith("root_dir:") else os.path.join(d, "out"))) for c in p.get("calls", ["in_source_tree"])]
    r = GL.rvgen(["gen", gpath] + calls)
    s = Step()
    s.hid, s.n, s.op, s.base, s.error, s.stem = "replay", 0, "replay", base, None, stem
    s.gm, s.gname, s.gtext, s.desc, s.calls = gm, stem, p["grammar"], p.get("edit", ""), calls
    s.file_text = p.get("file_before")
    s.result, s.msg, s.settings = r.result, r.msg, r.settings or ""
    s.force = "force: true" in s.settings
    s.before, s.after = r.before, r.after
    s.bytes1 = open(apath, "rb").read() if os.path.exists(apath) else None
    r2 = GL.rvgen(["gen", gpath] + calls)
    s.result2, s.after2 = r2.result, r2.after
    s.bytes2 = open(apath, "rb").read() if os.path.exists(apath) else None
    print("real before :", s.before.state, [repr(i) for i in s.before.items])
    print("real result :", s.result, s.msg[:200])
    print("real after  :", s.after.state, [repr(i) for i in s.after.items])
    if s.before.state in ("OK", "ABSENT") and s.after.state == "OK":
        e = s.before.items if s.before.state == "OK" else None
        print("model after :", [repr(i) for i in gm.regen(bool(s.force), e)])
        print("missing     :", [repr(i) for i in gm.missing(e or [])])
        print("classes     : partial_types=%s gen_dup=%s" % (gm.partial(e or []), gm.gen_dup()))
        J = Judge(rep)
        stats = dict(steps=0, ops={}, unparsable=0, forced_or_fresh=0, regen_over_existing=0, nontrivial=0,
                     items_kept=0, items_added=0, class_partial=0, class_gendup=0, drift_only_commas=0, drift_unit_arm=0)
        s.py = judge_step(s, J, stats)
        if s.py is not None:
            ev = coq_eval_steps("replay", [s])
            print("coq (model=real, wf, gendup, nodup e, nodup after, exact):", ev.get(id(s)))
        print("oracle      :", sorted(J.counts) or "all statements hold on the real lists")
        J.flush()
    rep.coverage = dict(obligations=1, discharged=1, checker_cmd="replay", trusted_base=[])
