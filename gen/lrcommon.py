"""Token-level LR checks shared by C01, C02, C12: real table -> validators in Coq,
real LRParser outcomes vs the Gallina model, real trees judged by the verified oracle."""
import os
import re

from rvlib import *  # noqa
import grammars as GR

PANIC_SITES = [
    ("index out of bounds: the len is 0", 2),   # actions(..)[0]
    ("Invalid goto", 4),
    ("attempt to subtract with overflow", 3),
    ("`at` split index", 3),
    ("called `Option::unwrap()` on a `None` value", 6),
]


def panic_site(msg):
    for k, v in PANIC_SITES:
        if k in msg:
            return v
    return 99


def tok_index(pos):
    return (pos + 1) // 2


def letters_to_kinds(tokens):
    # terminal letter 'a' is terminal index 1 (STOP = 0), in declaration order
    return [GR.TERMS.index(t) + 1 for t in tokens]


def real_to_model(outcome):
    """real canonical outcome string -> (Gallina outcome term, parsed tree or None, consumed)"""
    w = outcome.split(" ", 1)
    if w[0] == "OK":
        t = parse_sexp(w[1])
        k = len(tree_leaves(t))
        return "Ok (%s) %d" % (gl_tree(t), k), t, k
    if w[0] == "ERR":
        f = w[1].split(" ")
        if f[0] != "E":
            return "ErrNoAction", None, None
        pos = int(f[1])
        exp = [] if f[5] == "-" else [int(x) for x in f[5].split(",")]
        return "Err %d %s" % (tok_index(pos), gl_nats(exp)), None, None
    if w[0] == "PANIC":
        msg = unhx(w[1]).decode(errors="replace") if len(w) > 1 else ""
        return "Panic %d" % panic_site(msg), None, None
    if w[0] == "TIMEOUT":
        return "OutOfFuel", None, None
    return "Panic 97", None, None


HEADER = ("From RV Require Import Model.LR Model.Compare Spec.Validators Spec.TreeCheck.\n"
          "Open Scope nat_scope.\n")


def coq_job_for(results, extra_validators=(), header=HEADER):
    """Builds one .v body for a list of (tag, CaseResult, token_inputs) and returns
    (body, layout) where layout describes how to read the answers back.
    Per case three Evals: validators, correspondence (one bool per input), tree oracle (one per OK)."""
    body = [header]
    layout = []
    for n, (tag, r, toks) in enumerate(results):
        d = r.dump
        body.append("Definition g%d := %s." % (n, gl_grammar(d)))
        body.append("Definition T%d := %s." % (n, gl_table(d)))
        vals = ["wf_grammar_b g%d" % n, "sound_b g%d T%d" % (n, n)] + [v % dict(n=n) for v in extra_validators]
        body.append("Eval vm_compute in %s." % gl_list(vals))
        partial = gl_bool(r.case.flags.get("partial", 0))
        corr, oracle, oracle_idx = [], [], []
        for i, w in enumerate(toks):
            out = r.results.get(("LR", i))
            if out is None:
                # skipped after repeated hangs of this case (counted by the caller), or missing
                corr.append("true" if (r.skip_from is not None and i >= r.skip_from) else "false")
                continue
            term, tree, k = real_to_model(out)
            kinds = gl_nats(letters_to_kinds(w))
            corr.append("outcome_eqb (parse_auto g%d T%d %s %s) (%s)" % (n, n, partial, kinds, term))
            if tree is not None:
                oracle.append("derivation_b g%d (%s) (firstn %d %s)" % (n, gl_tree(tree), k, kinds))
                oracle_idx.append(i)
        body.append("Eval vm_compute in %s." % gl_list(corr if corr else ["true"]))
        body.append("Eval vm_compute in %s." % gl_list(oracle if oracle else ["true"]))
        layout.append(dict(tag=tag, nvals=len(vals), ncorr=len(corr), oracle_idx=oracle_idx))
    return "\n".join(body) + "\n", layout


def eval_cases(name, triples, extra_validators=(), per_file=8, header=HEADER):
    """triples: list of (tag, CaseResult, token_inputs). Returns dict tag -> dict(vals, corr, oracle)"""
    files = []
    for k in range(0, len(triples), per_file):
        chunk = triples[k:k + per_file]
        body, layout = coq_job_for(chunk, extra_validators, header)
        files.append(("%s_%d" % (name, k // per_file), body, layout))
    outs = coq_eval_many([(f[0], f[1]) for f in files])
    res = {}
    for (fname, body, layout), (ok, out) in zip(files, outs):
        if not ok:
            for l in layout:
                res[l["tag"]] = dict(error=out[-2000:], file=fname)
            continue
        answers = parse_bools(out)
        if len(answers) != 3 * len(layout):
            for l in layout:
                res[l["tag"]] = dict(error="unexpected coq output: %d answers for %d cases\n%s" % (
                    len(answers), len(layout), out[-1500:]), file=fname)
            continue
        for j, l in enumerate(layout):
            vals, corr, orc = answers[3 * j], answers[3 * j + 1], answers[3 * j + 2]
            res[l["tag"]] = dict(vals=vals, corr=corr[:l["ncorr"]] if l["ncorr"] else [],
                                 oracle=dict(zip(l["oracle_idx"], orc)), file=fname)
    return res


def show_model_outcome(r, toks_one, partial):
    """For a replay: what does the model say (full term)."""
    d = r.dump
    body = HEADER + "Definition g := %s.\nDefinition T := %s.\nEval vm_compute in (parse_auto g T %s %s).\n" % (
        gl_grammar(d), gl_table(d), gl_bool(partial), gl_nats(letters_to_kinds(toks_one)))
    ok, out = coq_eval("replay_model", body)
    return " ".join(out.split())
