"""C05 — conflicts resolve by the documented priority / associativity / prefer-shift rules.

(T) Properties/C05.v (unbounded over priorities, flags, cells; all full statements): sr_cell_spec,
    sr_prod_keyword, sr_term_keyword, sr_cell_general, sr_three_way, rr_cell_impl, rr_cell_spec,
    shift_prio_is_max, resolve_subset, resolve_no_panic, resolve_panic_sites,
    resolve_no_panic_hypotheses_needed, state_no_panic.
(V) Proofs.Resolve.state_wf_b (hypothesis of state_no_panic) evaluated on every state of every real dump.
(C) correspondence: grammars with conflicts (hand-written corpus incl. the regression witnesses of the three
    repaired defects, structured random BNF and E: E op E families, with random priorities /
    associativities / nops / nopse on productions and associativities / priorities on terminals) are
    compiled by the REAL compiler through the verif hook under {LR, GLR} x {LALR, LALR_PAGER, LALR_RN} x
    prefer_shifts x prefer_shifts_over_empty; Model.Resolve.resolve_report (the Gallina mirror of
    calculate_reductions, state by state, cell by cell, plus max_prior_for_term) is evaluated by
    vm_compute on every real dump and must reproduce every cell. No compile may panic.
(O) the statement itself on the real code, judged by the documented decision table (not by the model):
    Model.ResolveCheck.doc_report compares every real two-candidate cell with Spec.ResolveSpec.decide /
    decide_rr; the keyword mapping (left = reduce, right = shift) is read off the dumped grammar; the
    number of conflicts the real get_conflicts reports equals the number of action pairs left in the
    dumped cells; for E: E op E families the real LR parser's tree of every operator string up to 9
    tokens is compared with the precedence / associativity reference tree (documented terminal-level
    associativity).

Repaired defects kept as regression cases (any reappearance is a plain violation under the old key):
  three-way-assert (a50fbd6), terminal-assoc-inverted (3487517), accept-conflict-unreachable (b2b5d41)."""
import ast
import itertools
import json
import random
import re

from rvlib import *  # noqa
import grammars as GR
from common import TRUSTED_BASE

LEVEL = "proof"

HEADER = ("From RV Require Import Model.Resolve Model.ResolveCheck Spec.ResolveSpec Proofs.Resolve.\n"
          "Open Scope nat_scope.\n")

ASSERT_MSG = "actions.len() == 1"
KW_ASSOC = {"left": "L", "reduce": "L", "right": "R", "shift": "R"}


# ------------------------------------------------------------------ grammars
def parse_meta(m):
    """meta string as written in the grammar text -> (prio or None, assoc 'N'/'L'/'R', nops, nopse)"""
    prio, assoc, nops, nopse = None, "N", False, False
    for it in [x.strip() for x in (m or "").split(",") if x.strip()]:
        if it.isdigit():
            prio = int(it)
        elif it in KW_ASSOC:
            assoc = KW_ASSOC[it]
        elif it == "nops":
            nops = True
        elif it == "nopse":
            nopse = True
    return prio, assoc, nops, nopse


def annotate_more(rng, g):
    """GR.annotate + terminal-level priorities (which must NOT influence S/R resolution) and
    combined terminal meta-data."""
    a = GR.annotate(rng, g)
    tmeta = dict(a.tmeta)
    for t in GR.TERMS[:g.nterms]:
        r = rng.random()
        if r < 0.12:
            tmeta[t] = str(rng.choice([5, 9, 11, 15, 20]))
        elif r < 0.22:
            tmeta[t] = "%s, %d" % (rng.choice(["left", "right", "shift", "reduce"]), rng.choice([5, 15, 20]))
    return GR.G(a.rules, a.nterms, a.meta, tmeta, a.shape)


def expr_variant(rng, nops=None):
    """E: E op E ... | num with priorities on productions and associativity on productions ('prod'),
    on the operator terminals ('term') or on both with the terminal one meant to win ('mixed')."""
    g = GR.expr_grammar(rng, nops)
    level = rng.choice(["prod", "prod", "term", "mixed"])
    g.level = level
    g.tassoc = {}
    g.passoc = {}
    g.prio = {}
    kw = {"left": ["left", "reduce"], "right": ["right", "shift"]}
    meta, tmeta = {}, {}
    for i, (o, (p, a)) in enumerate(sorted(g.ops.items())):
        g.prio[o] = p
        if level == "prod":
            g.passoc[o] = a
            meta[(0, i)] = "%d, %s" % (p, rng.choice(kw[a]))
        elif level == "term":
            g.tassoc[o] = a
            meta[(0, i)] = "%d" % p
            tmeta[o] = rng.choice(kw[a])
        else:
            other = "left" if a == "right" else "right"
            g.passoc[o] = other
            g.tassoc[o] = a
            meta[(0, i)] = "%d, %s" % (p, rng.choice(kw[other]))
            tmeta[o] = rng.choice(kw[a])
    g.meta, g.tmeta = meta, tmeta
    g.shape = "expr-" + level
    return g


class TextG:
    """hand-written grammar given as text (may use syntax sugar)"""

    def __init__(self, shape, text):
        self.shape, self._text = shape, text
        self.meta, self.tmeta, self.rules = None, None, None

    def text(self, inline=False):
        return self._text

    def key(self):
        return self._text


def corpus():
    C = []

    def add(shape, nterms, rules, meta=None, tmeta=None):
        C.append(GR.G(rules, nterms, meta, tmeta, shape))

    E2 = [("E", [["E", "a", "E"], ["E", "b", "E"], ["c"]])]
    add("expr-none", 3, E2)
    add("expr-prio-left", 3, E2, {(0, 0): "1, left", (0, 1): "2, left"})
    add("expr-prio-right", 3, E2, {(0, 0): "1, right", (0, 1): "2, shift"})
    add("expr-same-prio-mixed", 3, E2, {(0, 0): "3, left", (0, 1): "3, right"})
    add("expr-term-left", 3, E2, {(0, 0): "1", (0, 1): "2"}, {"a": "left", "b": "reduce"})
    add("expr-term-right", 3, E2, {(0, 0): "1", (0, 1): "2"}, {"a": "right", "b": "shift"})
    add("expr-term-overrides-prod", 3, E2, {(0, 0): "left", (0, 1): "right"}, {"a": "right", "b": "left"})
    add("expr-term-prio-ignored", 3, E2, {(0, 0): "1, left", (0, 1): "2, left"}, {"a": "20", "b": "5"})
    DE = [("S", [["a", "S"], ["a", "S", "b", "S"], ["c"]])]
    add("dangling-else", 3, DE)
    add("dangling-else-term-shift", 3, DE, None, {"b": "shift"})
    add("dangling-else-term-reduce", 3, DE, None, {"b": "reduce"})
    add("dangling-else-prod-right", 3, DE, {(0, 0): "right"})
    add("dangling-else-prod-nops", 3, DE, {(0, 0): "nops"})
    OPT = [("S", [["A", "B"]]), ("A", [["A", "a"], ["a"]]), ("B", [["a", "b"], []])]
    add("empty-vs-shift", 2, OPT)
    add("empty-vs-shift-nopse", 2, OPT, {(2, 1): "nopse"})
    add("empty-vs-shift-prio", 2, OPT, {(2, 1): "15"})
    RR = [("S", [["A", "a"], ["B", "a"], ["C", "a"]]), ("A", [["b"]]), ("B", [["b"]]), ("C", [[]])]
    add("rr-equal", 2, RR)
    add("rr-higher-second", 2, RR, {(2, 0): "15"})
    add("rr-lower-second", 2, RR, {(2, 0): "5"})
    RE = [("S", [["A", "a"], ["B", "a"], ["b", "a"]]), ("A", [[]]), ("B", [[]])]
    add("rr-empty-empty", 2, RE)
    RNE = [("S", [["c", "A", "a"], ["c", "B", "b", "a"], ["c", "b", "C", "a"]]), ("A", [["b"]]), ("B", [[]]), ("C", [[]])]
    add("rr-empty-nonempty", 3, RNE)
    ACC = [("S", [["S", "A"], ["a"]]), ("A", [[], ["b"]])]
    add("accept-vs-empty", 2, ACC)
    add("accept-vs-empty-nopse", 2, ACC, {(1, 0): "nopse"})
    add("accept-vs-empty-prio", 2, ACC, {(1, 0): "15"})
    add("accept-vs-empty-low", 2, ACC, {(1, 0): "5"})
    # DESIGN.md §9 F5 (repaired by a50fbd6) and a sugar-free relative that used to abort in LR mode as well
    C.append(TextG("f5-three-way", "S: E;\nE: E Tp E | X | Y;\nX: Ta Tp?;\nY: Ta {15};\nterminals\nTp: '+';\nTa: 'a';\n"))
    add("three-way-lr", 3, [("E", [["E", "b", "E"], ["X"], ["Y"]]), ("X", [["a"], ["a", "b", "c"]]), ("Y", [["a"]])],
        {(2, 0): "15"})
    add("three-way-b", 2, [("E", [["E", "a", "E"], ["X"], ["Y"]]), ("X", [["b", "O"]]), ("O", [["a"], []]),
                           ("Y", [["b"]])], {(3, 0): "15"})
    C.append(TextG("docs-if-then-else-shift",
                   "IfStatement: 'if' Condition 'then' Statements\n"
                   "           | 'if' Condition 'then' Statements 'else' Statements;\n"
                   "Statements: Statements Statement | Statement | EMPTY;\nStatement: IfStatement;\n\n"
                   "terminals\nIf: 'if' {shift};\nThen: 'then';\nElse: 'else' {shift};\nCondition: 'cond';\n"))
    C.append(TextG("tests-prio-assoc-term",
                   "E: E '+' E {1}\n | E '*' E {2}\n | Num;\n\nterminals\nPlus: '+' {left};\nMul: '*' {reduce};\n"
                   "Num: /\\d+/;\n"))
    C.append(TextG("zero-or-more-nops", "S: A* Tb;\nterminals\nA: 'a';\nTb: 'b';\n"))
    return C


SETTINGS = [(algo, table, ps, pse)
            for algo in ("LR", "GLR") for table in ("LALR", "LALR_PAGER", "LALR_RN")
            for ps in (0, 1) for pse in (0, 1)]


# corpus entries that are the witnesses of the three repaired defects
REGRESSION_SHAPES = ["f5-three-way", "three-way-lr", "three-way-b", "expr-term-left", "expr-term-right",
                     "expr-term-overrides-prod", "docs-if-then-else-shift", "tests-prio-assoc-term",
                     "accept-vs-empty"]


def make_cases(tier, seed):
    rng = random.Random(seed * 7919 + 5)
    quick = tier == "quick"
    gs = [(g, "corpus") for g in corpus()]
    nrand, nexpr_any = (80, 20) if quick else (900, 200)
    for _ in range(nrand):
        gs.append((annotate_more(rng, GR.random_grammar(rng)), "random"))
    for _ in range(nexpr_any):
        gs.append((annotate_more(rng, GR.expr_grammar(rng)), "expr-annot"))
    cases = []
    seen = set()
    for gi, (g, src) in enumerate(gs):
        nset = 4 if src == "corpus" else 3
        chosen = rng.sample(SETTINGS, nset if quick else min(2 * nset, len(SETTINGS)))
        if src == "corpus" and g.shape in REGRESSION_SHAPES:
            # the settings under which the repaired defects showed
            chosen = [("LR", "LALR_PAGER", 0, 0), ("GLR", "LALR_RN", 0, 0), ("LR", "LALR", 0, 1)] + chosen
        for (algo, table, ps, pse) in chosen:
            key = (g.key(), algo, table, ps, pse)
            if key in seen:
                continue
            seen.add(key)
            cases.append(Case("g%d_%s_%s_%d%d" % (gi, algo, table, ps, pse), g.text(), [], algo=algo, table=table,
                              run="NONE", flags=dict(ps=ps, pse=pse), meta=dict(shape=g.shape, src=src, g=g)))
    return cases


def make_expr_cases(tier, seed):
    rng = random.Random(seed * 7919 + 55)
    quick = tier == "quick"
    n = 30 if quick else 200
    cases = []
    for i in range(n):
        g = expr_variant(rng, nops=[1, 2, 2, 3, 3, 3][i % 6])
        ops = sorted(g.ops)
        maxops = 4 if (len(ops) <= 2 or not quick) else 3      # 9 tokens, or 7 with three operators in the quick tier
        words = []
        for k in range(0, maxops + 1):
            for comb in itertools.product(ops, repeat=k):
                w = [g.num]
                for o in comb:
                    w += [o, g.num]
                words.append(tuple(w))
        table = rng.choice(["LALR", "LALR_PAGER"])
        fl = dict(ps=rng.random() < 0.5, pse=rng.random() < 0.5)
        cases.append(Case("e%d_%s" % (i, g.level), g.text(inline=(i % 2 == 0)), [GR.render(w) for w in words],
                          algo="LR", table=table, run="LR", flags=fl,
                          meta=dict(shape=g.shape, src="expr", g=g, words=words)))
    return cases


# ------------------------------------------------------------------ Coq side
def cfg_of(case):
    return "mkRS %s %s %s" % (gl_bool(case.flags.get("ps", 0)), gl_bool(case.flags.get("pse", 1)),
                              gl_bool(case.algo == "GLR"))


def parse_answers(out):
    """every `= value : type` answer of the coqc output, as a Python value (nested lists of ints)"""
    answers, cur = [], None
    for line in out.split("\n"):
        if line.lstrip().startswith("= "):
            if cur is not None:
                answers.append(cur)
            cur = line.strip()[2:]
        elif cur is not None:
            if line.lstrip().startswith(": "):
                answers.append(cur)
                cur = None
            else:
                cur += " " + line.strip()
    if cur is not None:
        answers.append(cur)
    vals = []
    for a in answers:
        a = a.split(" : ")[0].strip()
        vals.append(ast.literal_eval(a.replace(";", ",").replace("true", "True").replace("false", "False")))
    return vals


def eval_dumps(name, items, per_file=16):
    """items: list of (tag, grammar_dump, table_dump, cfg string); four answers per item
    (resolve_report, doc_report, cand_report, state_wf_b on all states).
    Returns dict tag -> list of answers, or dict(error=...)."""
    files = []
    for k in range(0, len(items), per_file):
        chunk = items[k:k + per_file]
        body = [HEADER]
        for n, (tag, gd, td, cfg) in enumerate(chunk):
            body.append("Definition g%d := %s." % (n, gl_grammar(gd)))
            body.append("Definition T%d := %s." % (n, gl_table(td)))
            body.append("Eval vm_compute in (resolve_report g%d (%s) T%d)." % (n, cfg, n))
            body.append("Eval vm_compute in (doc_report g%d (%s) T%d)." % (n, cfg, n))
            body.append("Eval vm_compute in (cand_report g%d T%d)." % (n, n))
            body.append("Eval vm_compute in (forallb (state_wf_b g%d (t_rn T%d)) (t_states T%d))." % (n, n, n))
        files.append(("%s_%d" % (name, k // per_file), "\n".join(body) + "\n", chunk))
    outs = coq_eval_many([(f[0], f[1]) for f in files])
    res = {}
    for (fname, body, chunk), (ok, out) in zip(files, outs):
        want = 4 * len(chunk)
        vals = None
        if ok:
            try:
                vals = parse_answers(out)
            except Exception as e:  # unreadable output is an error of this machinery, reported as such
                vals = None
                out = "unparsable coq output: %r\n%s" % (e, out[-1500:])
        if vals is None or len(vals) != want:
            for c in chunk:
                res[c[0]] = dict(error=out[-2000:], file=fname)
            continue
        for i, c in enumerate(chunk):
            res[c[0]] = vals[4 * i:4 * i + 4]
    return res


# ------------------------------------------------------------------ keyword mapping (left = reduce, right = shift)
def keyword_mismatch(g, d):
    """compares the meta-data written in the grammar text with what the real front end produced"""
    if g.rules is None:
        return None
    pidx = 1
    for ri, (_, alts) in enumerate(g.rules):
        for ai, _ in enumerate(alts):
            prio, assoc, nops, nopse = parse_meta(g.meta.get((ri, ai)))
            p = d.prods[pidx]
            got = (p["prio"], p["assoc"], p["nops"], p["nopse"])
            exp = (10 if prio is None else prio, assoc, nops, nopse)
            if got != exp:
                return dict(production=pidx, written=g.meta.get((ri, ai)), expected=exp, dumped=got)
            pidx += 1
    for k, t in enumerate(GR.TERMS[:g.nterms]):
        prio, assoc, _, _ = parse_meta(g.tmeta.get(t))
        td = d.terms[k + 1]
        got = (td["prio"], td["assoc"])
        exp = (10 if prio is None else prio, assoc)
        if got != exp:
            return dict(terminal=t, written=g.tmeta.get(t), expected=exp, dumped=got)
    return None


# ------------------------------------------------------------------ operator reference tree
def ref_tree(tokens, g, documented=True):
    """tree prescribed by priority / associativity: an operator op1 on the stack against the operator
    op2 ahead: higher priority wins; equal: the associativity of op2's terminal if it has one,
    otherwise of op1's production; left = reduce, right = shift.
    documented=False gives the tree of the terminal-level associativity read the wrong way round
    (the defect repaired by 3487517), only used to name a regression."""
    def decision(op1, op2):
        p1, p2 = g.prio[op1], g.prio[op2]
        if p1 > p2:
            return "reduce"
        if p1 < p2:
            return "shift"
        ta = g.tassoc.get(op2)
        if ta is not None:
            if not documented:
                ta = "left" if ta == "right" else "right"
            a = ta
        else:
            a = g.passoc.get(op1)
        return "reduce" if a == "left" else "shift"

    vals, ops = ["n"], []

    def red():
        r, l, o = vals.pop(), vals.pop(), ops.pop()
        vals.append((o, l, r))

    for j in range(1, len(tokens), 2):
        while ops and decision(ops[-1], tokens[j]) == "reduce":
            red()
        ops.append(tokens[j])
        vals.append("n")
    while ops:
        red()
    return vals[0]


def real_shape(t):
    if t[0] == "T":
        return "n"
    ch = t[2]
    if len(ch) == 1:
        return real_shape(ch[0])
    if len(ch) == 3 and ch[1][0] == "T":
        return (GR.TERMS[ch[1][1] - 1], real_shape(ch[0]), real_shape(ch[2]))
    return ("?",) + tuple(real_shape(c) for c in ch)


def show(t):
    return "n" if t == "n" else "(%s %s %s)" % (show(t[1]), t[0], show(t[2])) if len(t) == 3 else str(t)


# ------------------------------------------------------------------ the check
def base_of(r):
    return dict(grammar=r.case.grammar, algo=r.case.algo, table=r.case.table, flags=r.case.flags)


def conflict_signature(d, cfgt, st, a, ncand):
    return (ncand, cfgt, tuple(sorted(x[0] for x in st["actions"].get(a, []))))


def run(rep, tier, seed):
    import time
    from math import comb
    t0 = time.time()
    cases = make_cases(tier, seed)
    ecases = make_expr_cases(tier, seed)
    results = run_cases(cases + ecases, "c05")
    rep.notes.append("timing: real compiler + LR parser runs %.1fs" % (time.time() - t0))
    ok_items, stats = [], dict(ok=0, grammar_error=0, table_error=0, panic=0, other=0)
    for r in results:
        if r.status == "OK" and r.dump is not None:
            stats["ok"] += 1
            ok_items.append((r.case.id, r.dump, r.dump, cfg_of(r.case)))
        elif r.status == "PANIC" and getattr(r, "stage", "") == "table":
            stats["panic"] += 1
            if ASSERT_MSG in r.msg:
                rep.violation("three-way-assert",
                              "calculate_reductions aborts the compiler: assert!(actions.len() == 1) (regression of "
                              "a50fbd6; Coq: resolve_no_panic / state_no_panic no longer describe the code)",
                              dict(base_of(r), message=r.msg))
            else:
                rep.violation("table-panic", "the table construction panicked", dict(base_of(r), message=r.msg))
        elif r.status == "ERROR" and getattr(r, "stage", "") == "grammar":
            stats["grammar_error"] += 1
        elif r.status == "ERROR":
            stats["table_error"] += 1
        else:
            stats["other"] += 1
            rep.notes.append("compiler %s on case %s (outside calculate_reductions): %s" % (
                r.status, r.case.id, r.msg[:120]))

    t1 = time.time()
    ev = eval_dumps("c05", ok_items)
    rep.notes.append("timing: coq evaluation of %d dumps %.1fs" % (len(ok_items), time.time() - t1))

    n_states = n_cells = n_conflict_cells = n_sr_doc = n_rr_doc = n_three = n_pairs = 0
    sigs = set()
    samples = []
    byid = {r.case.id: r for r in results}
    model_ok = 0
    regress_ok = {}
    for tag, gd, td, cfg in ok_items:
        r = byid[tag]
        e = ev.get(tag)
        base = base_of(r)
        if e is None or isinstance(e, dict):
            rep.violation("coq-eval", "Coq evaluation of the case failed", dict(base, err=(e or {}).get("error")),
                          found_input=False)
            continue
        report, doc, cand, wf = e
        d = r.dump
        good = True
        if not wf:
            good = False
            rep.violation("state-wf", "state_wf_b is false on a real dump (state_no_panic does not apply)",
                          dict(base, obligation="Proofs.Resolve.state_wf_b"), found_input=False)
        for si, code in enumerate(report):
            n_states += 1
            if code != 0:
                good = False
                what = {1: "real cells differ from the cells the model of calculate_reductions computes",
                        2: "real max_prior_for_term differs from the maximum over the items"}.get(
                    code, "the model panics (site %d) where the real compiler did not" % (code - 1000))
                rep.violation("corr-resolve" if code != 2 else "corr-maxprio", what,
                              dict(base, state=si, items=d.states[si]["items"], real_cells=d.states[si]["actions"],
                                   real_maxprio=d.states[si]["maxprio"], code=code,
                                   obligation="correspondence Model.Resolve.calc_reductions_state vs "
                                              "LRTable::calculate_reductions"))
                break
        if good:
            model_ok += 1
        # the statement itself, judged by the documented table
        for si, row in enumerate(doc):
            for a, code in enumerate(row):
                n_cells += 1
                nc = cand[si][a]
                if nc >= 2:
                    n_conflict_cells += 1
                    sigs.add(conflict_signature(d, (r.case.algo, r.case.flags.get("ps"), r.case.flags.get("pse")),
                                                d.states[si], a, nc))
                if nc >= 3:
                    n_three += 1
                if code in (1, 3):
                    n_sr_doc += 1
                if code in (5, 6):
                    n_rr_doc += 1
                if code == 3:
                    key = "terminal-assoc-inverted" if d.terms[a]["assoc"] != "N" else "sr-doc-mismatch"
                    rep.violation(key, "a shift/reduce conflict is not resolved as the documented rules prescribe",
                                  dict(base, state=si, terminal=a, terminal_name=d.terms[a]["name"],
                                       terminal_assoc=d.terms[a]["assoc"], items=d.states[si]["items"],
                                       real_cell=d.states[si]["actions"].get(a, []), maxprio=d.states[si]["maxprio"]))
                elif code == 6:
                    rep.violation("rr-doc-mismatch",
                                  "a reduce/reduce conflict is not resolved as the documented rules prescribe",
                                  dict(base, state=si, terminal=a, items=d.states[si]["items"],
                                       real_cell=d.states[si]["actions"].get(a, [])))
                elif code == 4:
                    rep.violation("coq-eval", "doc_cell_code: lookup failure on a real dump", dict(base, state=si, terminal=a),
                                  found_input=False)
        # unresolved conflicts must be REPORTED: get_conflicts lists every pair of actions left in a cell
        pairs = sum(comb(len(c), 2) for st in d.states for c in st["actions"].values())
        n_pairs += pairs
        if d.conflicts == "PANIC":
            rep.violation("accept-conflict-unreachable",
                          "an unresolved conflict is not reported: LRTable::get_conflicts panics (regression of b2b5d41)",
                          base)
        elif d.conflicts != pairs:
            rep.violation("conflicts-reported", "get_conflicts reports %s conflicts, the dumped cells hold %d pairs of "
                                                "actions" % (d.conflicts, pairs), base)
        g = r.case.meta.get("g")
        if g is not None:
            km = keyword_mismatch(g, d)
            if km:
                rep.violation("keyword-mapping", "meta-data keywords are not mapped as documented "
                                                 "(left = reduce, right = shift, nops, nopse, priority)", dict(base, **km))
        if r.case.meta.get("src") == "corpus" and r.case.meta["shape"] in REGRESSION_SHAPES:
            regress_ok[r.case.meta["shape"]] = regress_ok.get(r.case.meta["shape"], 0) + (1 if good else 0)
        if len(samples) < 5 and any(c >= 2 for row in cand for c in row) and \
                r.case.meta["shape"] not in [s["shape"] for s in samples]:
            samples.append(dict(shape=r.case.meta["shape"], grammar=r.case.grammar, algo=r.case.algo, table=r.case.table,
                                flags=r.case.flags, conflicts_left=d.conflicts,
                                cells=[(si, a, d.states[si]["actions"].get(a, [])) for si, row in enumerate(cand)
                                       for a, c in enumerate(row) if c >= 2][:6]))
    # the regression witnesses must have been compiled and reproduced
    for shape in REGRESSION_SHAPES:
        if not regress_ok.get(shape):
            rep.violation("regression-missing", "a regression witness of a repaired defect was not compiled and "
                                                "reproduced by the model", dict(shape=shape), found_input=False)

    # --- operator grammars: real LR parser tree against the precedence / associativity tree
    n_strings = n_trees_ok = n_expr = n_term_level = 0
    for r in results[len(cases):]:
        g = r.case.meta["g"]
        if r.status != "OK" or r.dump is None:
            rep.violation("expr-compile", "an annotated E: E op E grammar does not compile", dict(base_of(r), status=r.status,
                                                                                                message=r.msg))
            continue
        if r.dump.conflicts != 0:
            rep.violation("expr-conflicts", "an E: E op E grammar with priority and associativity on every operator "
                                            "still has conflicts", dict(base_of(r), conflicts=r.dump.conflicts))
            continue
        n_expr += 1
        if g.tassoc:
            n_term_level += 1
        for i, w in enumerate(r.case.meta["words"]):
            out = r.results.get(("LR", i), "")
            n_strings += 1
            if not out.startswith("OK"):
                rep.violation("expr-rejected", "the real LR parser rejects an operator string of an E: E op E grammar",
                              dict(base_of(r), input=GR.render(w), real=out[:300]))
                break
            real = real_shape(parse_sexp(out.split(" ", 1)[1]))
            doc = ref_tree(w, g, True)
            if real == doc:
                n_trees_ok += 1
                continue
            key = "terminal-assoc-inverted" if (g.tassoc and real == ref_tree(w, g, False)) else "expr-tree"
            rep.violation(key, "the real LR parser's tree is not the one priority and associativity prescribe",
                          dict(base_of(r), input=GR.render(w), real=show(real), expected=show(doc)))
            break

    pt = rep.theorems or {}
    nthm = len(pt.get("theorems", []))
    n_dumps = len(ok_items)
    rep.coverage = dict(
        obligations=nthm + n_dumps,
        discharged=(pt.get("closed", 0) if not rep.violations else 0) + model_ok,
        checker_cmd="make -C coq Properties/C05.vo ; coqc work/c05_*.v (vm_compute of resolve_report / doc_report / "
                    "state_wf_b on the printed real dumps)",
        trusted_base=TRUSTED_BASE, theorems=pt.get("theorems", []),
        programs=n_dumps, evaluations=n_conflict_cells + n_strings, distinct_nontrivial=len(sigs),
        rule="grammars: hand-written conflict corpus (incl. regression witnesses) + structured random BNF + E: E op E "
             "families, random priority / left / right / reduce / shift / nops / nopse on productions and associativity / "
             "priority on terminals; settings sampled from {LR,GLR} x {LALR,LALR_PAGER,LALR_RN} x prefer_shifts x "
             "prefer_shifts_over_empty; every state and cell of every real dump is recomputed by the model "
             "(evaluations counts the cells with >= 2 candidate actions plus the operator strings parsed by the real "
             "LR parser); non-trivial = distinct (number of candidates, algo/ps/pse, kinds of surviving actions) "
             "conflict classes",
        cases_generated=len(cases) + len(ecases), compile_outcomes=stats,
        dumps_reproduced_by_model=model_ok, regression_witnesses=regress_ok,
        states=n_states, cells=n_cells, conflict_cells=n_conflict_cells, three_way_cells=n_three,
        sr_cells_judged_by_decide=n_sr_doc, rr_cells_judged_by_decide_rr=n_rr_doc,
        conflict_pairs_reported_by_get_conflicts=n_pairs,
        expr_grammars=n_expr, expr_grammars_with_terminal_level_assoc=n_term_level,
        operator_strings=n_strings, operator_trees_as_documented=n_trees_ok, samples=samples)
    rep.assumptions = [
        "the states, items and lookaheads are taken from the real dump (their construction is C01/C04's subject); only "
        "the Shift target of a cell is read off the real final cell",
        "operator corollary: token-level, one-letter string terminals separated by single spaces; on equal priority with "
        "different associativities the production being reduced (the left operator) decides, as the rules say"]


def replay(rep, path):
    p = json.load(open(path))
    c = Case("replay", p["grammar"], [p["input"]] if p.get("input") is not None else [], algo=p.get("algo", "LR"),
             table=p.get("table", "LALR_PAGER"), run="LR" if p.get("input") is not None else "NONE",
             flags=p.get("flags", {}))
    r = run_cases([c], "c05replay", shards=1)[0]
    print("real   : compile %s %s %s" % (r.status, getattr(r, "stage", ""), r.msg[:200]))
    if p.get("input") is not None:
        print("real   : parse  ", r.results.get(("LR", 0)))
    if r.dump is not None and r.dump.states:
        ev = eval_dumps("c05replay", [("r", r.dump, r.dump, cfg_of(c))], per_file=1)
        e = ev.get("r")
        if not isinstance(e, dict):
            print("real   : conflicts reported by get_conflicts =", r.dump.conflicts)
            print("checker: state_wf_b on all states =", e[3])
            print("model  : resolve_report (0 = state reproduced)", e[0])
            print("oracle : doc_report (1/5 = as documented, 3/6 = differs)", e[1])
            if "state" in p:
                print("real cells of state %d: %s" % (p["state"], r.dump.states[p["state"]]["actions"]))
        else:
            print("model  : coq evaluation failed", e)
    rep.coverage = dict(obligations=1, discharged=1, checker_cmd="replay", trusted_base=[])
