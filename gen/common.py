"""Steps every check performs before its property-specific part (DESIGN.md §7):
hygiene of the Coq development, full build of the .vo files it depends on, Print Assumptions of
the property file, rebuild of the harness from /repo's working tree."""
import os
import re
import sys
import time

from rvlib import *  # noqa


def property_theorems(pid):
    """(number of Theorem statements, Print Assumptions outputs) of Properties/<pid>.v,
    obtained by recompiling that file so the output is from this run."""
    pf = os.path.join(COQDIR, "Properties", "%s.v" % pid)
    if not os.path.exists(pf):
        return None
    vo = pf[:-2] + ".vo"
    if os.path.exists(vo):
        os.remove(vo)
    ok, out = build_coq(["Properties/%s.vo" % pid])
    src = strip_comments(open(pf).read())
    thms = re.findall(r"^\s*(?:Theorem|Corollary)\s+(\w+)", src, re.M)
    closed = out.count("Closed under the global context")
    axioms = re.findall(r"Axioms:\s*\n((?:\S.*\n)+)", out)
    return dict(ok=ok, out=out, theorems=thms, closed=closed, axioms=axioms)


def run_property(mod, pid, tier, seed, replay):
    level = getattr(mod, "LEVEL", "proof")
    rep = Report(pid, level, tier, seed)
    rep.is_replay = bool(replay)
    # 1. hygiene
    bad = hygiene()
    if bad:
        rep.violation("hygiene", "forbidden construct in the Coq development", dict(hits=bad), found_input=False)
        rep.coverage = dict(obligations=1, discharged=0, checker_cmd="grep", trusted_base=[], explanation="hygiene failed",
                            evaluations=0, distinct_nontrivial=0)
        return rep.finish()
    # 2. proofs (full .vo build) and assumptions of the property file
    ok, out = build_coq()
    if not ok:
        rep.violation("coq-build", "the Coq development no longer builds", dict(log=out[-4000:]), found_input=False)
        rep.coverage = dict(obligations=1, discharged=0, checker_cmd="make -C coq", trusted_base=[],
                            explanation="coq build failed", evaluations=0, distinct_nontrivial=0)
        return rep.finish()
    pt = property_theorems(pid)
    rep.theorems = pt
    if pt is not None:
        if not pt["ok"]:
            rep.violation("coq-build", "Properties/%s.v no longer builds" % pid, dict(log=pt["out"][-4000:]), found_input=False)
        for ax in pt["axioms"]:
            names = [l.split(":")[0].strip() for l in ax.strip().split("\n") if l and not l.startswith(" ")]
            extra = [n for n in names if n not in ALLOWED_AXIOMS]
            if extra:
                rep.violation("axioms", "property theorem depends on axioms outside the allow-list",
                              dict(axioms=extra), found_input=False)
        if pt["closed"] + len(pt["axioms"]) < len(pt["theorems"]):
            rep.violation("assumptions", "Print Assumptions missing for some property theorem",
                          dict(theorems=pt["theorems"], closed=pt["closed"]), found_input=False)
    # 3. harness from the current working tree of /repo
    if getattr(mod, "NEEDS_HARNESS", True):
        ok, out = build_harness()
        if not ok:
            rep.violation("harness-build", "the harness no longer builds against /repo", dict(log=out[-4000:]),
                          found_input=False)
            rep.coverage = dict(obligations=1, discharged=0, checker_cmd="cargo build", trusted_base=[],
                                explanation="harness build failed", evaluations=0, distinct_nontrivial=0)
            return rep.finish()
    # 4. property-specific part
    if replay:
        mod.replay(rep, replay)
    else:
        mod.run(rep, tier, seed)
    return rep.finish()


TRUSTED_BASE = [
    "Coq 8.16.1 kernel (coqc, vm_compute; no native_compute)",
    "no axioms: every property theorem is 'Closed under the global context' (Print Assumptions, re-run each check)",
    "hook rustemo-compiler/src/table/verif.rs (serialises private table data), harness/src/main.rs "
    "(dynamic ParserDefinition + recognizers mirroring generator/base.rs:548-631)",
    "gen/*.py printers (dump -> Gallina term); a printing error shows up as a disagreement, not silence",
    "the Gallina model mirrors the Rust functions listed in DESIGN.md §5; the mirror is checked by "
    "correspondence on this run's cases only",
]
