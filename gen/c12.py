"""C12 — syntax errors point at the first offending token; sentences never error.

(T) Properties/C12.v: error_no_continuation, sentence_never_errors, expected_nonempty, error_index_in_range
    (token-level LR model over validated tables). The "no late detection" half is not proved; it is decided
    here on the real code against an exact Earley viable-prefix oracle.
(V) complete_b, sound_b, has_actions_b on the real tables of the in-scope grammars.
(C/O) real LRParser and real GlrParser on invalid inputs rendered with random whitespace / newlines /
    multi-byte spaces: reported byte offset == start of the first offending token (Earley), line/col consistent
    with the offset, expected list non-empty, and LR outcome == byte-level model outcome."""
import random

from rvlib import *  # noqa
import grammars as GR
import bytecommon as BC
import lrcommon as LC
from common import TRUSTED_BASE

LEVEL = "proof"
SALT = 12


# ------------------------------------------------------------------ Earley (viable prefixes)
class Earley:
    def __init__(self, g):
        self.rules = {}
        for name, alts in g.rules:
            self.rules.setdefault(name, []).extend([tuple(a) for a in alts])
        self.start = g.rules[0][0]
        # nullable
        self.nullable = set()
        ch = True
        while ch:
            ch = False
            for n, alts in self.rules.items():
                if n not in self.nullable and any(all(x in self.nullable for x in a) for a in alts):
                    self.nullable.add(n)
                    ch = True
        # productive
        prod = set()
        ch = True
        while ch:
            ch = False
            for n, alts in self.rules.items():
                if n not in prod and any(all((x in GR.TERMS) or (x in prod) for x in a) for a in alts):
                    prod.add(n)
                    ch = True
        self.productive = prod
        self.unproductive_any = any(n not in prod for n in self.rules)
        # reduce the grammar: alternatives mentioning an unproductive nonterminal derive nothing
        self.rules = {n: [a for a in alts if all((x in GR.TERMS) or (x in prod) for x in a)]
                      for n, alts in self.rules.items() if n in prod}
        self.empty_language = self.start not in prod

    def all_productive(self):
        return not self.unproductive_any

    def run(self, toks):
        """returns (k_star, is_sentence): k_star = length of the longest viable prefix of toks
        (exact when every nonterminal is productive)."""
        if self.empty_language:
            return 0, False
        S0 = "$S"
        sets = [set()]
        sets[0].add((S0, (self.start,), 0, 0))

        def close(i):
            work = list(sets[i])
            while work:
                (lhs, rhs, dot, org) = work.pop()
                if dot < len(rhs):
                    x = rhs[dot]
                    if x not in GR.TERMS:
                        for alt in self.rules.get(x, []):
                            it = (x, alt, 0, i)
                            if it not in sets[i]:
                                sets[i].add(it)
                                work.append(it)
                        if x in self.nullable:
                            it = (lhs, rhs, dot + 1, org)
                            if it not in sets[i]:
                                sets[i].add(it)
                                work.append(it)
                else:
                    for (l2, r2, d2, o2) in list(sets[org]):
                        if d2 < len(r2) and r2[d2] == lhs:
                            it = (l2, r2, d2 + 1, o2)
                            if it not in sets[i]:
                                sets[i].add(it)
                                work.append(it)
        close(0)
        k = 0
        for i, t in enumerate(toks):
            nxt = set()
            for (lhs, rhs, dot, org) in sets[i]:
                if dot < len(rhs) and rhs[dot] == t:
                    nxt.add((lhs, rhs, dot + 1, org))
            if not nxt:
                return i, False
            sets.append(nxt)
            close(i + 1)
            k = i + 1
        sent = any(l == S0 and d == 1 and o == 0 for (l, r, d, o) in sets[-1])
        return k, sent


def render_ws(tokens, rng):
    """tokens -> (text, token start offsets in bytes, end offset after trailing ws skip)"""
    parts, offs = [], []
    cur = 0
    WS = [" ", "  ", "\n", " \n ", "\t", " ", "\r\n", "　", "\n　", "\n\u00a0 ", "\u000b", " \n\u2003"]
    for i, t in enumerate(tokens):
        sep = "" if (i == 0 and rng.random() < 0.6) else rng.choice(WS)
        parts.append(sep)
        cur += len(sep.encode())
        offs.append(cur)
        parts.append(t)
        cur += len(t.encode())
    tail = rng.choice(["", "", " ", "\n", "  \n"])
    parts.append(tail)
    cur += len(tail.encode())
    return "".join(parts), offs, cur


def linecol(text, off):
    b = text.encode()[:off]
    line = 1 + b.count(b"\n")
    col = len(b) - (b.rfind(b"\n") + 1)
    return line, col


def run(rep, tier, seed):
    rng = random.Random(seed * 7919 + SALT)
    gs = [g for g in GR.corpus() if not g.meta and not g.tmeta]
    for _ in range(300 if tier == "quick" else 2500):
        gs.append(GR.random_grammar(rng))
    # the known unproductive-rule witness (F12)
    gs.append(GR.G([("S", [["a", "S"]])], 1, shape="known-unproductive"))
    # scope: conflict-free with no disambiguation (as C01), LALR_PAGER for LR; same grammar with LALR_RN for GLR
    probe = []
    uniq = set()
    for gi, g in enumerate(gs):
        if g.key() in uniq:
            continue
        uniq.add(g.key())
        tbl = rng.choice(["LALR", "LALR_PAGER"])
        probe.append(Case("p%d" % gi, g.text(), [], algo="GLR", table=tbl, run="NONE", flags=dict(ps=0, pse=0),
                          meta=dict(gi=gi, table=tbl)))
    pres = run_cases(probe, "c12probe")
    inscope = [r.case.meta["gi"] for r in pres
               if r.status == "OK" and r.dump is not None and r.dump.conflicts == 0 and not r.dump.missing_rec]
    table_of = {r.case.meta["gi"]: r.case.meta["table"] for r in pres}
    cases, info = [], []
    for gi in inscope:
        g = gs[gi]
        ea = Earley(g)
        valid, longer, invalid, _ = GR.inputs_for(g, rng, maxlen=5, nvalid=6, ninvalid=14)
        words = list(invalid) + list(valid)[:4]
        if g.shape == "known-unproductive":
            words = [("a", "a"), ("a",)]
        texts, meta = [], []
        for w in words:
            text, offs, end = render_ws(w, rng)
            k, sent = ea.run(w)
            texts.append(text)
            meta.append(dict(tokens=w, offs=offs, end=end, k=k, sent=sent))
        fl = dict(ps=0, pse=0, partial=0, skipws=1, match=1)
        cases.append(Case("l%d" % gi, g.text(), texts, algo="LR", table=table_of[gi], run="LR", flags=fl,
                          meta=dict(gi=gi, shape=g.shape, productive=ea.all_productive())))
        info.append(meta)
        cases.append(Case("g%d" % gi, g.text(), texts, algo="GLR", table="LALR_RN", run="GLR",
                          flags=dict(ps=0, pse=0, go=0, skipws=1, noforest=1),
                          meta=dict(gi=gi, shape=g.shape, productive=ea.all_productive())))
        info.append(meta)
    results = run_cases(cases, "c12")
    lr_items = []
    n_err = n_checked = n_sent = 0
    per_algo = {"LR": 0, "GLR": 0}
    samples = []
    for r, meta in zip(results, info):
        algo = r.case.run
        if r.status != "OK" or r.dump is None:
            rep.violation("compile", "in-scope grammar failed to compile", dict(grammar=r.case.grammar, status=r.status, msg=r.msg))
            continue
        if algo == "LR":
            lr_items.append((r.case.id, r, r.case.inputs))
        for i, m in enumerate(meta):
            out = r.results.get((algo, i), "")
            base = dict(grammar=r.case.grammar, table=r.case.table, algo=algo, input=r.case.inputs[i], tokens=" ".join(m["tokens"]),
                        real=out[:200])
            if m["sent"]:
                n_sent += 1
                if out.startswith("ERR"):
                    rep.violation("sentence-errors", "parsing a sentence returned an error", base)
                continue
            if not out.startswith("ERR E"):
                if out.startswith("OK") or out.startswith("FOREST"):
                    rep.violation("non-sentence-accepted", "a non-sentence was accepted", base)
                continue
            n_err += 1
            f = out.split(" ")
            pos, line, col = int(f[2]), int(f[3]), int(f[4])
            exp = f[6]
            k = m["k"]
            want = m["offs"][k] if k < len(m["offs"]) else m["end"]
            wl, wc = linecol(r.case.inputs[i], pos)
            key = None
            if not r.case.meta["productive"]:
                if pos != want:
                    key = "unproductive-grammar-accepted"
            elif pos != want:
                key = "error-position-%s" % ("late" if pos > want else "early")
            if key:
                rep.violation(key, "error position is not the start of the first offending token "
                              "(expected byte %d, reported %d)" % (want, pos), dict(base, expected_offset=want, k=k))
                continue
            if (line, col) != (wl, wc):
                rep.violation("linecol", "line/column inconsistent with the byte offset", dict(base, want=(wl, wc)))
                continue
            if exp == "-":
                rep.violation("expected-empty", "empty list of expected tokens", base)
                continue
            n_checked += 1
            per_algo[algo] += 1
            if len(samples) < 4 and k > 0 and algo not in [s["algo"] for s in samples]:
                samples.append(dict(algo=algo, grammar=r.case.grammar, input=r.case.inputs[i], k=k, real=out))
    # validators + byte-level correspondence on the LR side
    triples = [(tag, r, [m["tokens"] for m in meta]) for (tag, r, _), meta in
               zip(lr_items, [mm for rr, mm in zip(results, info) if rr.case.run == "LR" and rr.status == "OK" and rr.dump is not None])]
    vj = []
    for k0 in range(0, len(lr_items), 8):
        chunk = lr_items[k0:k0 + 8]
        body = [BC.BHEADER]
        for n, (tag, r, _) in enumerate(chunk):
            body.append("Definition g%d := %s.\nDefinition T%d := %s." % (n, gl_grammar(r.dump), n, gl_table(r.dump)))
            body.append("Eval vm_compute in [wf_grammar_b g%d; sound_b g%d T%d; complete_b g%d T%d; has_actions_b T%d; viable_b g%d T%d]." % (n, n, n, n, n, n, n, n))
        vj.append(("c12v_%d" % (k0 // 8), "\n".join(body) + "\n", [c[0] for c in chunk]))
    vouts = coq_eval_many([(j[0], j[1]) for j in vj])
    nval = 0
    byid = {tag: r for tag, r, _ in lr_items}
    for (name, body, tags), (ok, out) in zip(vj, vouts):
        ans = parse_bools(out) if ok else []
        for j, tag in enumerate(tags):
            v = ans[j] if j < len(ans) else None
            r = byid[tag]
            if v is None:
                rep.violation("coq-eval", "Coq evaluation failed", dict(grammar=r.case.grammar, out=out[-800:]), found_input=False)
            elif not all(v):
                rep.violation("validator", "wf/sound/complete/has_actions/viable false on the real table of an in-scope grammar",
                              dict(grammar=r.case.grammar, table=r.case.table, vals=v,
                                   obligation="hypotheses of Properties.C12.error_is_first_offender"), found_input=False)
            else:
                nval += 1
    # the hypotheses of glr_positions_exact on the REAL LALR_RN table of every GLR case
    glr_items = [r for r in results if r.case.run == "GLR" and r.status == "OK" and r.dump is not None]
    gj = []
    for k0 in range(0, len(glr_items), 8):
        chunk = glr_items[k0:k0 + 8]
        body = ["From RV Require Import Spec.Validators Spec.ValidatorsRN.\nOpen Scope nat_scope.\n"]
        for r in chunk:
            body.append("Eval vm_compute in let g := %s in let T := %s in [wf_grammar_b g; sound_rn_b g T; complete_rn_b g T; "
                        "viable_b g T]." % (gl_grammar(r.dump), gl_table(r.dump)))
        gj.append(("c12g_%d" % (k0 // 8), "\n".join(body) + "\n", chunk))
    nval_glr = 0
    for (name, body, chunk), (ok, out) in zip(gj, coq_eval_many([(j[0], j[1]) for j in gj])):
        ans = parse_bools(out) if ok else []
        for j, r in enumerate(chunk):
            v = ans[j] if j < len(ans) else None
            if v is None:
                rep.violation("coq-eval", "Coq evaluation failed", dict(grammar=r.case.grammar, out=out[-800:]), found_input=False)
            elif not all(v):
                rep.violation("validator-glr", "wf/sound_rn/complete_rn/viable false on the real LALR_RN table of an in-scope grammar",
                              dict(grammar=r.case.grammar, table=r.case.table, algo="GLR", vals=v,
                                   obligation="hypotheses of Properties.C12.glr_positions_exact"), found_input=False)
            else:
                nval_glr += 1
    ev = BC.byte_jobs("c12", lr_items)
    for tag, r, texts in lr_items:
        e = ev.get(tag, {})
        for i, b in (e.get("corr") or {}).items():
            if not b:
                rep.violation("corr-bytes", "real LRParser and the byte-level Gallina model disagree",
                              dict(grammar=r.case.grammar, table=r.case.table, flags=r.case.flags, input=texts[i],
                                   real=r.results.get(("LR", i)), model=BC.show_model(r, texts[i], r.matches[i]),
                                   obligation="correspondence Model.LRBytes.bparse vs rustemo::LRParser"), found_input=False)
                break
    pt = rep.theorems or {}
    nthm = len(pt.get("theorems", []))
    rep.coverage = dict(
        obligations=nthm + nval + nval_glr, discharged=(pt.get("closed", 0) if not rep.violations else 0) + nval + nval_glr,
        glr_tables_validated=nval_glr,
        checker_cmd="make -C coq Properties/C12.vo ; coqc work/c12v_*.v",
        trusted_base=TRUSTED_BASE + ["Earley viable-prefix oracle (gen/c12.py, Python) for the 'no late detection' half"],
        theorems=pt.get("theorems", []), programs=len(lr_items), evaluations=n_err + n_sent, distinct_nontrivial=n_checked,
        rule="conflict-free grammars (C01 scope) x mutated non-sentences and sentences rendered with random "
             "whitespace/newlines/multi-byte spaces, real LRParser (LALR / LALR_PAGER) and real GlrParser (LALR_RN); "
             "non-trivial = error outcomes whose byte offset, line/col and expected list were checked against the oracle",
        in_scope=len(inscope), errors_checked=per_algo, sentences=n_sent, tables_validated=nval, samples=samples)
    rep.assumptions = ["lexically unambiguous one-letter terminals (the 'first token' is well defined)",
                       "viable-prefix half decided by the Earley oracle, exact when all nonterminals are productive"]


def replay(rep, path):
    import json
    p = json.load(open(path))
    algo = p.get("algo", "LR")
    c = Case("replay", p["grammar"], [p.get("input", "")], algo=algo, table=p.get("table", "LALR_PAGER"), run=algo,
             flags=dict(ps=0, pse=0, go=0 if algo == "GLR" else 1, noforest=1))
    r = run_cases([c], "c12replay", shards=1)[0]
    print("real   :", r.results.get((algo, 0)))
    print("oracle : expected offset", p.get("expected_offset"), "k =", p.get("k"))
    rep.coverage = dict(obligations=1, discharged=1, checker_cmd="replay", trusted_base=[])
