"""Hand-written grammars for the generator-level properties (C18 regeneration, C17 determinism).
Every grammar is accepted by the real compiler with default settings (LR, LALR_PAGER). The shapes
cover every arm of `nonterminal_types` / `nonterminal_actions` in generator/actions/production.rs:
enum, enum with choice structs, struct, optional (alias over ...NoO), Ref, Vec, recursive (Box),
plain choices, named assignments, production kinds, regex-like sugar helpers, Layout.

Entries: name -> (grammar text, tags).  Tags:
  'gendup'   the generator itself emits one name twice (F8 / snake-case clash)
  'evo:<n>'  <n> is a later version of the same grammar (grammar evolution inside one history)
"""

GRAMMARS = {}


def _g(name, text, *tags):
    GRAMMARS[name] = (text.lstrip("\n"), tags)


# enum with one choice struct (DESIGN.md F10)
_g("enumstruct", """
S: A | B A | C;
terminals
A: /a/;
B: /b+/;
C: /c+/;
""")

# enum with two choice structs and a Ref choice
_g("twostructs", """
S: Num Id | Id Num | Num;
terminals
Num: /\\d+/;
Id: /[a-z]+/;
""")

# production kinds, named assignments, associativity/priorities; recursive fields (Box)
_g("calc", """
E: left=E '+' right=E {Add, 1, left}
 | left=E '-' right=E {Sub, 1, left}
 | left=E '*' right=E {Mul, 2, left}
 | left=E '/' right=E {Div, 2, left}
 | '(' E ')' {Paren}
 | Number;
terminals
Number: /\\d+(\\.\\d+)?/;
Plus: '+';
Minus: '-';
Mul: '*';
Div: '/';
OP: '(';
CP: ')';
""")

# Vec pattern with EMPTY
_g("vec", """
@vec
A: A Num | Num | EMPTY;
terminals
Num: /\\d+/;
""")

# optional Ref
_g("optref", """
A: B | EMPTY;
B: Num;
terminals
Num: /\\d+/;
""")

# optional struct: struct SNoO + alias S = Option<SNoO>
_g("optstruct", """
S: Num Id | EMPTY;
terminals
Num: /\\d+/;
Id: /[a-z]+/;
""")

# optional enum with a choice struct: struct SC1, alias S, enum SNoO
_g("optenum", """
S: Num Id | Id | EMPTY;
terminals
Num: /\\d+/;
Id: /[a-z]+/;
""")

# regex-like sugar: helper nonterminals BOpt, Num1, Id0, Id1
_g("sugar", """
A: 'c' B? Ta? Num+ Id*[Comma] Tb;
B: Num;
terminals
Ta: 'a';
Tb: 'b';
Tc: 'c';
Comma: ',';
Num: /\\d+/;
Id: /[a-z]+/;
""")

_g("json", """
Value: False | True | Null | Object | Array | JsonNumber | JsonString;
Object: "{" Member*[Comma] "}";
Member: JsonString ":" Value;
Array: "[" Value*[Comma] "]";
terminals
False: 'false';
True: 'true';
Null: 'null';
Comma: ',';
JsonNumber: /-?\\d+(\\.\\d+)?(e|E[-+]?\\d+)?/;
JsonString: /"((\\\\")|[^"])*"/;
OBracket: '[';
CBracket: ']';
OBrace: '{';
CBrace: '}';
Colon: ':';
""")

# mutual recursion through a list
_g("recursive", """
L: '(' Items ')';
Items: Items Item | Item;
Item: Id | L;
terminals
Id: /[a-z]+/;
OP: '(';
CP: ')';
""")

# struct with named fields and an optional field
_g("named", """
S: a=Num b=Id c=Num? d?=Semi;
terminals
Num: /\\d+/;
Id: /[a-z]+/;
Semi: ';';
""")

# plain choices only (no content) and a struct nonterminal
_g("plain", """
S: Kind Id;
Kind: 'x' | 'y' | 'z' 'q';
terminals
X: 'x';
Y: 'y';
Z: 'z';
Q: 'q';
Id: /[a-z]+/;
""")

# Layout rule, unreachable rule, unreachable terminal
_g("layout", """
S: Digit TwoDigits Digit+;
TwoDigits: Digit Digit;
Unused: Word Digit;
Layout: LayoutItem+;
LayoutItem: Word | WS;
terminals
Digit: /\\d/;
Word: /[a-zA-Z]+/;
WS: /\\s+/;
Never: /!+/;
""")

# struct named by the production kind
_g("kinds", """
S: Num Id {Pair} | Id {Single} | Num Num Num {Triple};
terminals
Num: /\\d+/;
Id: /[a-z]+/;
""")

# a terminal named like one of the header aliases (Token)
_g("tokenname", """
S: Token Id;
terminals
Token: /t+/;
Id: /[a-z]+/;
""")

# the generator emits s_x1 twice (DESIGN.md F8)
_g("dupkinds", """
S: A {X} | B {X} | C {X1};
terminals
A: /a/;
B: /b+/;
C: /c+/;
""", "gendup")

# two terminals with one snake-case name: `ab` is emitted twice
_g("snakeclash", """
S: Ab AB | AB;
terminals
Ab: /a/;
AB: /b+/;
""", "gendup")

# grammar evolution: a production is added to an existing rule / a new rule appears
_g("evo1", """
S: Num | Id;
terminals
Num: /\\d+/;
Id: /[a-z]+/;
""", "evo:evo2")

_g("evo2", """
S: Num | Id | Num Id T;
T: Id Id;
terminals
Num: /\\d+/;
Id: /[a-z]+/;
""")

_g("evo3", """
Doc: Line+;
Line: Id Eq Num;
terminals
Id: /[a-z]+/;
Num: /\\d+/;
Eq: '=';
""", "evo:evo4")

_g("evo4", """
Doc: Line+;
Line: Id Eq Val;
Val: Num | Str | Id;
terminals
Id: /[a-z]+/;
Num: /\\d+/;
Str: /'[^']*'/;
Eq: '=';
""")

# lower-case names: a terminal's type and its action function get the SAME name (`pub type num`, `pub fn num`), likewise
# single-word rules; the two name spaces (types, functions) of the regeneration must stay separate
_g("lowercase", """
list: list item | item;
item: num | word;
terminals
num: /\\d+/;
word: /[a-z]+/;
""")


def names():
    return list(GRAMMARS.keys())


def text(name):
    return GRAMMARS[name][0]


def tags(name):
    return GRAMMARS[name][1]


def evolution(name):
    for t in GRAMMARS[name][1]:
        if t.startswith("evo:"):
            return t[4:]
    return None
