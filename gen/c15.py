"""C15 — parsing is total: any input and lexer give Ok or Err, never a panic or hang.

(T) Properties/C15.v: lr_no_panic (token-level LR model, every table passing safe_b, every input, every fuel,
    partial on/off: no Panic outcome).
(V) safe_b and reduce_acyclic_b evaluated (vm_compute) on the REAL table of every generated grammar.
(C/O) the real LRParser (default lexer and custom lexers that ignore the expected set) and the real GlrParser on
    arbitrary byte strings (valid UTF-8: control characters, 1-4 byte scalars, empty, repeats) under
    catch_unwind and a watchdog: every outcome must be Ok or Err; LR outcomes also equal the byte-level model's.
    A hang on a table that fails reduce_acyclic_b is the known class `lr-reduce-cycle`; on any other table it
    is a new violation. Runtime behaviour the model cannot exhibit (stack overflow, memory) is only observed."""
import random

from rvlib import *  # noqa
import grammars as GR
import bytecommon as BC
import lrcommon as LC
from common import TRUSTED_BASE

LEVEL = "proof"
SALT = 15


# lexemes of a little more than 50 bytes (Token's Debug abbreviates values above 50 bytes), multi-byte where the
# recognizer admits it, made of characters the short string terminals of the pool do not match (a GLR parser with
# lexical ambiguity over single letters would otherwise face dozens of tokens on a wildly ambiguous grammar)
LONG_LEXEMES = {r"[α-ω]+": "αβγ" * 10, r'"[^"]*"': '"' + "é" * 27 + '"', r"[A-Z]\w*": "X" + "é" * 27 + "a",
                r"[a-z]+": "zq" * 28}


def garbage_inputs(rng, n):
    out = ["", " ", "\n", "\x00", "𝄞", "é" * 7, "a" * 14, "((((((((", "\t\t\n\n", "a b", "﻿a"]
    while len(out) < n:
        out.append(BC.garbage(rng))
    return out[:n]


def run(rep, tier, seed):
    rng = random.Random(seed * 7919 + SALT)
    # ---- part 1: byte-level grammars, default lexer, LR + GLR, garbage + rendered inputs
    cases, texts_all, bgl = BC.make_byte_cases(tier, seed, SALT, n_random=50 if tier == "quick" else 400)
    for c, texts in zip(cases, texts_all):
        extra = garbage_inputs(rng, 14)
        c.inputs.extend(extra)
        texts.extend((t, "garbage", None) for t in extra)
    # a fixed witness of the known reduction-cycle hang (kept so that the finding is re-derived every run)
    hang_g = GR.G([("S", [["A"]]), ("A", [["A", "B"], ["a"]]), ("B", [[], ["b"]])], 2, meta={(2, 0): "15"},
                  shape="known-reduce-cycle")
    cases.append(Case("hang0", hang_g.text(), ["a", "a b"], algo="LR", table="LALR_PAGER", run="LR",
                      flags=dict(ps=0, pse=1, ms=1, lm=1, go=1, partial=0, skipws=1, match=1), meta=dict(shape=hang_g.shape, bi=-1)))
    texts_all.append([("a", "valid", None), ("a b", "valid", None)])
    glr_cases = []
    for ci, c in enumerate(cases):
        # long tokens of multi-byte characters (lexemes of more than 50 bytes): one per regex terminal that admits them
        longs = []
        if ci < len(bgl):
            for t, (kind, txt, _, _) in bgl[ci].lex.items():
                if kind == "R" and txt in LONG_LEXEMES:
                    longs.append(LONG_LEXEMES[txt])
        # seq=1: the harness also parses the whole list with ONE GlrParser instance (RESULT GLRS)
        glr_cases.append(Case(c.id + "_glr", c.grammar, [t for t in c.inputs if len(t) <= 32] + longs[:4], algo="GLR",
                              table="LALR_RN", run="GLR",
                              flags=dict(ps=0, pse=0, ms=c.flags["ms"], lm=c.flags["lm"], go=rng.random() < 0.5,
                                         partial=0, skipws=c.flags["skipws"], noforest=1, seq=1), meta=c.meta))
    # ---- part 2: custom lexers that ignore the expected set (token-level grammars, one-letter terminals)
    cust_cases = []
    tg = [g for g in GR.corpus() if not g.meta][:14]
    for _ in range(16 if tier == "quick" else 120):
        tg.append(GR.random_grammar(rng))
    for i, g in enumerate(tg):
        valid, longer, invalid, _ = GR.inputs_for(g, rng, maxlen=4, nvalid=8, ninvalid=8)
        words = [GR.render(w) for w in list(valid) + list(invalid)] + ["a a a", "b", ""]
        for mode in ("all", "foreign"):
            cust_cases.append(Case("cl%d_%s" % (i, mode), g.text(), words, algo="LR", table="LALR_PAGER", run="LR",
                                   flags=dict(ps=0, pse=1), lexer=mode, meta=dict(shape=g.shape, mode=mode)))
    results = run_cases(cases, "c15")
    gresults = run_cases(glr_cases, "c15g")
    cresults = run_cases(cust_cases, "c15c")

    # ---- validators on every accepted LR table
    items = []
    for r, texts in zip(results, texts_all):
        if r.status == "OK" and r.dump is not None and r.dump.conflicts == 0 and not r.dump.missing_rec and not r.recerror:
            items.append((r.case.id, r, [t[0] for t in texts]))
    vjobs = []
    for k in range(0, len(items), 8):
        chunk = items[k:k + 8]
        body = [BC.BHEADER]
        for n, (tag, r, _) in enumerate(chunk):
            body.append("Definition g%d := %s.\nDefinition T%d := %s." % (n, gl_grammar(r.dump), n, gl_table(r.dump)))
            body.append("Eval vm_compute in [wf_grammar_b g%d; safe_b g%d T%d; reduce_acyclic_b g%d T%d]." % (n, n, n, n, n))
        vjobs.append(("c15v_%d" % (k // 8), "\n".join(body) + "\n", [c[0] for c in chunk]))
    vouts = coq_eval_many([(j[0], j[1]) for j in vjobs])
    vals = {}
    for (name, body, tags), (ok, out) in zip(vjobs, vouts):
        ans = parse_bools(out) if ok else []
        for j, tag in enumerate(tags):
            vals[tag] = ans[j] if j < len(ans) else None
    ev = BC.byte_jobs("c15", items)
    # the hypothesis of nlr_no_panic on the REAL LALR_RN table of every GLR case
    gl_ok = [r for r in gresults if r.status == "OK" and r.dump is not None and not r.dump.missing_rec]
    gjobs = []
    for k in range(0, len(gl_ok), 8):
        chunk = gl_ok[k:k + 8]
        body = ["From RV Require Import Spec.Validators Spec.ValidatorsRN.\nOpen Scope nat_scope.\n"]
        for r in chunk:
            body.append("Eval vm_compute in let g := %s in [wf_grammar_b g; safe_rn_b g (%s)]." % (gl_grammar(r.dump), gl_table(r.dump)))
        gjobs.append(("c15gv_%d" % (k // 8), "\n".join(body) + "\n", chunk))
    n_glr_tables = 0
    for (name, body, chunk), (ok, out) in zip(gjobs, coq_eval_many([(j[0], j[1]) for j in gjobs])):
        ans = parse_bools(out) if ok else []
        for j, r in enumerate(chunk):
            v = ans[j] if j < len(ans) else None
            if v is None:
                rep.violation("coq-eval", "Coq evaluation of safe_rn_b failed", dict(grammar=r.case.grammar, out=out[-800:]),
                              found_input=False)
            elif not all(v):
                rep.violation("safe_rn_b", "safe_rn_b is false on the real LALR_RN table (nlr_no_panic no longer applies)",
                              dict(grammar=r.case.grammar, table="LALR_RN", algo="GLR", flags=r.case.flags, vals=v,
                                   obligation="Spec.ValidatorsRN.safe_rn_b / Properties.C15.nlr_no_panic"), found_input=False)
            else:
                n_glr_tables += 1

    n_runs = n_nontrivial = n_glr_seq = 0
    acyclic_false = 0
    outcome_kinds = {}
    samples = []

    def classify(kind, r, text, out, algo, acyclic):
        """kind in PANIC/TIMEOUT/CRASH"""
        base = dict(grammar=r.case.grammar, table=r.case.table, flags=r.case.flags, algo=algo, lexer=r.case.lexer,
                    input=text, real=out[:300])
        if kind == "PANIC":
            msg = unhx(out.split(" ")[1]).decode(errors="replace") if len(out.split(" ")) > 1 else ""
            base["panic"] = msg
            if r.case.lexer != "default" and "index out of bounds: the len is 0" in msg:
                rep.violation("custom-lexer-unexpected-kind-index-panic",
                              "LR parser panics (actions(..)[0] on an empty cell) when a custom lexer returns a token "
                              "kind the state does not expect", base)
            else:
                import re as _re
                norm = _re.sub(r"`.*$", "`_`", msg.split("\n")[0], flags=_re.S)      # drop the quoted input text
                norm = _re.sub(r"'[^']*'", "'_'", _re.sub(r"[0-9]+", "N", norm))[:80].replace(" ", "_")
                rep.violation("panic:" + norm, "parser panicked", base)
        else:
            if algo == "LR" and acyclic is False:
                rep.violation("lr-reduce-cycle", "accepted grammar whose LR parser never returns (reduction cycle; "
                              "the table fails reduce_acyclic_b)", base)
                return
            # slow or hanging? re-run this single input with a 40 s limit
            c1 = Case("slow", r.case.grammar, [text], algo=r.case.algo, table=r.case.table, run=algo, flags=r.case.flags,
                      lexer=r.case.lexer)
            r1 = run_cases([c1], "c15slow", shards=1, timeout_s=40)[0]
            o1 = r1.results.get((algo, 0), "")
            if o1 and o1.split(" ")[0] not in ("TIMEOUT", "CRASH", "PANIC"):
                rep.notes.append("slow but terminating (%s, >3s <40s): %r on %r" % (algo, text[:30], r.case.grammar[:80]))
                return
            rep.violation("hang-" + algo.lower(), "parser did not return within the watchdog limit", base)

    for tag, r, texts in items:
        v = vals.get(tag)
        base = dict(grammar=r.case.grammar, table=r.case.table, flags=r.case.flags)
        if v is None or len(v) < 3:
            rep.violation("coq-eval", "Coq evaluation of the validators failed", base, found_input=False)
            continue
        if not v[2]:
            acyclic_false += 1
        if not (v[0] and v[1]):
            # table not provably panic-free: search = the runs below; if none panics, report the lost obligation
            if not any(r.results.get(("LR", i), "").startswith("PANIC") for i in range(len(texts))):
                rep.violation("safe_b", "safe_b is false on the real table (lr_no_panic no longer applies)",
                              dict(base, obligation="Spec.Validators.safe_b / Properties.C15.lr_no_panic"), found_input=False)
        e = ev.get(tag, {})
        for i, text in enumerate(texts):
            out = r.results.get(("LR", i))
            if out is None:
                continue
            n_runs += 1
            k = out.split(" ")[0]
            outcome_kinds[k] = outcome_kinds.get(k, 0) + 1
            if k in ("PANIC", "TIMEOUT", "CRASH"):
                classify(k, r, text, out, "LR", v[2])
            else:
                n_nontrivial += 1
                if "corr" in e and e["corr"].get(i) is False:
                    rep.violation("corr-bytes", "real LRParser and the byte-level Gallina model disagree",
                                  dict(base, input=text, real=out, model=BC.show_model(r, text, r.matches[i]),
                                       obligation="correspondence Model.LRBytes.bparse vs rustemo::LRParser"),
                                  found_input=False)
    for r in gresults:
        if r.status != "OK" or r.dump is None or r.recerror:
            continue
        for i, text in enumerate(r.case.inputs):
            out = r.results.get(("GLR", i))
            if out is None:
                continue
            n_runs += 1
            k = out.split(" ")[0]
            outcome_kinds["GLR-" + k] = outcome_kinds.get("GLR-" + k, 0) + 1
            if k in ("PANIC", "TIMEOUT", "CRASH"):
                classify(k, r, text, out, "GLR", None)
            else:
                n_nontrivial += 1
        # ONE GlrParser instance over the whole list must return for every input what a fresh parser returns
        fresh = [str(r.results.get(("GLR", i), "")).split(" ")[0] for i in range(len(r.case.inputs))]
        if all(f in ("FOREST", "ERR") for f in fresh):
            for i, text in enumerate(r.case.inputs):
                o = r.results.get(("GLRS", i))
                if o is None:
                    continue
                n_glr_seq += 1
                ko = o.split(" ")[0]
                if ko == "PANIC":
                    rep.violation("glr-reused-parser-panics", "a GlrParser instance that parsed other inputs before panics",
                                  dict(grammar=r.case.grammar, algo="GLR", table="LALR_RN", flags=r.case.flags, input=text,
                                       sequence=r.case.inputs[:i + 1],
                                       panic=unhx(o.split(" ")[1]).decode(errors="replace") if len(o.split(" ")) > 1 else ""))
                    break
                if (ko == "OK") != (fresh[i] == "FOREST"):
                    rep.violation("glr-reused-parser-differs", "a GlrParser instance that parsed other inputs before answers "
                                  "differently from a fresh parser",
                                  dict(grammar=r.case.grammar, algo="GLR", table="LALR_RN", flags=r.case.flags, input=text,
                                       sequence=r.case.inputs[:i + 1], fresh=r.results.get(("GLR", i)), reused=o))
                    break
    # custom lexers: real outcome == run_lex with the Gallina mirror of the harness lexer
    cjobs = []
    cust_items = [r for r in cresults if r.status == "OK" and r.dump is not None and r.dump.conflicts == 0]
    for k in range(0, len(cust_items), 6):
        chunk = cust_items[k:k + 6]
        body = [LC.HEADER]
        for n, r in enumerate(chunk):
            body.append("Definition g%d := %s.\nDefinition T%d := %s." % (n, gl_grammar(r.dump), n, gl_table(r.dump)))
            lexterm = "lex_all" if r.case.lexer == "all" else "(lex_foreign g%d T%d)" % (n, n)
            terms = []
            for i, text in enumerate(r.case.inputs):
                out = r.results.get(("LR", i))
                if out is None or out.split(" ")[0] in ("TIMEOUT", "CRASH"):
                    terms.append("true")
                    continue
                term, _, _ = LC.real_to_model(out)
                ks = LC.letters_to_kinds(tuple(text.split()))
                if any(k >= r.dump.nterm for k in ks):
                    # a word that is no terminal of this grammar: the harness lexer has no kind to return for it,
                    # the model lexers are defined on token kinds of the grammar only
                    terms.append("true")
                    continue
                kinds = gl_nats(ks)
                terms.append("outcome_eqb (run_lex_auto g%d T%d %s %s) (%s)" % (n, n, lexterm, kinds, term))
            body.append("Eval vm_compute in %s." % gl_list(terms if terms else ["true"]))
        cjobs.append(("c15cl_%d" % (k // 6), "\n".join(body) + "\n", chunk))
    couts = coq_eval_many([(j[0], j[1]) for j in cjobs])
    n_custom_corr = 0
    for (name, body, chunk), (ok, out) in zip(cjobs, couts):
        ans = parse_bools(out) if ok else []
        for j, r in enumerate(chunk):
            if j >= len(ans):
                rep.violation("coq-eval", "Coq evaluation of the custom-lexer case failed",
                              dict(grammar=r.case.grammar, out=out[-800:]), found_input=False)
                continue
            for i, b in enumerate(ans[j]):
                n_custom_corr += 1
                if not b:
                    rep.violation("corr-custom-lexer", "real LRParser with a custom lexer and the Gallina model run_lex disagree",
                                  dict(grammar=r.case.grammar, lexer=r.case.lexer, input=r.case.inputs[i],
                                       real=r.results.get(("LR", i)),
                                       obligation="correspondence Model.LR.run_lex vs rustemo::LRParser with harness/src/custom.rs"),
                                  found_input=False)
                    break
    n_custom = 0
    for r in cresults:
        if r.status != "OK" or r.dump is None or r.dump.conflicts != 0:
            continue
        for i, text in enumerate(r.case.inputs):
            out = r.results.get(("LR", i))
            if out is None:
                continue
            n_runs += 1
            n_custom += 1
            k = out.split(" ")[0]
            outcome_kinds["custom-" + k] = outcome_kinds.get("custom-" + k, 0) + 1
            if k in ("PANIC", "TIMEOUT", "CRASH"):
                classify(k, r, text, out, "LR", None)
            else:
                n_nontrivial += 1
        if len(samples) < 3:
            samples.append(dict(lexer=r.case.lexer, grammar=r.case.grammar, input=r.case.inputs[0],
                                real=r.results.get(("LR", 0), "")[:200]))
    pt = rep.theorems or {}
    nthm = len(pt.get("theorems", []))
    nval = len([t for t in vals.values() if t])
    rep.coverage = dict(
        obligations=nthm + nval, discharged=(pt.get("closed", 0) if not rep.violations else 0) + nval,
        checker_cmd="make -C coq Properties/C15.vo ; coqc work/c15v_*.v (vm_compute of safe_b, reduce_acyclic_b)",
        trusted_base=TRUSTED_BASE, theorems=pt.get("theorems", []),
        programs=len(items), evaluations=n_runs, distinct_nontrivial=n_nontrivial, glr_tables_passing_safe_rn_b=n_glr_tables, glr_reused_parser_results_compared=n_glr_seq,
        rule="byte-level grammars (string/regex terminals, Layout rules) x rendered sentences/non-sentences + garbage "
             "UTF-8 strings (control characters, multi-byte scalars, empty, long repeats) through the real LRParser and "
             "GlrParser under catch_unwind + watchdog; custom lexers `all` (context-free: tries every terminal) and "
             "`foreign` (always an unexpected kind) on token-level grammars; non-trivial = runs that returned Ok/Err",
        outcome_kinds=outcome_kinds, tables_validated=nval, tables_failing_reduce_acyclic=acyclic_false,
        custom_lexer_runs=n_custom, custom_lexer_runs_equal_to_model=n_custom_corr, samples=samples,
        partial="termination is proved for the token-level model in full-parse mode under reduce_acyclic_b (evaluated per "
                "table); partial parsing, custom lexers and GLR are observed by the watchdog; stack overflow / memory "
                "exhaustion cannot be exhibited by the model")
    rep.assumptions = ["watchdog limit 3 s per input stands for 'bounded time'",
                       "lr_no_panic is proved for the token-level model with the default lexer; the byte-level slicing "
                       "and the custom-lexer clause are decided by correspondence and real runs"]


def replay(rep, path):
    import json
    p = json.load(open(path))
    algo = p.get("algo", "LR")
    c = Case("replay", p["grammar"], [p.get("input", "")], algo=algo if algo == "GLR" else "LR",
             table=p.get("table", "LALR_PAGER"), run=algo, flags=p.get("flags", {}), lexer=p.get("lexer", "default"))
    r = run_cases([c], "c15replay", shards=1)[0]
    print("real   :", r.results.get((algo, 0)))
    rep.coverage = dict(obligations=1, discharged=1, checker_cmd="replay", trusted_base=[])
