// C11 program (appended to gen/batch_prelude.rs): every generated parser module is included and
// *used* — the parser is constructed with its lexer / builder type parameters and `parse` is
// called — so that rustc type-checks the generated generics against the runtime crate. For the
// Custom lexer / builder a trivial user implementation is supplied (what the user has to write).
use rustemo::Parser;

macro_rules! custom_lexer_mod {
    ($p:ident, $lexmod:ident, LR) => {
        pub mod $lexmod {
            use super::$p::{State, TokenKind};
            use rustemo::{Context, LRContext, Lexer, SourceSpan, Token};
            pub type Input = str;
            pub type Ctx<'i> = LRContext<'i, Input, State, TokenKind>;
            pub struct UserLexer;
            impl<'i> Lexer<'i, Ctx<'i>, State, TokenKind> for UserLexer {
                type Input = Input;
                fn next_tokens(
                    &self,
                    context: &mut Ctx<'i>,
                    input: &'i Self::Input,
                    _token_kinds: Vec<(TokenKind, bool)>,
                ) -> Box<dyn Iterator<Item = Token<'i, Self::Input, TokenKind>> + 'i> {
                    let pos = context.position();
                    Box::new(std::iter::once(Token {
                        kind: TokenKind::default(),
                        value: &input[0..0],
                        span: SourceSpan { start: pos, end: pos },
                    }))
                }
            }
        }
    };
    ($p:ident, $lexmod:ident, GLR) => {
        pub mod $lexmod {
            use super::$p::{State, TokenKind};
            use rustemo::{Context, GssHead, Lexer, SourceSpan, Token};
            pub type Input = str;
            pub type Ctx<'i> = GssHead<'i, Input, State, TokenKind>;
            pub struct UserLexer;
            impl<'i> Lexer<'i, Ctx<'i>, State, TokenKind> for UserLexer {
                type Input = Input;
                fn next_tokens(
                    &self,
                    context: &mut Ctx<'i>,
                    input: &'i Self::Input,
                    _token_kinds: Vec<(TokenKind, bool)>,
                ) -> Box<dyn Iterator<Item = Token<'i, Self::Input, TokenKind>> + 'i> {
                    let pos = context.position();
                    Box::new(std::iter::once(Token {
                        kind: TokenKind::default(),
                        value: &input[0..0],
                        span: SourceSpan { start: pos, end: pos },
                    }))
                }
            }
        }
    };
}

macro_rules! custom_builder_mod {
    ($p:ident, $bmod:ident, $algo:ident) => {
        pub mod $bmod {
            use super::$p::{Context, Input, ProdKind, State, TokenKind};
            use rustemo::{Builder, LRBuilder, Token};
            pub struct UserBuilder(pub usize);
            impl Builder for UserBuilder {
                type Output = usize;
                fn get_result(&mut self) -> Self::Output {
                    self.0
                }
            }
            impl<'i> LRBuilder<'i, Input, Context<'i, Input>, State, ProdKind, TokenKind> for UserBuilder {
                fn shift_action(&mut self, _context: &Context<'i, Input>, _token: Token<'i, Input, TokenKind>) {
                    self.0 += 1;
                }
                fn reduce_action(&mut self, _context: &Context<'i, Input>, _prod: ProdKind, _prod_len: usize) {
                    self.0 += 1;
                }
            }
        }
    };
}

macro_rules! per_parser {
    ($run:ident, $name:expr, $m:ident, $p:ident, $pa:ident, $pl:ident, $pb:ident, $Parser:ident, $Def:ident,
     $algo:ident, $builder:ident, $lexer:ident,
     states [$($st:ident),*], tokens [$($tk:ident),*], nonterms [$($nk:ident),*], prods [$($pk:ident),*]) => {
        pub fn $run(out: &mut String) {
            writeln!(out, "PARSER {}", $name).unwrap();
            let r = catch_unwind(AssertUnwindSafe(|| {
                per_parser!(@use $builder $lexer, $m, $p, $pl, $pb, $Parser)
            }));
            writeln!(out, "USED {}", match r { Ok(s) => s, Err(e) => format!("PANIC {}", panic_msg(e)) }).unwrap();
            writeln!(out, "ENDPARSER").unwrap();
        }
    };
    (@use custom custom, $m:ident, $p:ident, $pl:ident, $pb:ident, $Parser:ident) => {
        per_parser!(@fin $m::$p::$Parser::new($m::$pl::UserLexer, $m::$pb::UserBuilder(0)).parse(""))
    };
    (@use custom default, $m:ident, $p:ident, $pl:ident, $pb:ident, $Parser:ident) => {
        per_parser!(@fin $m::$p::$Parser::new($m::$pb::UserBuilder(0)).parse(""))
    };
    (@use $b:ident custom, $m:ident, $p:ident, $pl:ident, $pb:ident, $Parser:ident) => {
        per_parser!(@fin $m::$p::$Parser::new($m::$pl::UserLexer).parse(""))
    };
    (@use $b:ident default, $m:ident, $p:ident, $pl:ident, $pb:ident, $Parser:ident) => {
        per_parser!(@fin $m::$p::$Parser::new().parse(""))
    };
    (@fin $e:expr) => {
        match $e { Ok(_) => "ok".to_string(), Err(_) => "err".to_string() }
    };
}

include!(concat!(env!("OUT_DIR"), "/all.rs"));

fn main() {
    batch_main(run_all);
}
