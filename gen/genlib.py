"""Driving the real generator through harness/src/bin/rvgen.rs (C18, C17)."""
import os
import shutil
import subprocess

from rvlib import TARGET, WORK, unhx

RVGEN = os.path.join(TARGET, "debug", "rvgen")


def clean_env():
    """Environment of a plain command line run: Settings::default() reads OUT_DIR and
    CARGO_MANIFEST_DIR (settings.rs:119-123)."""
    e = dict(os.environ)
    for k in ("OUT_DIR", "CARGO_MANIFEST_DIR", "RUSTEMO_TRACE", "RVGEN_ACTIONS"):
        e.pop(k, None)
    return e


class Item:
    """hash: token stream after one round trip through prettyplease (what a regeneration can at best
    preserve, since the whole file is re-printed); raw: token stream as written; drift: '=' equal,
    ',' only commas differ (trailing comma normalisation), '!' other tokens differ, '?' not re-parsable"""
    __slots__ = ("idx", "kind", "name", "hash", "raw", "drift", "text")

    def __init__(self, idx, kind, name, raw, h, drift, text):
        self.idx, self.kind, self.name, self.hash, self.raw, self.drift, self.text = idx, kind, name, h, raw, drift, text

    def key(self):
        """what the property compares: kind, name and the token stream"""
        return (self.mkind(), self.name if self.mkind() != "Other" else "-", self.hash)

    def mkind(self):
        return self.kind if self.kind in ("Enum", "Struct", "Type", "Fn") else "Other"

    def ns(self):
        k = self.mkind()
        if k in ("Enum", "Struct", "Type"):
            return "T"
        if k == "Fn":
            return "F"
        return None

    def nsname(self):
        n = self.ns()
        return None if n is None else (n, self.name)

    def __repr__(self):
        return "%s %s %s" % (self.kind, self.name, self.hash[:8])


class Listing:
    """state: 'ABSENT' | 'UNPARSABLE' | 'OK'; items (file-level attributes first, if any)"""

    def __init__(self):
        self.state = None
        self.msg = ""
        self.items = []

    def keys(self):
        return [i.key() for i in self.items]


class GenRun:
    def __init__(self):
        self.settings = None
        self.settings_panic = None
        self.before = None
        self.after = None
        self.result = None
        self.msg = ""
        self.results = []
        self.info = []
        self.raw = ""
        self.rc = None


def parse_rvgen(out):
    r = GenRun()
    r.raw = out
    cur = None
    for line in out.split("\n"):
        if not line.startswith("@"):
            continue
        w = line[1:].split(" ")
        k = w[0]
        if k == "SETTINGS":
            r.settings = unhx(w[1]).decode(errors="replace")
        elif k == "SETTINGSPANIC":
            r.settings_panic = unhx(w[1]).decode(errors="replace")
        elif k in ("BEFORE", "AFTER", "ITEMS"):
            cur = Listing()
            if w[1] == "ABSENT":
                cur.state = "ABSENT"
            elif w[1] == "UNPARSABLE":
                cur.state = "UNPARSABLE"
                cur.msg = unhx(w[2]).decode(errors="replace") if len(w) > 2 else ""
            else:
                cur.state = "OK"
            if k == "BEFORE":
                r.before = cur
            else:
                r.after = cur
        elif k == "ITEM":
            cur.items.append(Item(int(w[1]), w[2], w[3], w[4], w[5], w[6], unhx(w[7]).decode(errors="replace")))
        elif k == "RESULT":
            r.result = w[1]
            r.msg = unhx(w[2]).decode(errors="replace") if len(w) > 2 else ""
            r.results.append((r.result, r.msg))
        elif k in ("OK", "ERROR", "PANIC", "TERM", "NONTERM", "PROD", "SPECIAL"):
            r.info.append(w)
    return r


def rvgen(args, timeout=60, cwd=None):
    p = subprocess.run([RVGEN] + list(args), stdout=subprocess.PIPE, stderr=subprocess.STDOUT, text=True,
                       errors="replace", env=clean_env(), timeout=timeout, cwd=cwd)
    r = parse_rvgen(p.stdout)
    r.rc = p.returncode
    return r


def fresh_dir(*parts):
    d = os.path.join(WORK, *parts)
    if os.path.isdir(d):
        shutil.rmtree(d)
    os.makedirs(d)
    return d


class GrammarInfo:
    """terminals / nonterminals of the real grammar as the hook dumps them"""

    def __init__(self, info):
        self.status = None
        self.terms, self.nonterms = [], []
        self.special = None
        for w in info:
            if w[0] in ("OK", "ERROR", "PANIC") and self.status is None:
                self.status = w[0]
            elif w[0] == "TERM":
                self.terms.append(dict(idx=int(w[1]), name=w[2], has_content=w[7] == "1", reachable=w[8] == "1"))
            elif w[0] == "NONTERM":
                self.nonterms.append(dict(idx=int(w[1]), name=w[2], reachable=w[3] == "1", nprods=len(w) - 4))
            elif w[0] == "SPECIAL":
                self.special = [int(x) for x in w[1:6]]

    def gen_terminals(self):
        """mod.rs:148  terminals.iter().filter(|t| t.has_content && t.reachable.get())"""
        return [t for t in self.terms if t["has_content"] and t["reachable"]]

    def gen_nonterminals(self):
        """mod.rs:169-171  grammar.nonterminals() (not EMPTY / AUG / AUGL) that are reachable"""
        nterm = len(self.terms)
        empty, _stop, aug, augl, _start = self.special
        skip = {empty, aug}
        if augl >= 0:
            skip.add(augl)
        return [n for n in self.nonterms if (nterm + n["idx"]) not in skip and n["reachable"]]
