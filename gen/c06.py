"""C06 — lexical ambiguity is resolved in the documented order of strategies.

(T) Properties/C06.v (all unbounded over terminal lists, priorities, match functions, flags):
    sort_stable_spec / sort_unique / sort_flags_spec  (sort_terminals is the stable sort by the key + finish flags),
    lexer_lr_spec / lexer_glr_spec  (sort_terminals o TokenIterator o parser filter = documented `select`; full since
    the repair of finding priority-group-finish-flag, whose witness is kept as regression example and corpus case),
    strlen_range_refuted (minor finding: sort key overflow for string recognizers >= 1000 bytes / empty).
(V) sorted_ok_b: the REAL dumped LRState.sorted_terminals of every state of every generated grammar (x most_specific
    on/off x LR/GLR tables) equals Model/SortTerms.v's result (vm_compute, exact list equality).
(C/O) for random terminal sets (string/regex mixes, shared prefixes, equal lengths, 1-3 priority levels) x inputs x
    flag combinations x {LR, GLR}: at the offset of every token the REAL parser shifted, with the MEASURED match
    lengths of the real recognizers, Coq computes (vm_compute) what `select` prescribes for the expected terminals of
    the lexing state and what the model (token_iter on the dumped sorted list + lr_pick / glr_pick) yields; both are
    compared with kind+length of the real token (LR) / with the set of first tokens of the real forest (GLR).
    A real token differing from `select`: inside known_class_b -> finding `priority-group-finish-flag`; with
    range_ok_b false -> finding `strlen-sort-key-range`; otherwise a fresh violation. Model differing from real ->
    correspondence failure."""
import json
import os
import random

from rvlib import *  # noqa
import bytecommon as BC
from common import TRUSTED_BASE

LEVEL = "proof"
SALT = 6

KEY_F1 = "priority-group-finish-flag"
KEY_RANGE = "strlen-sort-key-range"

# --------------------------------------------------------------------- terminal pools
# (kind, text as written in the grammar, sample lexemes). No recognizer matches the empty string
# (a zero-length token makes the LR loop spin; that is C15's business).
STRS = ["a", "ab", "abc", "abcd", "b", "ba", "bc", "c", "if", "iff", "i", "in", "int", "=", "==", "=>", "+", "++",
        "+=", "x", "xy", "zz", "1", "12"]
POOL_S = [("S", s, [s]) for s in STRS]
POOL_R = [("R", r"a+", ["a", "aa"]), ("R", r"ab*", ["a", "abb"]), ("R", r"[a-c]+", ["abc", "cab", "b"]),
          ("R", r"abc?", ["ab", "abc"]), ("R", r"(ab)+", ["ab", "abab"]), ("R", r"[a-z]+", ["if", "iffy", "x", "int"]),
          ("R", r"i[a-z]*", ["i", "if", "int"]), ("R", r"\d+", ["1", "12", "7"]), ("R", r"\d+\.\d+", ["1.2", "12.5"]),
          ("R", r"[=+]+", ["=", "+=", "=+="]), ("R", r"ab", ["ab"]), ("R", r"abc", ["abc"]), ("R", r"zz", ["zz"]),
          ("R", r"a", ["a"]), ("R", r"b+", ["b", "bb"]), ("R", r"[ab]+c", ["abc", "bc"]), ("R", r"x*y", ["y", "xxy"]),
          ("R", r"=+", ["=", "=="]), ("R", r"\+\+?", ["+", "++"]), ("R", r"[a-z][a-z0-9]*", ["a1", "if", "x12"]),
          ("R", r"in?t?", ["i", "in", "int"]), ("R", r"ab|abc", ["ab"]), ("R", r"a[a-z]", ["ab", "ax"])]
FRAGS = ["a", "b", "c", "ab", "abc", "abcd", "if", "iff", "i", "n", "t", "int", "=", "==", "+", "++", "1", "12", ".",
         "x", "y", "zz", "ba", "bc", " ", "  ", "\n"]
PRIOS = [None, 5, 15, 20]


class LG:
    """A lexical test grammar: terminals [(kind, text, samples, prio)], a shape deciding the syntax around them."""

    def __init__(self, terms, shape, split=None):
        self.terms, self.shape, self.split = terms, shape, split

    def text(self):
        n = len(self.terms)
        names = ["T%d" % (i + 1) for i in range(n)]
        if self.shape == "flat-right":
            rules = ["S: X S | X;", "X: %s;" % " | ".join(names)]
        elif self.shape == "flat-left":
            rules = ["S: S X | X;", "X: %s;" % " | ".join(names)]
        elif self.shape == "two-ctx":
            k = self.split
            rules = ["S: P Q S | P Q;", "P: %s;" % " | ".join(names[:k[0]]), "Q: %s;" % " | ".join(names[k[1]:])]
        else:  # single
            rules = ["S: %s;" % " | ".join(names)]
        out = rules + ["terminals"]
        for nm, (kind, txt, _, prio) in zip(names, self.terms):
            rec = ("'%s'" % txt) if kind == "S" else "/%s/" % txt
            out.append("%s: %s%s;" % (nm, rec, (" {%d}" % prio) if prio is not None else ""))
        return "\n".join(out) + "\n"


def random_terms(rng, n):
    terms, used = [], set()
    levels = rng.choice([1, 2, 2, 3, 3])
    prios = rng.sample(PRIOS, levels)
    while len(terms) < n:
        pool = POOL_S if rng.random() < 0.45 else POOL_R
        k, t, s = rng.choice(pool)
        if (k, t) in used:
            continue
        used.add((k, t))
        terms.append((k, t, s, rng.choice(prios)))
    return terms


def corpus_lg():
    C = []
    # DESIGN.md §9 F1: last terminal of the top group does not match, lower priority longer match
    f1 = [("R", "ab", ["ab"], 15), ("R", "zz", ["zz"], 15), ("R", "abc", ["abc"], None)]
    C.append((LG(f1, "flat-right"), ["abc", "ab", "zz", "abcab zz", "ababc"], "f1"))
    C.append((LG(f1, "single"), ["abc", "ab", "zz", " abc"], "f1"))
    # keyword vs identifier, most specific vs longest regex
    kw = [("S", "if", ["if"], None), ("S", "iff", ["iff"], None), ("R", "[a-z]+", ["x"], None)]
    C.append((LG(kw, "flat-right"), ["if iff iffy x", "iffif", "ifx iff"], "kw"))
    C.append((LG(kw, "single"), ["if", "iff", "iffy", "i"], "kw"))
    # equal-length ties between regexes and between a string and a regex
    tie = [("R", "a[a-z]", ["ab"], None), ("R", "ab", ["ab"], None), ("S", "ab", ["ab"], None), ("R", "abc?", ["ab"], None)]
    C.append((LG(tie, "flat-left"), ["ab", "abab", "abc ab", "ax"], "tie"))
    C.append((LG(tie, "single"), ["ab", "abc", "ax"], "tie"))
    # high priority regex vs low priority longer string; three levels
    p3 = [("S", "abcd", ["abcd"], 5), ("R", "ab", ["ab"], 20), ("R", "abc", ["abc"], None), ("S", "a", ["a"], 20),
          ("R", "[a-d]+", ["dcba"], 5)]
    C.append((LG(p3, "flat-right"), ["abcd", "abc", "a abcd ab", "dcba", "aab"], "p3"))
    C.append((LG(p3, "single"), ["abcd", "abc", "a", "dcba"], "p3"))
    # a string recognizer of 150 bytes (sort key = prio*1000 + length must not use a smaller factor)
    long = "ab" * 75
    lg = [("S", long, [long], None), ("R", "(ab)+", ["ab"], 11), ("S", "ab", ["ab"], None)]
    C.append((LG(lg, "flat-right"), [long, "ab", long + " ab"], "long150"))
    return C


def corpus_range():
    """witnesses of finding strlen-sort-key-range (the sort key prio*1000 + strlen)"""
    big = "x" * 1000
    C = []
    C.append((LG([("S", big, [big], None), ("R", "x+", ["x"], 11)], "single"), [big], "strlen1000"))
    C.append((LG([("R", "a", ["a"], None), ("S", "", [""], None)], "single"), ["a"], "strlen0"))
    return C


def random_inputs(rng, lg, n):
    out = []
    samples = [s for t in lg.terms for s in t[2]]
    for _ in range(n):
        k = rng.randint(1, 5)
        parts = []
        for _ in range(k):
            parts.append(rng.choice(samples) if rng.random() < 0.75 else rng.choice(FRAGS))
            if rng.random() < 0.35:
                parts.append(rng.choice([" ", " ", "\n", "  "]))
        out.append("".join(parts))
    return out


def make_cases(tier, seed):
    rng = random.Random(seed * 7919 + SALT)
    n_sets = 36 if tier == "quick" else 300
    n_inputs = 10 if tier == "quick" else 24
    cases = []

    def add(lg, inputs, tag, family):
        txt = lg.text()
        if lg.shape == "single":
            # GLR: every flag combination; also LR on the same grammar (single token, partial parse)
            for ms in (0, 1):
                for lm in (0, 1):
                    for go in (0, 1):
                        cases.append(Case("%s_G%d%d%d" % (tag, ms, lm, go), txt, inputs, algo="GLR", run="GLR",
                                          flags=dict(ms=ms, lm=lm, go=go, partial=1, match=1),
                                          meta=dict(family=family, shape=lg.shape, mode="GLR")))
        else:
            for ms in (0, 1):
                for lm in (0, 1):
                    cases.append(Case("%s_L%d%d" % (tag, ms, lm), txt, inputs, algo="LR", run="LR",
                                      flags=dict(ms=ms, lm=lm, go=1, match=1),
                                      meta=dict(family=family, shape=lg.shape, mode="LR")))

    for i, (lg, inputs, fam) in enumerate(corpus_lg()):
        add(lg, inputs, "c%d" % i, fam)
    for i, (lg, inputs, fam) in enumerate(corpus_range()):
        add(lg, inputs, "r%d" % i, fam)
    for i in range(n_sets):
        n = rng.randint(2, 6)
        terms = random_terms(rng, n)
        shape = rng.choice(["flat-right", "flat-left", "single", "single", "two-ctx"])
        split = None
        if shape == "two-ctx":
            if n < 3:
                shape = "flat-right"
            else:
                a = rng.randint(1, n - 1)
                b = rng.randint(max(0, a - 1), a)      # Q starts at b <= a: possibly one shared terminal
                split = (a, b)
        lg = LG(terms, shape, split)
        add(lg, random_inputs(rng, lg, n_inputs), "s%d" % i, "random")
    return cases


# --------------------------------------------------------------------- reading real results
def lex_states(d, kinds):
    """States in which the tokens of a successful LR parse were (last) lexed: replays the dumped table on the
    kinds of the leaves. None if the replay does not reach Accept."""
    stack, out, i = [0], [], 0
    toks = list(kinds) + [0]
    for _ in range(20 * len(toks) + 50):
        acts = d.states[stack[-1]]["actions"].get(toks[i], [])
        if not acts:
            return None
        a = acts[0]
        if a[0] == "S":
            out.append(stack[-1])
            stack.append(a[1])
            i += 1
            if i >= len(toks):
                return None
        elif a[0] == "R":
            if a[2]:
                del stack[-a[2]:]
            if not stack:
                return None
            g = d.states[stack[-1]]["gotos"].get(d.prods[a[1]]["lhs"] - d.nterm)
            if g is None:
                return None
            stack.append(g)
        else:
            return out if i == len(toks) - 1 else None
    return None


def state_terms(d, s):
    ts = sorted(t for (t, _) in d.states[s]["sorted"])
    out = []
    for t in ts:
        tm = d.terms[t]
        sl = "Some %d" % len(tm["rec"].encode()) if tm["kind"] == "S" else "None"
        out.append("(%d, mkTerm %d ANone (%s))" % (t, tm["prio"], sl))
    return gl_list(out)


def state_sorted(d, s):
    return gl_list(["(%d, %s)" % (t, gl_bool(f)) for (t, f) in d.states[s]["sorted"]])


def gl_ml(m, off):
    ws, dd = m.get(off, (0, {}))
    return gl_list(["(%d, %d)" % (t, dd[t][0]) for t in sorted(dd)])


def events_of(r):
    """[(input index, state, offset, real)] with real = (kind, len) for LR, sorted list of (kind, len) for GLR."""
    d = r.dump
    evs, skipped = [], 0
    mode = r.case.meta["mode"]
    for i, text in enumerate(r.case.inputs):
        out = r.results.get((mode, i))
        m = r.matches.get(i)
        if out is None or m is None or not BC.match_ok(m):
            skipped += 1
            continue
        if mode == "LR":
            if not out.startswith("OK "):
                continue
            leaves = tree_leaves(parse_sexp(out.split(" ", 1)[1]))
            sts = lex_states(d, [l[1] for l in leaves])
            if sts is None or len(sts) != len(leaves):
                skipped += 1
                continue
            for l, s in zip(leaves, sts):
                evs.append((i, s, l[3][0], (l[1], len(l[6]))))
        else:
            ws = m.get(0, (0, {}))[0]
            if out.startswith("FOREST "):
                parts = out.split(" | ")
                toks = []
                for p in parts[1:]:
                    p = p.split(" || ")[0]
                    ls = tree_leaves(parse_sexp(p))
                    if len(ls) != 1 or ls[0][3][0] != ws:
                        toks = None
                        break
                    toks.append((ls[0][1], len(ls[0][6])))
                if toks is None:
                    skipped += 1
                    continue
                evs.append((i, 0, ws, sorted(toks)))
            elif out.startswith("ERR E"):
                evs.append((i, 0, ws, []))
            else:
                skipped += 1
    return evs, skipped


HEADER = """From RV Require Import Model.SortTerms Spec.LexSpec.
Open Scope nat_scope.
Definition mk_mlen (l : list (nat * nat)) (t : nat) : option nat :=
  match find (fun e => fst e =? t) l with Some (_, n) => Some n | None => None end.
Definition tok_eqb (a b : nat * nat) : bool := (fst a =? fst b) && (snd a =? snd b).
Definition otok_eqb (a b : option (nat * nat)) : bool :=
  match a, b with Some x, Some y => tok_eqb x y | None, None => true | _, _ => false end.
Definition cnt (x : nat * nat) (l : list (nat * nat)) : nat := length (filter (tok_eqb x) l).
Definition bag_eqb (a b : list (nat * nat)) : bool :=
  (length a =? length b) && forallb (fun x => cnt x a =? cnt x b) (a ++ b).
(* [str_len_ok; range_ok; real = select; real = model; known class; repaired model = select; non-trivial;
   real = repaired model] *)
Definition ev_lr (ms lm : bool) (terms : list (nat * term)) (sorted : list (nat * bool)) (ml : list (nat * nat))
                 (k n : nat) : list bool :=
  let mlen := mk_mlen ml in
  [ str_len_ok_b terms mlen; range_ok_b ms terms;
    otok_eqb (hd_error (select mlen (mkLexFlags ms lm true) terms)) (Some (k, n));
    otok_eqb (lr_pick lm (token_iter mlen sorted)) (Some (k, n));
    known_class_b ms terms mlen;
    otok_eqb (lr_pick lm (token_iter_from mlen false sorted)) (hd_error (select mlen (mkLexFlags ms lm true) terms));
    2 <=? length (filter (e_matches mlen) terms);
    otok_eqb (lr_pick lm (token_iter_from mlen false sorted)) (Some (k, n)) ].
Definition ev_glr (ms lm go : bool) (terms : list (nat * term)) (sorted : list (nat * bool)) (ml : list (nat * nat))
                  (real : list (nat * nat)) : list bool :=
  let mlen := mk_mlen ml in
  [ str_len_ok_b terms mlen; range_ok_b ms terms;
    bag_eqb (select mlen (mkLexFlags ms lm go) terms) real;
    bag_eqb (glr_pick lm go (token_iter mlen sorted)) real;
    known_class_b ms terms mlen;
    bag_eqb (glr_pick lm go (token_iter_from mlen false sorted)) (select mlen (mkLexFlags ms lm go) terms);
    2 <=? length (filter (e_matches mlen) terms);
    bag_eqb (glr_pick lm go (token_iter_from mlen false sorted)) real ].
"""
NB = 8


def lex_jobs(name, items, per_file=None):
    """items: [(tag, CaseResult, events)] -> {tag: list of NB-bool lists | dict(error=...)}"""
    files = []
    per_file = per_file or max(1, -(-len(items) // NCPU))   # loading the libraries dominates: one file per core
    for k in range(0, len(items), per_file):
        chunk = items[k:k + per_file]
        body = [HEADER]
        layout = []
        for n, (tag, r, evs) in enumerate(chunk):
            d, fl = r.dump, r.case.flags
            states = sorted(set(e[1] for e in evs))
            for s in states:
                body.append("Definition t%d_%d := %s." % (n, s, state_terms(d, s)))
                body.append("Definition s%d_%d := %s." % (n, s, state_sorted(d, s)))
            rows = []
            for (i, s, off, real) in evs:
                ml = gl_ml(r.matches[i], off)
                if r.case.meta["mode"] == "LR":
                    rows.append("ev_lr %s %s t%d_%d s%d_%d %s %d %d" % (
                        gl_bool(fl["ms"]), gl_bool(fl["lm"]), n, s, n, s, ml, real[0], real[1]))
                else:
                    rows.append("ev_glr %s %s %s t%d_%d s%d_%d %s %s" % (
                        gl_bool(fl["ms"]), gl_bool(fl["lm"]), gl_bool(fl["go"]), n, s, n, s, ml,
                        gl_list(["(%d, %d)" % x for x in real])))
            body.append("Eval vm_compute in %s." % gl_list(rows if rows else ["[true]"]))
            layout.append((tag, len(evs)))
        files.append(("%s_%d" % (name, k // per_file), "\n".join(body) + "\n", layout))
    outs = coq_eval_many([(f[0], f[1]) for f in files])
    res = {}
    for (fname, body, layout), (ok, out) in zip(files, outs):
        answers = parse_bools(out) if ok else []
        if not ok or len(answers) != len(layout):
            for tag, _ in layout:
                res[tag] = dict(error=out[-2000:], file=fname)
            continue
        for (tag, nev), a in zip(layout, answers):
            if nev == 0:
                res[tag] = []
            elif len(a) != NB * nev:
                res[tag] = dict(error="unexpected number of booleans %d for %d events" % (len(a), nev), file=fname)
            else:
                res[tag] = [a[NB * j:NB * j + NB] for j in range(nev)]
    return res


def show_event(r, s, off):
    """what the rule prescribes, what the model yields and what the repaired iterator would yield"""
    d, fl = r.dump, r.case.flags
    ms, lm, go = gl_bool(fl.get("ms", 1)), gl_bool(fl.get("lm", 1)), gl_bool(fl.get("go", 1) or r.case.meta["mode"] == "LR")
    body = HEADER + "Definition t := %s.\nDefinition s := %s.\nDefinition ml := mk_mlen %s.\n" % (
        state_terms(d, s), state_sorted(d, s), gl_ml(r.matches[0], off))
    body += ("Eval vm_compute in (select ml (mkLexFlags %s %s %s) t, glr_pick %s %s (token_iter ml s), "
             "glr_pick %s %s (token_iter_from ml false s)).\n" % (ms, lm, go, lm, go, lm, go))
    ok, out = coq_eval("c06replay_show", body)
    return "(select, model, repaired model) " + " ".join(out.split())[:600]


def gl_sort_table(d):
    """the dumped table restricted to what sorted_ok_b reads: action cells and sorted_terminals"""
    sts = []
    for s in d.states:
        acts = gl_list([gl_list([gl_action(a) for a in s["actions"].get(t, [])]) for t in range(d.nterm)])
        srt = gl_list(["(%d, %s)" % (t, gl_bool(f)) for (t, f) in s["sorted"]])
        sts.append("mkState %d [] %s [] %s []" % (s["sym"], acts, srt))
    return "mkTable %s None [] None" % gl_list(sts)


def gl_sort_grammar(d):
    terms = []
    for t in d.terms:
        sl = "Some %d" % len(t["rec"].encode()) if t["kind"] == "S" else "None"
        terms.append("mkTerm %d ANone (%s)" % (t["prio"], sl))
    return "mkGrammar %s %d [] None 0" % (gl_list(terms), d.nnonterm)


def sorted_jobs(name, items, per_file=None):
    """items: [(tag, dump, ms)] -> {tag: bool | dict(error)}"""
    files = []
    per_file = per_file or max(1, -(-len(items) // NCPU))
    for k in range(0, len(items), per_file):
        chunk = items[k:k + per_file]
        body = ["From RV Require Import Model.SortTerms.\nOpen Scope nat_scope."]
        rows = []
        for n, (tag, d, ms) in enumerate(chunk):
            body.append("Definition g%d := %s." % (n, gl_sort_grammar(d)))
            body.append("Definition T%d := %s." % (n, gl_sort_table(d)))
            rows.append("sorted_ok_b g%d %s T%d" % (n, gl_bool(ms), n))
        body.append("Eval vm_compute in %s." % gl_list(rows))
        files.append(("%s_%d" % (name, k // per_file), "\n".join(body) + "\n", [c[0] for c in chunk]))
    outs = coq_eval_many([(f[0], f[1]) for f in files])
    res = {}
    for (fname, body, tags), (ok, out) in zip(files, outs):
        answers = parse_bools(out) if ok else []
        if not ok or len(answers) != 1 or len(answers[0]) != len(tags):
            for t in tags:
                res[t] = dict(error=out[-2000:], file=fname)
            continue
        for t, b in zip(tags, answers[0]):
            res[t] = b
    return res


def sort_cases(tier, seed):
    """grammars for the sorted_ok_b leg: the byte-level corpus + random grammars with lexical structure of
    bytecommon, each under most_specific on/off and as LR and GLR tables (dump only)."""
    cases, _, _ = BC.make_byte_cases(tier, seed, SALT, n_random=(40 if tier == "quick" else 300))
    out = []
    for c in cases:
        for algo in ("LR", "GLR"):
            for ms in (0, 1):
                out.append(Case("%s_%s%d" % (c.id, algo, ms), c.grammar, [], algo=algo, table=c.table, run="NONE",
                                flags=dict(ms=ms, ps=c.flags["ps"], pse=c.flags["pse"]),
                                meta=dict(ms=ms, algo=algo)))
    return out


# --------------------------------------------------------------------- the check
PLUMB_GRAMMAR = ("S: First | Second | Kw;\nterminals\nFirst: /[a-z]+/;\nSecond: /[a-c]+/;\nKw: 'abc';\n")


def strategy_plumbing(rep):
    """The strategies are read by the runtimes from the GENERATED ParserDefinition (longest_match(), grammar_order();
    most-specific lives in the table's terminal order, checked by sorted_ok_b). For every combination of parser
    algorithm x generated table layout x the three lexical_disamb_* settings the real generator
    (Settings::process_grammar via rvgen) writes a parser; the two functions must return the settings."""
    import itertools
    import re
    import genlib as GL
    n = 0
    for algo, layout in itertools.product(["lr", "glr"], ["arrays", "functions"]):
        for ms, lm, go in itertools.product([0, 1], repeat=3):
            d = GL.fresh_dir("c06plumb", "%s_%s_%d%d%d" % (algo, layout, ms, lm, go))
            gpath = os.path.join(d, "plumb.rustemo")
            with open(gpath, "w") as f:
                f.write(PLUMB_GRAMMAR)
            b = lambda x: "true" if x else "false"
            calls = ["in_source_tree", "force:true", "parser_algo:" + algo, "generator_table_type:" + layout,
                     "lexical_disamb_most_specific:" + b(ms), "lexical_disamb_longest_match:" + b(lm),
                     "lexical_disamb_grammar_order:" + b(go), "builder_type:generic"]
            r = GL.rvgen(["gen", gpath] + calls)
            src = os.path.join(d, "plumb.rs")
            payload = dict(grammar=PLUMB_GRAMMAR, settings=calls)
            if algo == "lr" and not go:
                # "then grammar order (always for LR)": the setter refuses to switch it off for LR
                if r.settings_panic is None:
                    rep.violation("lr-grammar-order-disabled", "grammar order could be disabled for LR",
                                  dict(payload, result=r.result), found_input=False)
                else:
                    n += 1
                continue
            if r.result != "OK" or not os.path.exists(src):
                rep.violation("plumbing-generator", "the generator did not write a parser for the strategy-plumbing grammar",
                              dict(payload, result=r.result, msg=r.msg[:300]), found_input=False)
                continue
            text = open(src).read()
            got = {}
            for fn in ("longest_match", "grammar_order"):
                m = re.search(r"fn %s\(\) -> bool \{\s*(true|false)\s*\}" % fn, text)
                got[fn] = m.group(1) if m else None
            n += 1
            if got["longest_match"] != b(lm) or got["grammar_order"] != b(go):
                rep.violation("strategy-flag-not-plumbed", "the generated ParserDefinition does not report the lexical "
                              "disambiguation strategies that were configured (the runtime keeps or drops tokens by them)",
                              dict(payload, expected=dict(longest_match=b(lm), grammar_order=b(go)), generated=got))
    return n


def run(rep, tier, seed):
    reported = {}

    def finding(key, what, payload, found_input=True):
        """at most two replay files per key; all occurrences are counted in the coverage"""
        reported[key] = reported.get(key, 0) + 1
        if reported[key] <= 2:
            rep.violation(key, what, payload, found_input=found_input)

    lex_cases = make_cases(tier, seed)
    srt_cases = sort_cases(tier, seed)
    results = run_cases(lex_cases + srt_cases, "c06", timeout_s=6)
    lex_res, srt_res = results[:len(lex_cases)], results[len(lex_cases):]
    stats = dict(lex_cases=len(lex_cases), sort_cases=len(srt_cases), compile_errors=0, recerror=0)

    # (V) sorted_ok_b on every real dump (also the dumps of the lexical cases)
    sitems = []
    for r in srt_res + lex_res:
        if r.dump is None or not r.dump.states:
            stats["compile_errors"] += 1
            if r.status in ("PANIC", "TIMEOUT", "CRASH", "MISSING"):
                rep.notes.append("compiler %s on case %s (C16's business): %s" % (r.status, r.case.id, r.msg[:100]))
            continue
        sitems.append((r.case.id, r.dump, r.case.flags.get("ms", 1)))
    sev = sorted_jobs("c06s", sitems)
    n_sorted_ok = n_states = n_multi = 0
    bad_sorted = set()
    by_id = {r.case.id: r for r in srt_res + lex_res}
    for tag, d, ms in sitems:
        v = sev.get(tag)
        base = dict(grammar=by_id[tag].case.grammar, flags=by_id[tag].case.flags, algo=by_id[tag].case.algo)
        if isinstance(v, dict) or v is None:
            rep.violation("coq-eval", "Coq evaluation of sorted_ok_b failed", dict(base, err=(v or {}).get("error")),
                          found_input=False)
            continue
        if not v:
            bad_sorted.add(tag)
            finding("sorted-terminals-corr",
                    "LRState.sorted_terminals of the real table differs from Model/SortTerms.v (sorted_ok_b false)",
                    dict(base, sorted=[s["sorted"] for s in d.states],
                         obligation="correspondence sort_terminals vs rustemo-compiler table/mod.rs:914"),
                    found_input=False)
            continue
        n_sorted_ok += 1
        n_states += len(d.states)
        n_multi += sum(1 for s in d.states if len(s["sorted"]) > 1)

    # (C/O) lexing events of the real parsers against select / the model
    items = []
    n_skipped = 0
    for r in lex_res:
        if r.status != "OK" or r.dump is None or r.dump.missing_rec:
            continue
        if r.recerror:
            stats["recerror"] += 1
            continue
        if r.case.meta["mode"] == "LR" and r.dump.conflicts != 0:
            continue
        evs, sk = events_of(r)
        n_skipped += sk
        items.append((r.case.id, r, evs))
    lev = lex_jobs("c06l", items)
    n_ev = n_nontrivial = n_known = n_f1 = n_range = n_repaired_ok = 0
    per_mode = {"LR": 0, "GLR": 0}
    f1_seen_on_witness = False
    samples = []
    for tag, r, evs in items:
        v = lev.get(tag)
        base = dict(grammar=r.case.grammar, flags=r.case.flags, algo=r.case.algo, run=r.case.run)
        if isinstance(v, dict) or v is None:
            rep.violation("coq-eval", "Coq evaluation of the lexing events failed", dict(base, err=(v or {}).get("error")),
                          found_input=False)
            continue
        for (i, s, off, real), b in zip(evs, v):
            strok, rng_ok, spec_ok, model_ok, known, repaired_ok, nontriv, real_is_repaired = b
            n_ev += 1
            per_mode[r.case.meta["mode"]] += 1
            n_nontrivial += nontriv
            n_known += known
            n_repaired_ok += repaired_ok
            payload = dict(base, input=r.case.inputs[i], offset=off, state=s, real_token=real,
                           expected_sorted=r.dump.states[s]["sorted"], measured=r.matches[i].get(off),
                           real_outcome=r.results.get((r.case.meta["mode"], i), "")[:600])
            if not strok:
                rep.violation("recognizer-hyp", "a string recognizer matched a length other than its own (harness)",
                              payload, found_input=False)
                continue
            if not model_ok:
                if not spec_ok and rng_ok:
                    # the search of DESIGN.md §7 succeeded: this input violates the property's own statement
                    finding("lexer-rule", "token of the real parser differs from the documented rule (select) and from "
                            "the model: the lexer / sort_terminals / parser-side filters changed behaviour",
                            dict(payload, real_equals_repaired_model=bool(real_is_repaired)))
                else:
                    finding("corr-lexer", "real parser's token differs from Model (token_iter + pick on the dumped "
                            "sorted_terminals)" + (" but equals the REPAIRED iterator token_iter_from: if TokenIterator "
                                                   "was repaired in /repo, switch Model/Lexer.v (see REPORT)"
                                                   if real_is_repaired else ""),
                            dict(payload, real_equals_repaired_model=bool(real_is_repaired),
                                 obligation="correspondence Model/Lexer.v vs rustemo lexer.rs / lr,glr parser.rs"),
                            found_input=False)
                continue
            if not spec_ok:
                if not rng_ok:
                    n_range += 1
                    finding(KEY_RANGE, "token differs from the documented rule: sort key prio*1000+strlen with a "
                                  "string recognizer of >= 1000 bytes (outranks higher priorities) or of 0 bytes (not "
                                  "preferred over regexes)", payload)
                elif known:
                    n_f1 += 1
                    if r.case.meta["family"] == "f1":
                        f1_seen_on_witness = True
                    finding(KEY_F1, "token differs from the documented rule: the last-tried terminal of the top "
                                  "matching priority group does not match, so lower-priority matches are collected too "
                                  "(finish flag only on the group's last terminal)", payload)
                else:
                    finding("lexer-rule", "token differs from the documented rule outside every known class", payload)
            if not repaired_ok and rng_ok and tag not in bad_sorted:
                finding("repair-model", "the repaired iterator model disagrees with select (theorem "
                        "lexer_*_repaired contradicted?)", payload, found_input=False)
            if len(samples) < 5 and nontriv and r.case.grammar not in [x["grammar"] for x in samples]:
                samples.append(dict(grammar=r.case.grammar, flags=r.case.flags, input=r.case.inputs[i], offset=off,
                                    real_token=real, in_known_class=bool(known), agrees_with_rule=bool(spec_ok)))
    n_plumb = strategy_plumbing(rep)
    pt = rep.theorems or {}
    nthm = len(pt.get("theorems", []))
    rep.coverage = dict(
        # evaluations that fall in a recorded known-finding class (KNOWN_FINDINGS.txt) are reported separately below
        obligations=nthm + len(sitems) + n_ev - n_f1 - n_range, evaluations_in_known_finding_classes=n_f1 + n_range, strategy_flag_configurations_checked=n_plumb,
        discharged=(pt.get("closed", 0) if not [v for v in rep.violations if v[0] in ("coq-build", "axioms", "assumptions")]
                    else 0) + n_sorted_ok + (n_ev - n_f1 - n_range),
        checker_cmd="make -C coq Properties/C06.vo ; coqc work/c06s_*.v work/c06l_*.v (vm_compute of sorted_ok_b, "
                    "select, known_class_b, token_iter/lr_pick/glr_pick)",
        trusted_base=TRUSTED_BASE + [
            "regex / fancy_regex / str::starts_with / char::is_whitespace are not modelled: the match length of every "
            "terminal at every offset is MEASURED on the real recognizers (harness MATCH lines) and handed to select "
            "and to the model; hypothesis str_len_ok_b (string recognizer matches its own length) is evaluated on them",
            "LR lexing state of a shifted token: replay of the dumped table on the real tree's leaf kinds (gen/c06.py "
            "lex_states); a wrong state would show as a disagreement with the model, not as silence"],
        theorems=pt.get("theorems", []), programs=n_sorted_ok, states_sorted_checked=n_states,
        states_with_several_terminals=n_multi, evaluations=n_ev, distinct_nontrivial=n_nontrivial,
        events_lr=per_mode["LR"], events_glr=per_mode["GLR"], events_in_known_class=n_known,
        events_diverging_f1=n_f1, events_diverging_range=n_range, reported_per_key=reported, repaired_model_agrees=n_repaired_ok,
        skipped_inputs=n_skipped, stats=stats,
        rule="terminal sets: corpus (F1 witness, keyword/identifier, equal-length ties, three priority levels, 150-byte "
             "string, sort-key range witnesses) + random sets of 2-6 string/regex terminals with shared prefixes and "
             "1-3 priority levels; syntax shapes flat-right / flat-left / two-context (LR, every token of the parse is "
             "one event) and single-token alternatives with partial parse (GLR, the first tokens of the forest are one "
             "event); flags ms x lm (LR) and ms x lm x go (GLR); inputs: concatenations of the terminals' sample "
             "lexemes and foreign fragments with whitespace. non-trivial = at least two expected terminals match at "
             "the event's offset. sorted_ok_b: byte-level corpus + random grammars x ms x {LR, GLR} tables, every state",
        samples=samples)
    rep.assumptions = ["recognizers return a prefix of their argument and a matching string recognizer matches its own "
                       "byte length (measured per event)",
                       "u32 wrap-around of the sort key is not modelled (needs a ~4e9 byte string recognizer)"]


def replay(rep, path):
    p = json.load(open(path))
    fl = dict(p.get("flags", {}), match=1)
    mode = p.get("run", "LR")
    c = Case("replay", p["grammar"], [p.get("input", "")], algo=p.get("algo", mode), run=mode, flags=fl,
             meta=dict(mode=mode, family="replay", shape="?"))
    r = run_cases([c], "c06replay", shards=1)[0]
    print("real    :", r.results.get((mode, 0)))
    if r.dump is None:
        print("no dump:", r.status, r.msg)
    else:
        for s in r.dump.states:
            print("state %d sorted_terminals %s" % (s["idx"], s["sorted"]))
        print("measured:", r.matches.get(0))
        sv = sorted_jobs("c06replay_s", [("r", r.dump, fl.get("ms", 1))])
        print("sorted_ok_b :", sv.get("r"))
        evs, sk = events_of(r)
        lv = lex_jobs("c06replay_l", [("r", r, evs)])
        v = lv.get("r")
        if isinstance(v, dict):
            print("coq error:", v)
        else:
            for (i, s, off, real), b in zip(evs, v or []):
                print("offset %d state %d real token %s : str_len_ok=%s range_ok=%s real=select:%s real=model:%s "
                      "known_class:%s repaired=select:%s real=repaired:%s" % (off, s, real, b[0], b[1], b[2], b[3], b[4], b[5], b[7]))
                print("   " + show_event(r, s, off))
    rep.coverage = dict(obligations=1, discharged=1, checker_cmd="replay", trusted_base=[])
