"""C04 — the LR table is a faithful core-preserving compression of canonical LR(1).

(T) Properties/C04.v: compress_sound (the checker reflects the relation `Compresses`), and from
    `Compresses` alone: compresses_total, lookaheads_are_lalr, no_invented_reduce, reduce_iff,
    lalr_grammar_no_conflict, lalr_test_sound, lalr_checked_no_conflict; canon_is_canonical* about the
    reference construction.
(V) for the corpus + random grammars (ambiguous ones included) x {LALR, LALR_PAGER, LALR_RN}, compiled by the
    REAL compiler with the GLR algorithm and no shift preferences (cells unresolved), the kernel evaluates
    (vm_compute) the 14 named sub-checkers of  compress_b g (canonical g) T_real, where `canonical g` is our own
    canonical LR(1) automaton (own FIRST / nullable fixpoints; the dumped FIRST table is never read).
(C) the consequence on the real compiler itself: every grammar whose full same-core merge of the canonical
    automaton is conflict-free (verified test lalr_conflict_free_b) must compile in LR mode (no shift preferences)
    without conflicts under LALR and LALR_PAGER."""
import json
import os
import random
import re
import subprocess
from concurrent.futures import ThreadPoolExecutor

from rvlib import *  # noqa
import grammars as GR
from common import TRUSTED_BASE

LEVEL = "translation_validation"

TT = ("LALR", "LALR_PAGER", "LALR_RN")
PARTS = ["shape_b", "ck_len", "ck_start", "ck_trans", "ck_onto", "ck_core", "ck_la_kept", "ck_la_sound",
         "ck_red_kept", "ck_red_sound", "ck_rn_kept", "ck_rn_len", "ck_nodup", "ck_items_wf"]
MEANING = {
    "shape_b": "table shape (cell / goto vector lengths, targets in range)",
    "ck_len": "relation has one row per canonical state",
    "ck_start": "start states correspond (state 0; layout start state)",
    "ck_trans": "(iii) transitions agree in lock-step, T has no other transitions",
    "ck_onto": "(i) every table state stands for some canonical state",
    "ck_core": "(ii) related states have the same item core",
    "ck_la_kept": "(iv) no canonical lookahead is lost",
    "ck_la_sound": "(iv) no lookahead is invented",
    "ck_red_kept": "(v) every canonical reduction / accept is in the cell",
    "ck_red_sound": "(v) every reduction / accept in a cell comes from a canonical state (or is a right-nulled entry)",
    "ck_rn_kept": "LALR_RN: every position from rn[p] on reduces on the item's lookaheads",
    "ck_rn_len": "LALR_RN: rn[p] is the least position after which the rest is nullable (own nullable fixpoint)",
    "ck_nodup": "no cell lists an action twice",
    "ck_items_wf": "items mention existing productions/positions",
}
LOST = ("ck_la_kept", "ck_red_kept", "ck_rn_kept")
INVENTED = ("ck_la_sound", "ck_red_sound")
MAX_CANON = 400
SEARCHES = [0]      # sentence searches done in this run (bounded: a broken generator fails hundreds of tables)
HEADER = "From RV Require Import Spec.Canonical.\nOpen Scope nat_scope.\n"

LAYOUT_1 = """S: Ta B Tc;
B: EMPTY | Tb;
Layout: LayoutItem*;
LayoutItem: WS | Comment;
Comment: Td Inner Te;
Inner: EMPTY | Inner Tb;
terminals
Ta: 'a';
Tb: 'b';
Tc: 'c';
Td: '/*';
Te: '*/';
WS: /\\s+/;
"""
# the Layout automaton shares nonterminal A with the main one: states are merged ACROSS the two automata
LAYOUT_SHARED = """S: Ta A Tc | Tb A Td;
A: Tb;
Layout: L;
L: Tc A Tc | Td A Td | EMPTY;
terminals
Ta: 'a';
Tb: 'b';
Tc: 'c';
Td: 'd';
"""


class Item:
    def __init__(self, shape, text, g=None):
        self.shape, self.text, self.g = shape, text, g


def make_grammars(tier, seed):
    rng = random.Random(seed * 104729 + 4)
    items = []
    for g in GR.corpus():
        if not g.meta and not g.tmeta:
            items.append(Item(g.shape, g.text(), g))
    # one canonical state represented by two table states (same items, different order): R is a relation
    nf = GR.G([("S", [["a", "A", "e"], ["b", "B", "e"]]), ("A", [["c", "d"], ["B", "e"]]),
               ("B", [["c", "f"], ["A", "e"]])], 6, shape="ordered-kernel-twins")
    items.append(Item(nf.shape, nf.text(), nf))
    items.append(Item("layout", LAYOUT_1))
    items.append(Item("layout-shared-nonterminal", LAYOUT_SHARED))
    n = 150 if tier == "quick" else 1500
    for _ in range(n):
        g = GR.random_grammar(rng)
        items.append(Item(g.shape, g.text(), g))
    for _ in range(n // 6):
        for g in (GR.first_chain_family(rng), GR.nullable_tail_family(rng), GR.late_lookahead_family(rng)):
            items.append(Item(g.shape, g.text(), g))
    n2 = 150 if tier == "quick" else 2500
    extra = []
    for _ in range(n2):
        g = GR.random_grammar(rng)
        extra.append(Item(g.shape, g.text(), g))
    seen, out, out2 = set(), [], []
    for it in items:
        if it.text not in seen:
            seen.add(it.text)
            out.append(it)
    for it in extra:
        if it.text not in seen:
            seen.add(it.text)
            out2.append(it)
    return out, out2, rng


# ------------------------------------------------------------------ coq evaluation
def coq_run(name, body, timeout):
    """(status, output): status in ok / error / timeout"""
    os.makedirs(WORK, exist_ok=True)
    path = os.path.join(WORK, name + ".v")
    with open(path, "w") as f:
        f.write(body)
    try:
        p = subprocess.run(["coqc", "-noglob", "-Q", COQDIR, "RV", path], cwd=WORK, timeout=timeout,
                           stdout=subprocess.PIPE, stderr=subprocess.STDOUT, text=True, errors="replace")
        st, out = ("ok" if p.returncode == 0 else "error"), p.stdout
    except subprocess.TimeoutExpired:
        st, out = "timeout", ""
    for ext in (".vo", ".vok", ".vos", ".glob"):
        q = os.path.join(WORK, name + ext)
        if os.path.exists(q):
            os.remove(q)
    aux = os.path.join(WORK, "." + name + ".aux")
    if os.path.exists(aux):
        os.remove(aux)
    return st, out


def answers(out):
    res, cur = [], None
    for line in out.split("\n"):
        if line.lstrip().startswith("= "):
            if cur is not None:
                res.append(cur)
            cur = line
        elif cur is not None:
            cur += " " + line
    if cur is not None:
        res.append(cur)
    return [" ".join(a.split(" : ")[0].split()) for a in res]


def block(n, dump, tables):
    """Gallina text for one grammar: canonical automaton once, then one list of booleans per table."""
    b = ["Definition g%d := %s." % (n, gl_grammar(dump)),
         "Definition C%d := Eval vm_compute in canonical g%d %d." % (n, n, MAX_CANON + 1),
         "Eval vm_compute in match C%d with Some c => (1, c_n c, if lalr_conflict_free_b g%d c then 1 else 0) "
         "| None => (0, 0, 0) end." % (n, n)]
    for tt, d in tables:
        b.append("Definition T%d_%s := %s." % (n, tt, gl_table(d)))
        b.append("Eval vm_compute in match C%d with Some c => compress_parts g%d c T%d_%s ++ "
                 "[functional_b (walk_rel g%d c T%d_%s)] | None => [] end." % (n, n, n, tt, n, n, tt))
    return "\n".join(b) + "\n"


def read_block(ans, ntables):
    """answers of one block -> dict(canon=bool, cn, lalr, parts={tt-index: [bools]})"""
    m = re.match(r"= \((\d+), (\d+), (\d+)\)", ans[0])
    if not m:
        return None
    res = dict(canon=m.group(1) == "1", cn=int(m.group(2)), lalr=m.group(3) == "1", parts=[])
    for a in ans[1:1 + ntables]:
        res["parts"].append([x == "true" for x in re.findall(r"\b(true|false)\b", a)])
    return res


def evaluate(tag, entries, per_file, t_file, t_single):
    """entries: list of (key, dump, [(tt, dump)]). Returns dict key -> result dict or dict(status=...)."""
    files = []
    for k in range(0, len(entries), per_file):
        files.append(entries[k:k + per_file])

    def run_file(idx_chunk):
        idx, chunk = idx_chunk
        body = HEADER + "".join(block(n, e[1], e[2]) for n, e in enumerate(chunk))
        st, out = coq_run("%s_%d" % (tag, idx), body, t_file)
        res = {}
        if st == "ok":
            ans = answers(out)
            pos = 0
            good = True
            for e in chunk:
                r = read_block(ans[pos:], len(e[2])) if pos < len(ans) else None
                if r is None or len(r["parts"]) != len(e[2]):
                    good = False
                    break
                res[e[0]] = r
                pos += 1 + len(e[2])
            if good:
                return res
        # retry one by one (a big automaton or an error in one grammar must not hide the others)
        res = {}
        for j, e in enumerate(chunk):
            st, out = coq_run("%s_%d_%d" % (tag, idx, j), HEADER + block(0, e[1], e[2]), t_single)
            if st == "ok":
                r = read_block(answers(out), len(e[2]))
                res[e[0]] = r if r is not None else dict(status="error", out=out[-1500:])
            else:
                res[e[0]] = dict(status=st, out=out[-1500:])
        return res

    out = {}
    with ThreadPoolExecutor(max_workers=NCPU) as ex:
        for r in ex.map(run_file, list(enumerate(files))):
            out.update(r)
    return out


def facts(d):
    """number of table facts the comparison covers: item lookaheads + actions + gotos"""
    n = 0
    for s in d.states:
        n += sum(max(1, len(f)) for (_, _, f) in s["items"])
        n += sum(len(a) for a in s["actions"].values()) + len(s["gotos"])
    return n


# ------------------------------------------------------------------ the check
def run(rep, tier, seed):
    items, extra, rng = make_grammars(tier, seed)
    t_file, t_single = (150, 100) if tier == "quick" else (600, 300)
    # A. the real compiler, unresolved cells
    cases = []
    for gi, it in enumerate(items):
        for tt in TT:
            cases.append(Case("g%d_%s" % (gi, tt), it.text, [], algo="GLR", table=tt, run="NONE",
                              flags=dict(ps=0, pse=0), meta=dict(gi=gi, table=tt)))
    for gi, it in enumerate(extra):
        cases.append(Case("x%d" % gi, it.text, [], algo="GLR", table="LALR", run="NONE",
                          flags=dict(ps=0, pse=0), meta=dict(xi=gi, table="LALR")))
    results = run_cases(cases, "c04")
    per = {}
    xper = {}
    n_err = 0
    for r in results:
        ok = r.status == "OK" and r.dump is not None and not r.dump.missing_rec
        if "gi" in r.case.meta:
            if ok:
                per.setdefault(r.case.meta["gi"], []).append(r)
            else:
                n_err += 1
        elif ok:
            xper[r.case.meta["xi"]] = r
    # B. Coq: canonical automaton + sub-checkers
    entries = []
    for gi in sorted(per):
        rs = per[gi]
        entries.append((("g", gi), rs[0].dump, [(r.case.table, r.dump) for r in rs]))
    ev = evaluate("c04", entries, 6, t_file, t_single)
    xentries = [(("x", xi), xper[xi].dump, []) for xi in sorted(xper)]
    xev = evaluate("c04x", xentries, 14, t_file, t_single)
    # C. judge
    n_val = n_pairs = n_facts = n_big = n_timeout = n_nonfunc = 0
    n_conflicting = 0
    shapes = {}
    samples = []
    clause_true = dict((p, 0) for p in PARTS)
    lalr_items = []
    compress_bad = set()
    for gi in sorted(per):
        it = items[gi]
        e = ev.get(("g", gi))
        base = dict(grammar=it.text, shape=it.shape)
        if e is None or "status" in e:
            if e is not None and e["status"] == "timeout":
                n_timeout += 1
            else:
                rep.violation("coq-eval", "Coq evaluation of the case failed (machinery)",
                              dict(base, err=(e or {}).get("out")), found_input=False)
            continue
        if not e["canon"]:
            n_big += 1
            continue
        if e["lalr"]:
            lalr_items.append((it, per[gi][0]))
        for r, parts in zip(per[gi], e["parts"]):
            n_pairs += 1
            b = dict(base, table=r.case.table, flags=r.case.flags, canonical_states=e["cn"],
                     table_states=len(r.dump.states))
            if len(parts) != len(PARTS) + 1:
                rep.violation("coq-eval", "unexpected answer shape from Coq (machinery)", dict(b, parts=parts),
                              found_input=False)
                continue
            bad = [p for p, v in zip(PARTS, parts) if not v]
            for p, v in zip(PARTS, parts):
                clause_true[p] += 1 if v else 0
            if not parts[-1]:
                n_nonfunc += 1
            if r.dump.conflicts not in (0, None):
                n_conflicting += 1
            if not bad:
                n_val += 1
                n_facts += facts(r.dump)
                shapes[it.shape] = shapes.get(it.shape, 0) + 1
                if len(samples) < 6 and it.shape not in [s["shape"] for s in samples] and e["cn"] != len(r.dump.states):
                    samples.append(dict(shape=it.shape, grammar=it.text, table=r.case.table, canonical_states=e["cn"],
                                        table_states=len(r.dump.states), conflicts=r.dump.conflicts,
                                        lalr1=e["lalr"], relation_is_a_map=parts[-1]))
                continue
            compress_bad.add(gi)
            failing(rep, it, r, e, bad, b)
    # D. the consequence, directly on the real compiler: LALR(1) by the verified test => LR mode compiles clean
    for xi in sorted(xper):
        e = xev.get(("x", xi))
        if e is None or "status" in e:
            if e is not None and e["status"] == "timeout":
                n_timeout += 1
            else:
                rep.violation("coq-eval", "Coq evaluation of the case failed (machinery)",
                              dict(grammar=extra[xi].text, err=(e or {}).get("out")), found_input=False)
            continue
        if not e["canon"]:
            n_big += 1
        elif e["lalr"]:
            lalr_items.append((extra[xi], xper[xi]))
    lr_cases = []
    for k, (it, r) in enumerate(lalr_items):
        for tt in ("LALR", "LALR_PAGER"):
            lr_cases.append(Case("l%d_%s" % (k, tt), it.text, [], algo="LR", table=tt, run="NONE",
                                 flags=dict(ps=0, pse=0), meta=dict(k=k, table=tt)))
    n_lr = 0
    if lr_cases:
        for r in run_cases(lr_cases, "c04lr"):
            it = lalr_items[r.case.meta["k"]][0]
            n_lr += 1
            if not (r.status == "OK" and r.dump is not None and r.dump.conflicts == 0):
                rep.violation("lalr-rejected", "grammar is LALR(1) by the verified reference test but the real compiler "
                              "does not compile it conflict-free in LR mode",
                              dict(grammar=it.text, shape=it.shape, table=r.case.table, flags=r.case.flags, status=r.status,
                                   msg=r.msg, conflicts=None if r.dump is None else r.dump.conflicts,
                                   obligation="Properties.C04.lalr_checked_no_conflict"))
    pt = rep.theorems or {}
    nthm = len(pt.get("theorems", []))
    rep.coverage = dict(
        obligations=nthm + len(PARTS) * n_pairs,
        discharged=(pt.get("closed", 0) if not rep.violations else 0) + sum(clause_true.values()),
        checker_cmd="make -C coq Properties/C04.vo ; coqc work/c04_*.v (vm_compute of canonical, compress_parts, "
                    "lalr_conflict_free_b) ; rv (LR-mode compile of every LALR(1) grammar)",
        trusted_base=TRUSTED_BASE, theorems=pt.get("theorems", []),
        programs=n_val, disagreements_checked=n_facts, samples=samples,
        evaluations=n_pairs, distinct_nontrivial=n_val,
        rule="grammars: unannotated corpus + hand-written (ordered-kernel twins, two Layout grammars) + structured random "
             "BNF (ambiguous / conflicting ones included); each compiled by the real compiler with the GLR algorithm, "
             "prefer_shifts = prefer_shifts_over_empty = false, under LALR, LALR_PAGER, LALR_RN; compared with our canonical "
             "LR(1) automaton (<= %d states) by 14 kernel-evaluated sub-checkers; disagreements_checked = item lookaheads + "
             "actions + gotos of the validated tables" % MAX_CANON,
        grammars=len(items), extra_grammars_for_lalr_test=len(extra), compile_errors_out_of_scope=n_err,
        pairs_evaluated=n_pairs, pairs_validated=n_val, pairs_with_conflicts=n_conflicting,
        skipped_canonical_too_big=n_big, skipped_timeout=n_timeout,
        relation_not_a_map=n_nonfunc, clause_true=clause_true, shapes=shapes,
        lalr1_grammars=len(lalr_items), lr_mode_compiles=n_lr)
    rep.assumptions = [
        "the relation R (table state t stands for canonical state c) is computed by a lock-step walk and then CHECKED; "
        "it is a relation, not a map, because rustemo identifies states by ordered kernel (pairs counted in relation_not_a_map)",
        "grammars with priorities/associativities are out of scope here (the cells must be unresolved); C05 covers resolution",
        "canonical automata over %d states and evaluations over the time-out are skipped and counted" % MAX_CANON,
    ]


def failing(rep, it, r, e, bad, b):
    """A sub-checker is false on a real table: name the clause, then try to exhibit a consequence."""
    b = dict(b, failing_clauses=bad, meaning=[MEANING[x] for x in bad], lalr1_by_reference=e["lalr"],
             obligation="Spec.Canonical.%s (conjunct of compress_b; Properties.C04.compress_sound)" % bad[0])
    if any(x in LOST for x in bad) and it.g is not None and SEARCHES[0] < 8:
        SEARCHES[0] += 1
        try:
            if search_rejected_glr(rep, it, r, b):
                return
        except Exception as ex:  # the search is best effort
            b["search_error"] = repr(ex)
    if any(x in INVENTED for x in bad) and e["lalr"]:
        for tt in ("LALR", "LALR_PAGER"):
            rr = run_cases([Case("s", it.text, [], algo="LR", table=tt, run="NONE", flags=dict(ps=0, pse=0))],
                           "c04s", shards=1)[0]
            if not (rr.status == "OK" and rr.dump is not None and rr.dump.conflicts == 0):
                rep.violation("lalr-rejected", "invented lookahead: grammar is LALR(1) by the verified reference test but "
                              "the real compiler reports conflicts in LR mode",
                              dict(b, table=tt, conflicts=None if rr.dump is None else rr.dump.conflicts, msg=rr.msg))
                return
    rep.violation("compress-" + bad[0], "compress_b is false on a real table: " + "; ".join(MEANING[x] for x in bad), b,
                  found_input=False)


def search_rejected_glr(rep, it, r, b, maxlen=6):
    """A lost lookahead / reduction makes the parser reject a sentence. The cells are unresolved, so the real
    GLR parser driven by this very table must accept every sentence; look for one it rejects and have the
    derivation tree judged by the Coq-verified derivation_b before reporting."""
    import c01
    import lrcommon as LC
    lang = it.g.language(maxlen)
    sents = sorted(lang[it.g.rules[0][0]], key=lambda s: (len(s), s))[:1500]
    if not sents:
        return False
    c = Case("search", it.text, [GR.render(w) for w in sents], algo="GLR", table=r.case.table, run="GLR",
             flags=dict(ps=0, pse=0, partial=0))
    rr = run_cases([c], "c04search", shards=1)[0]
    if rr.dump is None:
        return False
    tried = 0
    for i, w in enumerate(sents):
        out = rr.results.get(("GLR", i), "")
        if not out.startswith("ERR"):
            continue
        tried += 1
        if tried > 12:
            break
        t = c01.derivation_tree(it.g, rr.dump, w)
        if t is None:
            continue
        body = LC.HEADER + "Definition g := %s.\nEval vm_compute in [derivation_b g (%s) %s].\n" % (
            gl_grammar(rr.dump), gl_tree(t), gl_nats(LC.letters_to_kinds(w)))
        ok, o = coq_eval("c04_witness", body)
        bb = parse_bools(o)
        if ok and bb and bb[0] and bb[0][0]:
            rep.violation("sentence-rejected", "lost lookahead: a sentence is rejected by the real GLR parser driven by "
                          "the real (unresolved) table", dict(b, input=GR.render(w), real=out, derivation=gl_tree(t)))
            return True
    return False


def replay(rep, path):
    p = json.load(open(path))
    tts = [p["table"]] if p.get("table") in TT else list(TT)
    rs = run_cases([Case("r_%s" % tt, p["grammar"], [], algo="GLR", table=tt, run="NONE", flags=dict(ps=0, pse=0))
                    for tt in tts], "c04replay", shards=1)
    ok = [r for r in rs if r.status == "OK" and r.dump is not None]
    for r in rs:
        print("compile GLR/%s: %s %s conflicts=%s" % (r.case.table, r.status, r.msg[:80],
                                                      None if r.dump is None else r.dump.conflicts))
    if ok:
        st, out = coq_run("c04_replay", HEADER + block(0, ok[0].dump, [(r.case.table, r.dump) for r in ok]), 900)
        if st == "ok":
            e = read_block(answers(out), len(ok))
            print("canonical states: %s   LALR(1) by reference: %s" % (e["cn"] if e["canon"] else "> %d" % MAX_CANON, e["lalr"]))
            for r, parts in zip(ok, e["parts"]):
                print("table %s (%d states):" % (r.case.table, len(r.dump.states)))
                for n, v in zip(PARTS + ["relation is a map (statistics only)"], parts):
                    print("   %-12s %s   %s" % (n, v, MEANING.get(n, "")))
        else:
            print("coq:", st, out[-2000:])
    for tt in ("LALR", "LALR_PAGER"):
        rr = run_cases([Case("l", p["grammar"], [], algo="LR", table=tt, run="NONE", flags=dict(ps=0, pse=0))],
                       "c04replay", shards=1)[0]
        print("compile LR/%s: %s conflicts=%s" % (tt, rr.status, None if rr.dump is None else rr.dump.conflicts))
    if p.get("input") is not None:
        tt = p.get("table", "LALR")
        rr = run_cases([Case("i", p["grammar"], [p["input"]], algo="GLR", table=tt, run="GLR",
                             flags=dict(ps=0, pse=0, partial=0))], "c04replay", shards=1)[0]
        print("real GLR parser (%s) on %r: %s" % (tt, p["input"], rr.results.get(("GLR", 0))))
        if p.get("derivation") and rr.dump is not None:
            import lrcommon as LC
            body = LC.HEADER + "Definition g := %s.\nEval vm_compute in [derivation_b g (%s) %s].\n" % (
                gl_grammar(rr.dump), p["derivation"], gl_nats(LC.letters_to_kinds(tuple(p["input"].split()))))
            print("oracle : derivation_b =", parse_bools(coq_eval("c04_replay_w", body)[1]))
    rep.coverage = dict(obligations=1, discharged=1, checker_cmd="replay", trusted_base=[])
