"""C07 — LR and GLR parsers built from the same deterministic grammar agree.

(T) Properties/C07.v (unbounded): the comparison relation "equal except that trailing children deriving the empty
    string may be elided, spans and token values included" is an equivalence decided by the normal form aelide and
    refines tree_eq_mod_rn on plain derivation trees (elide_canonical in Properties/C03.v: it identifies exactly the
    trees related by dropping trailing empty children); lr_unique (C01) makes the LR tree THE derivation tree.
(O) NOT proved: that the GLR runtime returns that tree.  Decided by exploration on the REAL runtimes: for every
    generated conflict-free grammar (GLR-algorithm probe, all shift preferences off: zero conflicts) compile both ways
    (LR: algo LR / LALR_PAGER; GLR: algo GLR / LALR_RN) and run both on valid and invalid inputs:
    same Ok/Err, Forest::solutions = 1, trees equal modulo elision INCLUDING token values and byte/line/column
    spans (evaluated in Coq by atree_eq_mod_rn_b), equal error positions."""
import json
import random

from rvlib import *  # noqa
import grammars as GR
from common import TRUSTED_BASE
import c03 as C3
import bytecommon as BC


class ByteShape:
    def __init__(self, shape):
        self.shape = shape

LEVEL = "other"
HEADER = "From RV Require Import Model.ForestCheck.\nOpen Scope nat_scope.\n"


def gl_atree(t):
    def p(x):
        return [x[0], x[1] or 0, x[2] or 0]
    if t[0] == "T":
        info = p(t[3]) + p(t[4]) + list(t[6])
        return "ALeaf %d %s" % (t[1], gl_nats(info))
    info = p(t[3]) + p(t[4])
    return "ANode %d %s %s" % (t[1], gl_nats(info), gl_list([gl_atree(c) for c in t[2]]))


def parse_lr(out):
    if out is None:
        return dict(kind="MISSING")
    w = out.split(" ", 1)
    if w[0] == "OK":
        return dict(kind="OK", tree=parse_sexp(w[1]))
    if w[0] == "ERR":
        f = w[1].split(" ")
        if len(f) >= 6 and f[0] in ("E", "O"):
            return dict(kind="ERR", pos=(int(f[1]), int(f[2]), int(f[3])), exp=f[5], raw=out)
        return dict(kind="ERR", pos=None, exp=None, raw=out)
    return dict(kind=w[0], raw=out)


def parse_glr(out):
    pr = C3.parse_glr(out)
    if pr["kind"] == "ERR":
        f = out.split(" ")
        if len(f) >= 7 and f[1] in ("E", "O"):
            pr["pos"] = (int(f[2]), int(f[3]), int(f[4]))
            pr["exp"] = f[6]
        else:
            pr["pos"] = None
            pr["exp"] = None
    return pr


def make_grammars(tier, seed):
    rng = random.Random(seed * 7919 + 7)
    gs, seen = [], set()
    for g in GR.corpus():
        g = C3.strip(g)
        if g.key() not in seen:
            seen.add(g.key())
            gs.append(g)
    extra = [
        ("rn-suffix-3", 3, [("S", [["a", "A", "B", "C"]]), ("A", [[], ["b"]]), ("B", [[]]), ("C", [[], ["c"]])]),
        ("rn-nested", 2, [("S", [["a", "A"]]), ("A", [["B", "C"]]), ("B", [[]]), ("C", [[], ["b"]])]),
        ("empty-mid-ws", 3, [("S", [["a", "B", "c", "B"]]), ("B", [[]])]),
    ]
    for shape, nt, rules in extra:
        g = GR.G(rules, nt, shape=shape)
        if g.key() not in seen:
            seen.add(g.key())
            gs.append(g)
    n = 420 if tier == "quick" else 3000
    for _ in range(24 if tier == "quick" else 200):
        g = GR.nullable_tail_family(rng)
        if g.key() not in seen:
            seen.add(g.key())
            gs.append(g)
    for _ in range(n):
        g = GR.random_grammar(rng)
        if g.key() not in seen:
            seen.add(g.key())
            gs.append(g)
    return gs, rng


def render_spaced(w, rng):
    """token tuple -> text; mostly single spaces, sometimes wider gaps, leading or trailing blanks and newlines
    (positions are part of the comparison)"""
    if not w:
        return rng.choice(["", " ", "\n"])
    r = rng.random()
    if r < 0.6:
        return " ".join(w)
    seps = [rng.choice([" ", "  ", "\n", " \n "]) for _ in w[1:]]
    s = w[0]
    for x, sep in zip(w[1:], seps):
        s += sep + x
    if rng.random() < 0.3:
        s = rng.choice([" ", "\n"]) + s
    if rng.random() < 0.3:
        s = s + rng.choice([" ", "\n"])
    return s


def run(rep, tier, seed):
    gs, rng = make_grammars(tier, seed)
    maxlen = 6 if tier == "quick" else 7
    # ---- scope: needs no disambiguation (GLR-algorithm probe keeps every conflict)
    probe = [Case("p%d" % gi, g.text(), [], algo="GLR", table="LALR_PAGER", run="NONE", flags=dict(ps=0, pse=0),
                  meta=dict(gi=gi)) for gi, g in enumerate(gs)]
    pres = run_cases(probe, "c07probe")
    inscope, n_conf, n_err = [], 0, 0
    for r in pres:
        if r.status == "OK" and r.dump is not None and r.dump.conflicts == 0 and not r.dump.missing_rec:
            inscope.append(r.case.meta["gi"])
        elif r.status == "OK":
            n_conf += 1
        else:
            n_err += 1
    cases, words_of, texts_of = [], {}, {}
    for gi in inscope:
        g = gs[gi]
        valid, longer, invalid, _ = GR.inputs_for(g, rng, maxlen=maxlen, nvalid=24, ninvalid=12)
        words = list(valid) + list(longer)[:3] + list(invalid)
        if () not in words:
            words.append(())
        texts = [render_spaced(w, rng) for w in words]
        words_of[gi], texts_of[gi] = words, texts
        inline = gi % 4 == 0
        cases.append(Case("L%d" % gi, g.text(inline=inline), texts, algo="LR", table="LALR_PAGER", run="LR",
                          flags=dict(ps=0, pse=0, partial=0), meta=dict(gi=gi, side="LR", shape=g.shape)))
        cases.append(Case("G%d" % gi, g.text(inline=inline), texts, algo="GLR", table="LALR_RN", run="GLR",
                          flags=dict(ps=0, pse=0, go=0), meta=dict(gi=gi, side="GLR", shape=g.shape)))
    # ---- byte-level family: string/regex terminals, multi-byte text, Layout rules (whitespace, comments) with EMPTY
    # productions; both parsers get the same lexical strategies (longest match as drawn, grammar order on), so the
    # GLR parser is lexically as deterministic as the LR parser; same scope test (GLR probe, zero conflicts)
    bcases, btexts, bgl = BC.make_byte_cases(tier, seed, 7, n_random=70 if tier == "quick" else 500, layout_prob=0.6,
                                             partial_prob=0.0)
    bprobe = [Case("bp%d" % k, c.grammar, [], algo="GLR", table="LALR_PAGER", run="NONE",
                   flags=dict(ps=0, pse=0, ms=c.flags["ms"]), meta=dict(k=k)) for k, c in enumerate(bcases)]
    n_byte_scope = 0
    for r in run_cases(bprobe, "c07bprobe"):
        if not (r.status == "OK" and r.dump is not None and r.dump.conflicts == 0 and not r.dump.missing_rec):
            continue
        k = r.case.meta["k"]
        c = bcases[k]
        gi = len(gs)
        gs.append(ByteShape("byte:" + c.meta["shape"]))
        inscope.append(gi)
        n_byte_scope += 1
        texts = [t[0] for t in btexts[k]]
        words_of[gi], texts_of[gi] = [(t,) for t in texts], texts
        fl = dict(ps=0, pse=0, ms=c.flags["ms"], lm=c.flags["lm"], go=1, skipws=c.flags["skipws"], partial=0)
        cases.append(Case("L%d" % gi, c.grammar, texts, algo="LR", table="LALR_PAGER", run="LR", flags=dict(fl, match=1),
                          meta=dict(gi=gi, side="LR", shape=gs[gi].shape)))
        cases.append(Case("G%d" % gi, c.grammar, texts, algo="GLR", table="LALR_RN", run="GLR", flags=fl,
                          meta=dict(gi=gi, side="GLR", shape=gs[gi].shape)))
    results = run_cases(cases, "c07")
    by = {}
    for r in results:
        by[(r.case.meta["gi"], r.case.meta["side"])] = r
    fnd = C3.Findings()
    pairs = []       # (gi, i, lr_parsed, glr_parsed)
    n_prog = n_lex_overlap = 0
    for gi in inscope:
        rl, rg = by[(gi, "LR")], by[(gi, "GLR")]
        base = dict(grammar=rl.case.grammar, lr=dict(algo="LR", table="LALR_PAGER"), glr=dict(algo="GLR", table="LALR_RN"))
        if rl.status != "OK" or rl.dump is None or rl.dump.conflicts != 0:
            fnd.add("lr-compile", "conflict-free grammar (GLR probe) but the LR compile failed or reports conflicts",
                    dict(base, status=rl.status, msg=rl.msg[:300]))
            continue
        if rg.status != "OK" or rg.dump is None:
            fnd.add("glr-compile", "conflict-free grammar but the GLR / LALR_RN compile failed", dict(base, status=rg.status, msg=rg.msg[:300]))
            continue
        n_prog += 1
        for i, w in enumerate(words_of[gi]):
            if (rl.skip_from is not None and i >= rl.skip_from) or (rg.skip_from is not None and i >= rg.skip_from):
                continue
            if isinstance(gs[gi], ByteShape):
                # "a grammar that needs no disambiguation": inputs on which lexical disambiguation (priority, most
                # specific, longest match) would have to choose - two terminals match at one offset - are outside the
                # premise (context-aware lexing then depends on the precision of the table, LALR_PAGER vs LALR_RN)
                m = rl.matches.get(i)
                if m is None or any(len(d) > 1 for _, (ws, d) in m.items()):
                    n_lex_overlap += 1
                    continue
            pairs.append((gi, i, parse_lr(rl.results.get(("LR", i))), parse_glr(rg.results.get(("GLR", i)))))
    # ---- (V) the hypotheses of theorem tables_agree on the REAL pair of tables of every grammar
    vjobs, vtags = [], []
    vlist = [gi for gi in inscope if by[(gi, "LR")].dump is not None and by[(gi, "GLR")].dump is not None
             and by[(gi, "LR")].status == "OK" and by[(gi, "GLR")].status == "OK"]
    nvf = max(1, min(NCPU, len(vlist) // 8 + 1))
    for fi in range(nvf):
        body = ["From RV Require Import Spec.Validators Spec.ValidatorsRN.\nOpen Scope nat_scope.\n"]
        tags = []
        for gi in vlist[fi::nvf]:
            dl, dg = by[(gi, "LR")].dump, by[(gi, "GLR")].dump
            body.append("Eval vm_compute in let g := %s in [wf_grammar_b g; sound_b g (%s); complete_b g (%s); "
                        "sound_rn_b g (%s); complete_rn_b g (%s); rn_complete_b g (%s)]." % (
                            gl_grammar(dl), gl_table(dl), gl_table(dl), gl_table(dg), gl_table(dg), gl_table(dg)))
            tags.append(gi)
        vjobs.append(("c07tab_%d" % fi, "\n".join(body) + "\n"))
        vtags.append(tags)
    n_tab = n_tab_ok = 0
    for tags, (okc, out) in zip(vtags, coq_eval_many(vjobs)):
        ans = parse_bools(out) if okc else []
        if len(ans) != len(tags):
            if tags:
                fnd.add("coq-eval", "evaluation of the table validators failed", dict(err=out[-1500:]), found_input=False)
            continue
        for gi, a in zip(tags, ans):
            n_tab += 1
            if all(a) and len(a) == 6:
                n_tab_ok += 1
            else:
                names = ["wf_grammar_b", "sound_b(LR table)", "complete_b(LR table)", "sound_rn_b(GLR table)",
                         "complete_rn_b(GLR table)", "rn_complete_b(GLR table: right-nulled reductions present)"]
                fnd.add("table-validator", "a hypothesis of theorem tables_agree is false on the real tables: %s" %
                        ", ".join(n for n, b in zip(names, a) if not b),
                        dict(grammar=by[(gi, "LR")].case.grammar, flags=by[(gi, "LR")].case.flags,
                             obligation="Properties.C07.tables_agree"), found_input=False)
    # ---- first-order comparison in Python (Ok/Err, solutions, error positions); trees in Coq
    tree_jobs = []
    n_inputs = n_ok = n_err_in = n_exp_diff = n_rn = 0
    shapes, samples = {}, []
    for gi, i, a, b in pairs:
        g = gs[gi]
        base = dict(grammar=by[(gi, "LR")].case.grammar, flags=by[(gi, "LR")].case.flags, input=texts_of[gi][i],
                    tokens=" ".join(words_of[gi][i]))
        n_inputs += 1
        if a["kind"] not in ("OK", "ERR") or b["kind"] not in ("OK", "ERR"):
            fnd.add("runtime-" + (a["kind"] if a["kind"] not in ("OK", "ERR") else b["kind"]).lower(),
                    "a runtime did not return a result on a conflict-free grammar",
                    dict(base, lr=a.get("raw", a["kind"])[:300], glr=b.get("raw", b["kind"])[:300]))
            continue
        if a["kind"] != b["kind"]:
            fnd.add("ok-err-differ", "LR and GLR disagree on acceptance of the input",
                    dict(base, lr=a["kind"], glr=b["kind"], lr_raw=a.get("raw", "")[:200], glr_raw=b.get("raw", "")[:200]))
            continue
        if a["kind"] == "ERR":
            n_err_in += 1
            if a["pos"] is None or b["pos"] is None or a["pos"] != b["pos"]:
                fnd.add("error-position-differs", "LR and GLR report the syntax error at different positions",
                        dict(base, lr=a.get("raw"), glr=b.get("raw")))
            elif a["exp"] != b["exp"]:
                n_exp_diff += 1
            continue
        n_ok += 1
        if b["n"] != 1 or len(b["trees"]) != 1:
            fnd.add("glr-solutions-not-1", "GLR reports %d solutions for an input of a conflict-free grammar" % b["n"],
                    dict(base, solutions=b["n"], ambiguities=b["amb"]))
            continue
        tree_jobs.append((gi, i, a["tree"], b["trees"][0], base))
        shapes[g.shape] = shapes.get(g.shape, 0) + 1
    # ---- trees: Coq evaluates the comparison
    res = eval_trees(tree_jobs)
    n_cmp = 0
    for (gi, i, ta, tb, base), ans in zip(tree_jobs, res):
        if ans is None or len(ans) != 3:
            fnd.add("coq-eval", "Coq evaluation failed", dict(base, answer=ans), found_input=False)
            continue
        n_cmp += 1
        if count_nodes(ta) != count_nodes(tb):
            n_rn += 1
        if len(samples) < 4 and count_nodes(ta) != count_nodes(tb) and gs[gi].shape not in [s["shape"] for s in samples]:
            samples.append(dict(shape=gs[gi].shape, grammar=base["grammar"], input=base["input"],
                                lr_tree=gl_atree(ta), glr_tree=gl_atree(tb), verdict="equal modulo elided trailing empty children"))
        if ans[0]:
            continue
        pay = dict(base, lr_tree=gl_atree(ta), glr_tree=gl_atree(tb))
        if not ans[2]:
            fnd.add("tree-differs", "LR and GLR build different derivation trees (productions/tokens), even modulo elision", pay)
        elif ans[1]:
            fnd.add("empty-node-span-differs", "LR and GLR trees agree except for the span of a node deriving the empty string", pay)
        else:
            fnd.add("span-or-value-differs", "LR and GLR trees have the same shape but a non-empty node or a token differs "
                    "in span (byte/line/column) or value", pay)
    fnd.report(rep)
    if len(samples) < 2:
        for (gi, i, ta, tb, base) in tree_jobs[:2]:
            samples.append(dict(shape=gs[gi].shape, grammar=base["grammar"], input=base["input"], lr_tree=gl_atree(ta)))
    pt = rep.theorems or {}
    nthm = len(pt.get("theorems", []))
    rep.coverage = dict(
        explanation="PROVED in Coq (unbounded): the comparison relation (equality modulo elided trailing empty children, "
                    "spans and token values included) is an equivalence decided by a normal form and refines the relation "
                    "on plain derivation trees; with lr_unique (C01) the LR tree is the unique derivation tree. NOT proved: "
                    "that the GLR runtime returns that tree (needs the RNGLR completeness half of C03). That is decided by "
                    "exploration: every evaluation runs BOTH real runtimes (LRParser on the LALR_PAGER table, GlrParser on "
                    "the LALR_RN table of the same grammar) on the same input and compares outcomes; trees are compared "
                    "inside Coq.",
        obligations=nthm + n_inputs, discharged=(pt.get("closed", 0) if not rep.violations else 0) + n_err_in + n_cmp,
        checker_cmd="make -C coq Properties/C07.vo ; coqc work/c07_*.v (vm_compute)",
        trusted_base=TRUSTED_BASE,
        theorems=pt.get("theorems", []),
        programs=n_prog, evaluations=n_inputs, distinct_nontrivial=n_cmp,
        rule="grammars: corpus + right-nulled shapes + structured random BNF without annotations; in scope iff the real "
             "compiler with the GLR algorithm (no shift preference), table LALR_PAGER, reports zero conflicts; inputs: "
             "sentences <= %d tokens, sampled longer sentences, mutated non-sentences, the empty input, rendered with "
             "varying whitespace/newlines; non-trivial = inputs both runtimes accepted and whose trees were compared "
             "(spans, values) in Coq" % maxlen,
        grammars_generated=len(gs), grammars_in_scope=len(inscope), byte_level_grammars_in_scope=n_byte_scope,
        byte_level_inputs_skipped_lexical_overlap=n_lex_overlap, table_pairs_validated=n_tab, table_pairs_passing_all_hypotheses_of_tables_agree=n_tab_ok, grammars_with_conflicts=n_conf,
        grammars_compiler_error=n_err, shapes=shapes,
        inputs_accepted_by_both=n_ok, inputs_rejected_by_both=n_err_in, trees_compared=n_cmp,
        trees_with_elided_children=n_rn, expected_set_differs_same_position=n_exp_diff, samples=samples)
    rep.assumptions = [
        "token level: terminals are distinct one-letter string recognizers; whitespace (blanks, newlines) between tokens varies",
        "layout (whitespace attached to tree nodes) is NOT compared: the LR builder stores the preceding whitespace on leaves, "
        "the GLR forest stores none on leaves; the property text speaks of productions, tokens and spans (C14 covers layout)",
        "on errors only the position (byte, line, column) is compared; the expected-token sets are counted when they differ "
        "(the two tables differ: LALR_PAGER vs LALR_RN)"]


def count_nodes(t):
    return 1 if t[0] == "T" else 1 + sum(count_nodes(c) for c in t[2])


def eval_trees(jobs, per_file=None):
    if not jobs:
        return []
    nfiles = max(1, min(NCPU, len(jobs) // 50 + 1))
    chunks = [jobs[k::nfiles] for k in range(nfiles)]
    files = []
    for fi, ch in enumerate(chunks):
        body = [HEADER]
        for (gi, i, ta, tb, base) in ch:
            body.append("Eval vm_compute in c07_compare_b (%s) (%s)." % (gl_atree(ta), gl_atree(tb)))
        files.append(("c07_%d" % fi, "\n".join(body) + "\n"))
    outs = coq_eval_many(files)
    res = [None] * len(jobs)
    for fi, (ok, out) in enumerate(outs):
        idxs = list(range(fi, len(jobs), nfiles))
        ans = parse_bools(out) if ok else []
        for k, j in enumerate(idxs):
            res[j] = ans[k] if ok and k < len(ans) and len(ans) == len(idxs) else None
    return res


def replay(rep, path):
    p = json.load(open(path))
    inp = p.get("input", "")
    fl = p.get("flags")
    cs = [Case("L", p["grammar"], [inp], algo="LR", table="LALR_PAGER", run="LR", flags=fl or dict(ps=0, pse=0, partial=0)),
          Case("G", p["grammar"], [inp], algo="GLR", table="LALR_RN", run="GLR", flags=fl or dict(ps=0, pse=0, go=0))]
    rl, rg = run_cases(cs, "c07replay", shards=1)
    a, b = rl.results.get(("LR", 0)), rg.results.get(("GLR", 0))
    print("LR     :", (a or rl.status)[:1500])
    print("GLR    :", (b or rg.status)[:1500])
    pa, pb = parse_lr(a), parse_glr(b)
    if pa["kind"] == "OK" and pb["kind"] == "OK" and pb["trees"]:
        ans = eval_trees([(0, 0, pa["tree"], pb["trees"][0], {})])
        print("oracle : [equal mod elision incl. spans/values; equal with empty-node spans blanked; equal as plain trees] =", ans[0])
    rep.coverage = dict(obligations=1, discharged=1, checker_cmd="replay", trusted_base=[], explanation="replay",
                        evaluations=1, distinct_nontrivial=1)
