"""C02 — every successful LR parse yields a valid derivation tree of the consumed input.

(T) Properties/C02.v: lr_sound, partial_refines (unbounded).
(V) sound_b / wf_grammar_b evaluated by vm_compute on the REAL table of every generated grammar
    (ambiguous grammars resolved by priorities / associativity / prefer_shifts / nops / nopse).
(C) real LRParser+StringLexer+TreeBuilder outcome == Gallina model outcome on every input; every
    real Ok tree is judged by the verified oracle derivation_b; partial parsing checked against full."""
import os
import random

from rvlib import *  # noqa
import grammars as GR
import lrcommon as LC
import bytecommon as BC
from common import TRUSTED_BASE

LEVEL = "proof"


def make_cases(tier, seed):
    rng = random.Random(seed * 7919 + 2)
    gs = list(GR.corpus())
    nrand, nann, nexpr = (50, 40, 10) if tier == "quick" else (400, 400, 60)
    for _ in range(nrand):
        gs.append(GR.random_grammar(rng))
    for _ in range(nann):
        gs.append(GR.annotate(rng, GR.random_grammar(rng)))
    for _ in range(nexpr):
        gs.append(GR.expr_grammar(rng))
    cases, toks = [], []
    seen = set()
    for gi, g in enumerate(gs):
        table = rng.choice(["LALR", "LALR_PAGER"])
        flags = dict(ps=rng.random() < 0.5, pse=rng.random() < 0.6, partial=0)
        key = (g.key(), table, flags["ps"], flags["pse"])
        if key in seen:
            continue
        seen.add(key)
        valid, longer, invalid, _ = GR.inputs_for(g, rng, maxlen=5 if tier == "quick" else 6)
        words = list(valid) + list(longer) + list(invalid)
        for partial in (0, 1):
            fl = dict(flags, partial=partial, seq=1)
            cid = "g%d_%s_p%d" % (gi, table, partial)
            cases.append(Case(cid, g.text(inline=(gi % 3 == 0)), [GR.render(w) for w in words],
                              algo="LR", table=table, run="LR", flags=fl,
                              meta=dict(shape=g.shape, gi=gi)))
            toks.append(words)
    return cases, toks


PLUMB_GRAMMARS = {
    "plain": "S: Word+;\nterminals\nWord: /[a-z]+/;\n",
    "layout": "S: Word+;\nLayout: LayoutItem+;\nLayoutItem: WS | Comment;\nterminals\nWord: /[a-z]+/;\nWS: /\\s+/;\n"
              "Comment: /\\/\\/.*/;\n",
}


def parser_plumbing(rep):
    """What the runtime consumes is configured in the GENERATED parser: StringLexer::new(<skip_ws>, ..) and
    LRParser::new(.., <partial_parse>, <has_layout>, ..) / GlrParser::new(.., <partial_parse>, <has_layout>, ..).
    (The harness drives the runtimes with these values directly; this closes the gap to the code the generator writes.)
    For every grammar x algorithm x skip_ws x partial_parse the real generator (rvgen) writes a parser and the three
    constants must be: skip_ws = setting AND no Layout rule, partial_parse = setting, has_layout = grammar has Layout."""
    import itertools
    import re
    import genlib as GL
    n = 0
    b = lambda x: "true" if x else "false"
    for (gname, gtext), algo, sk, pp in itertools.product(PLUMB_GRAMMARS.items(), ["lr", "glr"], [0, 1], [0, 1]):
        d = GL.fresh_dir("c02plumb", "%s_%s_%d%d" % (gname, algo, sk, pp))
        gpath = os.path.join(d, "plumb.rustemo")
        with open(gpath, "w") as f:
            f.write(gtext)
        calls = ["in_source_tree", "force:true", "parser_algo:" + algo, "skip_ws:" + b(sk), "partial_parse:" + b(pp),
                 "builder_type:generic"]
        r = GL.rvgen(["gen", gpath] + calls)
        src = os.path.join(d, "plumb.rs")
        payload = dict(grammar=gtext, settings=calls)
        if r.result != "OK" or not os.path.exists(src):
            rep.violation("plumbing-generator", "the generator did not write a parser for the plumbing grammar",
                          dict(payload, result=r.result, msg=r.msg[:300]), found_input=False)
            continue
        text = " ".join(open(src).read().split())
        has_layout = gname == "layout"
        m1 = re.search(r"StringLexer::new\(\s*(true|false)\s*,", text)
        if algo == "lr":
            m2 = re.search(r"LRParser::new\(\s*&PARSER_DEFINITION\s*,\s*State::default\(\)\s*,\s*(true|false)\s*,\s*(true|false)\s*,", text)
        else:
            m2 = re.search(r"GlrParser::new\(\s*&PARSER_DEFINITION\s*,\s*(true|false)\s*,\s*(true|false)\s*,", text)
        got = dict(skip_ws=m1.group(1) if m1 else None, partial_parse=m2.group(1) if m2 else None,
                   has_layout=m2.group(2) if m2 else None)
        want = dict(skip_ws=b(sk and not has_layout), partial_parse=b(pp), has_layout=b(has_layout))
        n += 1
        if got != want:
            rep.violation("parser-setting-not-plumbed", "the generated parser is not constructed with the configured "
                          "whitespace skipping / partial parsing / layout flags (what the parser consumes, and which "
                          "tree it returns, depends on them)", dict(payload, expected=want, generated=got))
    return n


def run(rep, tier, seed):
    cases, toks = make_cases(tier, seed)
    results = run_cases(cases, "c02")
    accepted, rejected, errors = [], 0, 0
    shapes = {}
    for r, w in zip(results, toks):
        if r.status == "OK" and r.dump is not None and r.dump.conflicts == 0 and not r.dump.missing_rec:
            accepted.append((r.case.id, r, w))
            shapes[r.case.meta["shape"]] = shapes.get(r.case.meta["shape"], 0) + 1
        elif r.status == "OK":
            rejected += 1
        else:
            errors += 1
            if r.status in ("PANIC", "TIMEOUT", "CRASH", "MISSING"):
                rep.notes.append("compiler %s on case %s (C16's business): %s" % (r.status, r.case.id, r.msg[:100]))
    ev = LC.eval_cases("c02", accepted)
    n_inputs = n_ok = n_err = n_other = 0
    n_val = 0
    samples = []
    full_results = {}
    for tag, r, w in accepted:
        e = ev.get(tag)
        base = dict(grammar=r.case.grammar, table=r.case.table, flags=r.case.flags)
        if e is None or "error" in e:
            rep.violation("coq-eval", "Coq evaluation of the case failed", dict(base, err=(e or {}).get("error")),
                          found_input=False)
            continue
        n_val += 1
        if not e["vals"][0]:
            rep.violation("wf_grammar", "dumped grammar is not well-formed (wf_grammar_b = false)", base, found_input=False)
            continue
        sound = e["vals"][1]
        bad_tree = None
        for i, okb in e["oracle"].items():
            if not okb:
                bad_tree = i
                break
        if bad_tree is not None:
            rep.violation("not-a-derivation",
                          "real LR parser returned Ok with a tree that is not a derivation of the consumed input",
                          dict(base, input=GR.render(w[bad_tree]), real=r.results.get(("LR", bad_tree))))
            continue
        if not sound:
            # the table no longer validates: look for a concrete input whose real tree is wrong
            found = search_unsound(rep, r, base)
            if not found:
                rep.violation("sound_b", "sound_b is false on the real table (lr_sound no longer applies)",
                              dict(base, obligation="Spec.Validators.sound_b / Properties.C02.lr_sound"),
                              found_input=False)
            continue
        for i, okb in enumerate(e["corr"]):
            n_inputs += 1
            out = r.results.get(("LR", i), "")
            if out.startswith("OK"):
                n_ok += 1
            elif out.startswith("ERR"):
                n_err += 1
            else:
                n_other += 1
            if not okb:
                model = LC.show_model_outcome(r, w[i], r.case.flags.get("partial", 0))
                rep.violation("corr-lr", "real LRParser and the Gallina LR model disagree",
                              dict(base, input=GR.render(w[i]), real=out, model=model,
                                   obligation="correspondence Model.LR.run vs rustemo::LRParser"),
                              found_input=False)
                break
        full_results[tag] = r
        if len(samples) < 4 and r.case.meta["shape"] not in [s["shape"] for s in samples]:
            samples.append(dict(shape=r.case.meta["shape"], grammar=r.case.grammar, table=r.case.table,
                                flags=r.case.flags, input=GR.render(w[0]) if w else "",
                                real=r.results.get(("LR", 0), "")[:200]))
    # one parser instance used for the whole input sequence must answer as fresh parsers do
    n_seq = 0
    n_seq_skipped = 0
    for tag, r, w in accepted:
        if any(not str(r.results.get(("LR", i), "")).startswith(("OK", "ERR")) for i in range(len(w))):
            # some input of the sequence does not return even on a fresh parser (C15's subject, reported there): the
            # harness loses the whole reused-parser sequence with it, so there is nothing to compare
            n_seq_skipped += 1
            continue
        for i in range(len(w)):
            a, b = r.results.get(("LR", i)), r.results.get(("LRS", i))
            if a is None or b is None:
                continue
            n_seq += 1
            if a != b:
                rep.violation("reused-parser-differs", "a parser instance that already parsed other inputs returns a "
                              "different result (for Ok: a tree that is not the derivation of this input)",
                              dict(grammar=r.case.grammar, table=r.case.table, flags=r.case.flags,
                                   sequence=[GR.render(x) for x in w[:i + 1]], input=GR.render(w[i]), fresh=a, reused=b))
                break
    # partial parsing never turns an accepted input into a rejected / differently parsed one (real code)
    n_partial_pairs = 0
    byid = {tag: (r, w) for tag, r, w in accepted}
    for tag, (r, w) in byid.items():
        if tag.endswith("_p0"):
            other = byid.get(tag[:-1] + "1")
            if other is None:
                continue
            r1 = other[0]
            for i in range(len(w)):
                a, b = r.results.get(("LR", i), ""), r1.results.get(("LR", i), "")
                if a.startswith("OK"):
                    n_partial_pairs += 1
                    if a != b:
                        rep.violation("partial-changes-result",
                                      "enabling partial parsing changed the result of an accepted input",
                                      dict(grammar=r.case.grammar, table=r.case.table, flags=r.case.flags,
                                           input=GR.render(w[i]), full=a, partial=b))
                        break
    # the same statement at byte level with real lexical structure and Layout rules: partial parsing on/off
    bcases, btexts, _ = BC.make_byte_cases(tier, seed, 2, n_random=40 if tier == "quick" else 300, layout_prob=0.5,
                                           partial_prob=0.0)
    pairs = []
    for c in bcases:
        c.flags["match"] = 0
        c2 = Case(c.id + "_partial", c.grammar, c.inputs, algo=c.algo, table=c.table, run=c.run,
                  flags=dict(c.flags, partial=1), meta=c.meta)
        pairs.append((c, c2))
    bres = run_cases([c for pr in pairs for c in pr], "c02b")
    n_byte_pairs = 0
    for k in range(0, len(bres), 2):
        r0, r1 = bres[k], bres[k + 1]
        if r0.status != "OK" or r0.dump is None or r0.dump.conflicts != 0:
            continue
        for i, text in enumerate(r0.case.inputs):
            a, b = r0.results.get(("LR", i), ""), r1.results.get(("LR", i), "")
            if a.startswith("OK"):
                n_byte_pairs += 1
                if a != b:
                    rep.violation("partial-changes-result",
                                  "enabling partial parsing changed the result of an accepted input",
                                  dict(grammar=r0.case.grammar, table=r0.case.table, flags=r0.case.flags, input=text,
                                       full=a, partial=b))
                    break
    n_plumb = parser_plumbing(rep)
    pt = rep.theorems or {}
    nthm = len(pt.get("theorems", []))
    rep.coverage = dict(
        obligations=nthm + n_val, discharged=(pt.get("closed", 0) if not rep.violations else 0) + n_val,
        checker_cmd="make -C coq Properties/C02.vo ; coqc work/c02_*.v (vm_compute)",
        trusted_base=TRUSTED_BASE,
        theorems=pt.get("theorems", []),
        programs=n_val, evaluations=n_inputs, distinct_nontrivial=n_ok,
        rule="grammars: corpus + structured random BNF (+ random priorities/assoc/nops/nopse) x {LALR,LALR_PAGER} x "
             "prefer_shifts x prefer_shifts_over_empty x partial; accepted = real compiler reports no conflict; "
             "inputs: all sentences <= 5 tokens (sampled), longer sampled sentences, mutated non-sentences; "
             "non-trivial = inputs the real parser accepted (a tree was built and judged by derivation_b)",
        grammars_generated=len(cases), grammars_accepted=len(accepted), grammars_rejected_conflicts=rejected,
        grammars_compiler_error=errors, shapes=shapes,
        inputs_ok=n_ok, inputs_err=n_err, inputs_other=n_other, partial_pairs_compared=n_partial_pairs, byte_level_partial_pairs_compared=n_byte_pairs, reused_parser_results_compared=n_seq, generated_parser_setting_configurations_checked=n_plumb, reused_parser_sequences_skipped_hang=n_seq_skipped,
        samples=samples)
    rep.assumptions = ["token-level: each terminal is a distinct one-letter string recognizer, tokens separated by "
                       "one space (lexical disambiguation is C06's subject)",
                       "validators and model evaluated by Coq's vm_compute on Gallina terms printed from the real dump"]


def search_unsound(rep, r, base):
    """sound_b failed: try all short strings on the real parser and judge every Ok tree with the oracle."""
    import itertools
    nterm = r.dump.nterm - 1
    letters = GR.TERMS[:nterm]
    words = []
    for n in range(0, 6):
        for w in itertools.product(letters, repeat=n):
            words.append(w)
            if len(words) >= 1500:
                break
        if len(words) >= 1500:
            break
    c = Case("search", r.case.grammar, [GR.render(w) for w in words], algo="LR", table=r.case.table, run="LR",
             flags=r.case.flags)
    rr = run_cases([c], "c02search", shards=1)[0]
    if rr.dump is None:
        return False
    ev = LC.eval_cases("c02search", [("s", rr, words)], per_file=1)
    e = ev.get("s", {})
    for i, okb in (e.get("oracle") or {}).items():
        if not okb:
            rep.violation("not-a-derivation",
                          "real LR parser returned Ok with a tree that is not a derivation of the consumed input",
                          dict(base, input=GR.render(words[i]), real=rr.results.get(("LR", i))))
            return True
    return False


def replay(rep, path):
    import json
    p = json.load(open(path))
    c = Case("replay", p["grammar"], [p.get("input", "")], algo="LR", table=p.get("table", "LALR_PAGER"), run="LR",
             flags=p.get("flags", {}))
    r = run_cases([c], "c02replay", shards=1)[0]
    print("real   :", r.results.get(("LR", 0)))
    if r.dump is not None:
        w = tuple(p.get("input", "").split())
        print("model  :", LC.show_model_outcome(r, w, p.get("flags", {}).get("partial", 0)))
        ev = LC.eval_cases("c02replay", [("r", r, [w])], per_file=1)
        print("oracle :", ev)
    rep.coverage = dict(obligations=1, discharged=1, checker_cmd="replay", trusted_base=[])
