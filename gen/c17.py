"""C17 — generation is deterministic and identical through the command line and the API.

(T) Properties/C17.v: cli_equals_api, setters_as_documented, default_as_documented, cli_panics_iff,
    cli_flags_effective, cli_shift_table_effective_known / _refuted, hash_order_irrelevant_known / _refuted.
    Model/CliGen.v is REGENERATED from main.rs / settings.rs by gen/cli_translate.py in this run; if it differs
    from the committed file the dependent theories are recompiled in a scratch directory, and if they no longer
    compile a concrete failing command line is searched (Spec.CliSpec.sample_cli) and confirmed on the real
    binaries.
(scan) every HashMap / HashSet ITERATION site in rustemo-compiler/src is listed; exactly the one the model covers
    (make_choices_name_unique) is allowed.
(C) the real `Settings` value (Debug rendering) after sampled API call sequences and after the API image of sampled
    command lines equals the Gallina value computed by vm_compute.
(O) sampled (grammar, command line): the real `rcomp` binary and the API (fresh processes, different processing
    orders) must write byte-identical files.                                               LEVEL = other
"""
import hashlib
import json
import os
import random
import re
import shutil
import subprocess
import time
from concurrent.futures import ThreadPoolExecutor

from rvlib import *  # noqa
import gencorpus as GC
import genlib as GL
import cli_translate as CT
from common import TRUSTED_BASE

LEVEL = "other"

TARGET_REPO = os.path.join(CACHE, "target-repo")
RCOMP = os.path.join(TARGET_REPO, "debug", "rcomp")

KEY_HASH = "hash-order:index-clash"
KEY_SHADOW = "cli:glr-shadows-shift-and-table-options"

# ------------------------------------------------------------------------------- (scan)
ITER_METHODS = ("iter", "iter_mut", "into_iter", "keys", "values", "values_mut", "into_keys", "into_values", "drain",
                "retain", "extract_if")
ALLOWED_SITES = {("grammar/types/mod.rs", "make_choices_name_unique", "name_counts", "iter")}


def scan_hash_iteration(repo):
    root = os.path.join(repo, "rustemo-compiler", "src")
    sites, decls = [], []
    for d, _, files in os.walk(root):
        for f in sorted(files):
            if not f.endswith(".rs"):
                continue
            p = os.path.join(d, f)
            rel = os.path.relpath(p, root)
            src = CT.strip_comments(open(p, errors="replace").read())
            if not re.search(r"Hash(Map|Set)|hashbrown|RandomState", src):
                continue
            names = set()
            for m in re.finditer(r"\b(\w+)\s*:\s*&?\s*(?:mut\s+)?(?:'\w+\s+)?(?:std::collections::)?Hash(?:Map|Set)\b", src):
                names.add(m.group(1))
            for m in re.finditer(r"let\s+(?:mut\s+)?(\w+)\s*(?::[^=;]+)?=\s*[^;]*?Hash(?:Map|Set)\s*(?:::|<)", src):
                names.add(m.group(1))
            for m in re.finditer(r"let\s+(?:mut\s+)?(\w+)\s*=[^;]*collect::<\s*Hash(?:Map|Set)", src):
                names.add(m.group(1))
            names.discard("self")
            decls.append((rel, sorted(names)))

            def fn_at(pos):
                ms = list(re.finditer(r"\bfn\s+(\w+)", src[:pos]))
                return ms[-1].group(1) if ms else "?"

            for n in names:
                for m in re.finditer(r"\b%s\s*\.\s*(%s)\s*\(" % (re.escape(n), "|".join(ITER_METHODS)), src):
                    sites.append((rel, fn_at(m.start()), n, m.group(1), src.count("\n", 0, m.start()) + 1))
                for m in re.finditer(r"\bfor\s+[^;{]*?\bin\s+&?\s*(?:mut\s+)?%s\b" % re.escape(n), src):
                    sites.append((rel, fn_at(m.start()), n, "for", src.count("\n", 0, m.start()) + 1))
            # an unnamed hash collection iterated directly
            for m in re.finditer(r"Hash(?:Map|Set)::[^;]*?\.\s*(%s)\s*\(" % "|".join(ITER_METHODS), src):
                sites.append((rel, fn_at(m.start()), "<temporary>", m.group(1), src.count("\n", 0, m.start()) + 1))
    return sites, decls


# ------------------------------------------------------------------------------- command lines
ENUM_FLAGS = dict(
    table_type=("--table-type", {"LALR": "lalr", "LALR_PAGER": "lalr-pager", "LALR_RN": "lalr-rn"}),
    parser_algo=("--parser-algo", {"LR": "lr", "GLR": "glr"}),
    generator_table_type=("--generator-table-type", {"GArrays": "arrays", "GFunctions": "functions"}),
    lexer_type=("--lexer-type", {"LexDefault": "default", "LexCustom": "custom"}),
    builder_type=("--builder-type", {"BDefault": "default", "BGeneric": "generic", "BCustom": "custom"}))
BOOL_FLAGS = dict(force="--force", dot="--dot", noactions="--noactions", prefer_shifts="--prefer-shifts",
                  no_shifts_over_empty="--no-shifts-over-empty", builder_loc_info="--builder-loc-info",
                  fancy_regex="--fancy-regex", partial_parse="--partial-parse", no_skip_ws="--no-skip-ws",
                  print_table="--print-table")
CLI_DEFAULT = dict(force=False, dot=False, noactions=False, trace=False, outdir_root=None, outdir_actions_root=None,
                   prefer_shifts=False, no_shifts_over_empty=False, table_type="LALR_PAGER", parser_algo="LR",
                   generator_table_type="GFunctions", lexer_type="LexDefault", input_type="str", builder_type="BDefault",
                   builder_loc_info=False, lexical_disamb_most_specific=None, lexical_disamb_longest_match=None,
                   lexical_disamb_grammar_order=None, fancy_regex=False, partial_parse=False, no_skip_ws=False,
                   print_table=False)


def rcomp_args(c):
    a = []
    for k, flag in BOOL_FLAGS.items():
        if c[k]:
            a.append(flag)
    for k, (flag, m) in ENUM_FLAGS.items():
        if c[k] != CLI_DEFAULT[k] or c.get("_explicit_" + k):
            a += [flag, m[c[k]]]
    if c["input_type"] != "str":
        a += ["--input-type", c["input_type"]]
    for k in ("lexical_disamb_most_specific", "lexical_disamb_longest_match", "lexical_disamb_grammar_order"):
        if c[k] is not None:
            a.append("--%s=%s" % (k.replace("_", "-"), "true" if c[k] else "false"))
    if c["outdir_root"] is not None:
        a += ["-o", c["outdir_root"]]
    if c["outdir_actions_root"] is not None:
        a += ["-a", c["outdir_actions_root"]]
    return a


def b(x):
    return "true" if x else "false"


def api_calls(c):
    """Python twin of Spec.CliSpec.api_of (rvgen call strings, `rcomp --help` order); tied to the Coq definition
    by the settings correspondence below"""
    calls = ["force:" + b(c["force"]), "dot:" + b(c["dot"]), "actions:" + b(not c["noactions"]), "trace:" + b(c["trace"])]
    if c["outdir_root"] is not None:
        calls.append("out_dir_root:" + c["outdir_root"])
    if c["outdir_actions_root"] is not None:
        calls.append("out_dir_actions_root:" + c["outdir_actions_root"])
    calls += ["prefer_shifts:" + b(c["prefer_shifts"]), "prefer_shifts_over_empty:" + b(not c["no_shifts_over_empty"]),
              "table_type:" + ENUM_FLAGS["table_type"][1][c["table_type"]],
              "parser_algo:" + ENUM_FLAGS["parser_algo"][1][c["parser_algo"]],
              "generator_table_type:" + ENUM_FLAGS["generator_table_type"][1][c["generator_table_type"]],
              "lexer_type:" + ENUM_FLAGS["lexer_type"][1][c["lexer_type"]],
              "input_type:" + c["input_type"],
              "builder_type:" + ENUM_FLAGS["builder_type"][1][c["builder_type"]],
              "builder_loc_info:" + b(c["builder_loc_info"])]
    for k in ("lexical_disamb_most_specific", "lexical_disamb_longest_match", "lexical_disamb_grammar_order"):
        if c[k] is not None:
            calls.append("%s:%s" % (k, b(c[k])))
    calls += ["fancy_regex:" + b(c["fancy_regex"]), "partial_parse:" + b(c["partial_parse"]),
              "skip_ws:" + b(not c["no_skip_ws"]), "print_table:" + b(c["print_table"]), "exclude:"]
    return calls


class Sym:
    """symbolic naturals for strings and paths"""

    def __init__(self):
        self.paths, self.strs = {}, {"str": 0}

    def path(self, p):
        return self.paths.setdefault(p, len(self.paths) + 1)

    def str(self, s):
        return self.strs.setdefault(s, len(self.strs))


def gl_opt(x, f=str):
    return "None" if x is None else "(Some %s)" % f(x)


def gl_cli(c, S):
    return ("(mkCli %s %s %s %s 1 %s %s %s %s %s %s %s %s %d %s %s %s %s %s %s %s %s %s 0 0)" % (
        b(c["force"]), b(c["dot"]), b(c["noactions"]), b(c["trace"]),
        gl_opt(c["outdir_root"], lambda p: str(S.path(p))), gl_opt(c["outdir_actions_root"], lambda p: str(S.path(p))),
        b(c["prefer_shifts"]), b(c["no_shifts_over_empty"]), c["table_type"], c["parser_algo"], c["generator_table_type"],
        c["lexer_type"], S.str(c["input_type"]), c["builder_type"], b(c["builder_loc_info"]),
        gl_opt(c["lexical_disamb_most_specific"], b), gl_opt(c["lexical_disamb_longest_match"], b),
        gl_opt(c["lexical_disamb_grammar_order"], b), b(c["fancy_regex"]), b(c["partial_parse"]), b(c["no_skip_ws"]),
        b(c["print_table"])))


CALL_CTOR = {"table_type": {"lalr": "LALR", "lalr-pager": "LALR_PAGER", "lalr-rn": "LALR_RN"},
             "parser_algo": {"lr": "LR", "glr": "GLR"},
             "generator_table_type": {"arrays": "GArrays", "functions": "GFunctions"},
             "lexer_type": {"default": "LexDefault", "custom": "LexCustom"},
             "builder_type": {"default": "BDefault", "generic": "BGeneric", "custom": "BCustom"}}


def gl_call(call, S):
    n, _, a = call.partition(":")
    if n in ("in_source_tree", "actions_in_source_tree"):
        return "C_" + n
    if n in CALL_CTOR:
        return "C_%s %s" % (n, CALL_CTOR[n][a])
    if n in ("out_dir_root", "out_dir_actions_root", "root_dir"):
        return "C_%s %d" % (n, S.path(a))
    if n == "input_type":
        return "C_input_type %d" % S.str(a)
    if n == "exclude":
        return "C_exclude %d" % (0 if a == "" else S.str("exclude:" + a))
    return "C_%s %s" % (n, a)


def parse_debug(dbg, S):
    """Settings {:?} -> canonical dict comparable with the Coq record"""
    body = dbg[dbg.index("{") + 1:dbg.rindex("}")]
    out = {}
    for m in re.finditer(r'(\w+): (Some\("(?:[^"\\]|\\.)*"\)|"(?:[^"\\]|\\.)*"|\[[^\]]*\]|[^,]+)(?:,|$)', body):
        k, v = m.group(1), m.group(2).strip()
        if v.startswith('Some("'):
            v = "Some %d" % S.path(v[6:-2])
        elif v.startswith('"'):
            v = str(S.str(v[1:-1]))
        elif v.startswith("["):
            inner = v[1:-1].strip()
            v = "0" if not inner else str(S.str("exclude:" + ",".join(x.strip().strip('"') for x in inner.split(","))))
        elif k == "lexer_type":
            v = {"Default": "LexDefault", "Custom": "LexCustom"}[v]
        elif k == "builder_type":
            v = {"Default": "BDefault", "Generic": "BGeneric", "Custom": "BCustom"}[v]
        elif k == "generator_table_type":
            v = {"Arrays": "GArrays", "Functions": "GFunctions"}[v]
        out[k] = v
    return out


def parse_coq_outcomes(out):
    """answers of `Eval vm_compute in (settings_of_… )`"""
    answers, cur = [], None
    for line in out.split("\n"):
        if line.lstrip().startswith("= "):
            if cur is not None:
                answers.append(cur)
            cur = line
        elif cur is not None:
            cur += " " + line
    if cur is not None:
        answers.append(cur)
    res = []
    for a in answers:
        a = re.sub(r"\s+", " ", a)
        m = re.search(r"= SPanic (\w+)", a)
        if m:
            res.append(("PANIC", m.group(1)))
            continue
        d = {}
        for fm in re.finditer(r"s_(\w+) := ([^;|]+?)\s*(?:;|\|\})", a):
            d[fm.group(1)] = fm.group(2).strip()
        res.append(("OK", d))
    return res


PANIC_TEXT = {"P_grammar_order_off_under_lr": "Can't disable grammar order strategy for LR.",
              "P_actions_in_source_tree_non_default_builder": "only available for the default builder type"}


# ------------------------------------------------------------------------------- regenerate CliGen.v, recompile
DEPENDENTS = ["Util.v", "Model/Cli.v", "Model/CliGen.v", "Spec/CliSpec.v", "Model/HashOrder.v", "Proofs/Cli.v",
              "Proofs/HashOrder.v", "Properties/C17.v"]


def regenerate_and_check(rep, J):
    """returns (same_as_committed, scratch_ok or None, log)"""
    try:
        text, fields = CT.translate(REPO)
    except CT.TranslateError as e:
        J["violations"].append(("translator", "main.rs / settings.rs left the Rust subset the CLI model understands: %s" % e,
                                dict(error=str(e)), False))
        return False, False, str(e)
    committed = open(os.path.join(COQDIR, "Model", "CliGen.v")).read()
    if text == committed:
        return True, None, ""
    d = GL.fresh_dir("c17", "coq")
    for f in DEPENDENTS:
        os.makedirs(os.path.dirname(os.path.join(d, f)), exist_ok=True)
        if f == "Model/CliGen.v":
            open(os.path.join(d, f), "w").write(text)
        else:
            shutil.copy(os.path.join(COQDIR, f), os.path.join(d, f))
    log = ""
    for f in DEPENDENTS:
        rc, out = sh(["coqc", "-noglob", "-Q", d, "RV", os.path.join(d, f)], timeout=900, cwd=d)
        log += out
        if rc != 0:
            return False, False, "%s: %s" % (f, out[-3000:])
    return False, True, log


def search_failing_cli(rep):
    """the theorems about the regenerated chain no longer compile: find a concrete command line on which the CLI
    chain and the documented API calls give different settings (model), to be confirmed on the real binaries"""
    d = os.path.join(WORK, "c17", "coq")
    body = ("From RV Require Import Util Model.Cli Model.CliGen Spec.CliSpec.\n"
            "Definition ev0 := mkEnv None None false.\n"
            "Definition same (a b : outcome) : bool := match a, b with\n"
            "  | SPanic _, SPanic _ => true\n"
            "  | SOk x, SOk y => Bool.eqb (s_prefer_shifts x) (s_prefer_shifts y) && Bool.eqb (s_prefer_shifts_over_empty x) (s_prefer_shifts_over_empty y)\n"
            "      && Bool.eqb (s_print_table x) (s_print_table y) && Bool.eqb (s_actions x) (s_actions y) && Bool.eqb (s_builder_loc_info x) (s_builder_loc_info y)\n"
            "      && Bool.eqb (s_lexical_disamb_most_specific x) (s_lexical_disamb_most_specific y) && Bool.eqb (s_lexical_disamb_longest_match x) (s_lexical_disamb_longest_match y)\n"
            "      && Bool.eqb (s_lexical_disamb_grammar_order x) (s_lexical_disamb_grammar_order y) && Bool.eqb (s_partial_parse x) (s_partial_parse y)\n"
            "      && Bool.eqb (s_skip_ws x) (s_skip_ws y) && Bool.eqb (s_force x) (s_force y) && Bool.eqb (s_dot x) (s_dot y) && Bool.eqb (s_fancy_regex x) (s_fancy_regex y)\n"
            "      && Nat.eqb (s_input_type x) (s_input_type y) && Nat.eqb (s_exclude x) (s_exclude y)\n"
            "      && match s_table_type x, s_table_type y with LALR, LALR | LALR_PAGER, LALR_PAGER | LALR_RN, LALR_RN => true | _, _ => false end\n"
            "      && match s_parser_algo x, s_parser_algo y with LR, LR | GLR, GLR => true | _, _ => false end\n"
            "      && match s_lexer_type x, s_lexer_type y with LexDefault, LexDefault | LexCustom, LexCustom => true | _, _ => false end\n"
            "      && match s_builder_type x, s_builder_type y with BDefault, BDefault | BGeneric, BGeneric | BCustom, BCustom => true | _, _ => false end\n"
            "      && match s_generator_table_type x, s_generator_table_type y with GArrays, GArrays | GFunctions, GFunctions => true | _, _ => false end\n"
            "      && match s_out_dir_root x, s_out_dir_root y with None, None => true | Some p, Some q => Nat.eqb p q | _, _ => false end\n"
            "      && match s_out_dir_actions_root x, s_out_dir_actions_root y with None, None => true | Some p, Some q => Nat.eqb p q | _, _ => false end\n"
            "  | _, _ => false end.\n"
            "Eval vm_compute in (hd_error (filter (fun c => negb (same (settings_of_cli ev0 c) (settings_of_api ev0 (api_of c)))) sample_cli)).\n")
    p = os.path.join(d, "search.v")
    open(p, "w").write(body)
    rc, out = sh(["coqc", "-noglob", "-Q", d, "RV", p], timeout=600, cwd=d)
    if rc != 0:
        return None, out[-2000:]
    m = re.search(r"= Some\s*\{\|(.*?)\|\}", out, re.S)
    if not m:
        return None, out[-2000:]
    c = dict(CLI_DEFAULT)
    for fm in re.finditer(r"c_(\w+) := ([^;]+?)\s*(?:;|$)", re.sub(r"\s+", " ", m.group(1))):
        k, v = fm.group(1), fm.group(2).strip()
        if k not in c:
            continue
        if v in ("true", "false"):
            c[k] = v == "true"
        elif v == "None":
            c[k] = None
        elif v.startswith("Some"):
            vv = v[4:].strip()
            c[k] = (vv == "true") if vv in ("true", "false") else "OUTDIR"
        elif k == "input_type":
            c[k] = "str" if v == "0" else "[u8]"
        else:
            c[k] = v
    return c, out[-1500:]


# ------------------------------------------------------------------------------- (O) real runs
C17_GRAMMARS = {
    # S/R conflict: prefer_shifts / GLR matter
    "ambig": "E: E '+' E | Num;\nterminals\nNum: /\\d+/;\nPlus: '+';\n",
    # duplicated production kinds whose indexed names clash: X, X, X1, X1  (DESIGN.md F8)
    "clash": "S: A {X} | B {X} | C {X1} | D {X1};\nterminals\nA: /a/;\nB: /b+/;\nC: /c+/;\nD: /d+/;\n",
}


def grammar_text(name):
    return C17_GRAMMARS[name] if name in C17_GRAMMARS else GC.text(name)


def outputs_of(d):
    """{relative file name: bytes} of everything generated in d (not the grammar)"""
    out = {}
    for root, _, files in os.walk(d):
        for f in files:
            if f.endswith(".rustemo"):
                continue
            p = os.path.join(root, f)
            out[os.path.relpath(p, d)] = open(p, "rb").read()
    return out


def run_rcomp(d, gname, c):
    g = os.path.join(d, gname + ".rustemo")
    open(g, "w").write(grammar_text(gname))
    cc = dict(c)
    for k in ("outdir_root", "outdir_actions_root"):
        if cc[k] is not None:
            cc[k] = os.path.join(d, cc[k])
    p = subprocess.run([RCOMP] + rcomp_args(cc) + [g], stdout=subprocess.PIPE, stderr=subprocess.PIPE, text=True,
                       errors="replace", env=GL.clean_env(), timeout=120, cwd=d)
    if p.returncode == 101 or "panicked at" in p.stderr:
        m = re.search(r"panicked at [^\n]*\n([^\n]*)", p.stderr)
        status = ("PANIC", m.group(1).strip() if m else p.stderr[-200:])
    elif "Parser(s) not generated." in p.stdout:
        lines = [l for l in p.stdout.strip().split("\n") if l.strip()]
        status = ("ERR", lines[-2] if len(lines) >= 2 else "")
    elif p.returncode != 0:
        status = ("USAGE", p.stderr[-300:])
    else:
        status = ("OK", "")
    return status, outputs_of(d), p.stdout


def run_api(d, gname, c, extra_first=()):
    g = os.path.join(d, gname + ".rustemo")
    open(g, "w").write(grammar_text(gname))
    cc = dict(c)
    for k in ("outdir_root", "outdir_actions_root"):
        if cc[k] is not None:
            cc[k] = os.path.join(d, cc[k])
    calls = api_calls(cc)
    if extra_first:
        # other grammars processed first in the same process (processing order)
        others = []
        for n in extra_first:
            og = os.path.join(d, "other_" + n, n + ".rustemo")
            os.makedirs(os.path.dirname(og), exist_ok=True)
            open(og, "w").write(grammar_text(n))
            others.append(og)
        r = GL.rvgen(["multi"] + calls + ["--"] + others + [g])
        res = r.results[-1] if r.results else (None, "")
        for n in extra_first:
            shutil.rmtree(os.path.join(d, "other_" + n))
    else:
        r = GL.rvgen(["gen", g] + calls)
        res = (r.result, r.msg)
    if r.settings_panic is not None:
        status = ("PANIC", r.settings_panic)
    else:
        status = (res[0], res[1])
    return status, outputs_of(d), r


def status_class(st):
    k, m = st
    if k == "ERR":
        # messages carry absolute paths of the work directories
        m = re.sub(r"/[^\s'\":]*?/(?=[\w.]+\.(rustemo|rs)\b)", "", m)
    return (k, m)


def sample_cli(rng, n):
    out = []
    # fixed ones first: defaults; GLR with shadowed options; panic; outdir without cargo
    fixed = [
        ("enumstruct", {}),
        ("calc", dict(force=True, dot=True, builder_loc_info=True, generator_table_type="GArrays")),
        ("ambig", dict(prefer_shifts=True)),
        ("ambig", dict(parser_algo="GLR", prefer_shifts=True, table_type="LALR", _explicit_table_type=True)),
        ("ambig", dict(parser_algo="GLR")),
        ("json", dict(parser_algo="GLR", lexical_disamb_grammar_order=True, partial_parse=True)),
        ("vec", dict(lexical_disamb_grammar_order=False)),
        ("vec", dict(no_skip_ws=True, noactions=True)),
        ("sugar", dict(builder_type="BGeneric", print_table=True)),
        ("named", dict(builder_type="BCustom", lexer_type="LexCustom", input_type="[u8]")),
        ("layout", dict(outdir_root="out")),
        ("optenum", dict(outdir_actions_root="act", force=True)),
    ]
    for g, kv in fixed:
        c = dict(CLI_DEFAULT)
        c.update(kv)
        out.append((g, c))
    gnames = [x for x in GC.names() if x not in ("dupkinds", "snakeclash")] + ["ambig"]
    for _ in range(n):
        c = dict(CLI_DEFAULT)
        for k in BOOL_FLAGS:
            c[k] = rng.random() < 0.25
        c["table_type"] = rng.choice(["LALR", "LALR_PAGER", "LALR_PAGER", "LALR_RN"])
        c["parser_algo"] = rng.choice(["LR", "LR", "GLR"])
        c["generator_table_type"] = rng.choice(["GArrays", "GFunctions"])
        c["builder_type"] = rng.choice(["BDefault", "BDefault", "BDefault", "BGeneric", "BCustom"])
        if rng.random() < 0.2:
            c["lexer_type"], c["input_type"] = "LexCustom", rng.choice(["str", "[u8]"])
        for k in ("lexical_disamb_most_specific", "lexical_disamb_longest_match", "lexical_disamb_grammar_order"):
            c[k] = rng.choice([None, None, True, False])
        if c["parser_algo"] == "LR" and c["lexical_disamb_grammar_order"] is False and rng.random() < 0.7:
            c["lexical_disamb_grammar_order"] = None
        out.append((rng.choice(gnames), c))
    return out


def build_rcomp():
    rc, out = sh(["cargo", "build", "--offline", "--manifest-path", os.path.join(REPO, "Cargo.toml"), "-p", "rustemo-compiler",
                  "--bin", "rcomp", "-j%d" % NCPU], env={"CARGO_TARGET_DIR": TARGET_REPO}, timeout=3000)
    return rc == 0 and os.path.exists(RCOMP), out


def api_sequences(rng, n):
    """random API call sequences incl. the order dependent setters"""
    pool = ["in_source_tree", "actions_in_source_tree", "force:true", "force:false", "parser_algo:glr", "parser_algo:lr",
            "prefer_shifts:true", "prefer_shifts_over_empty:false", "prefer_shifts_over_empty:true", "table_type:lalr",
            "table_type:lalr-rn", "lexical_disamb_grammar_order:true", "lexical_disamb_grammar_order:false",
            "builder_type:generic", "builder_type:custom", "builder_type:default", "out_dir_root:/x/out",
            "out_dir_actions_root:/x/act", "root_dir:/x", "builder_loc_info:true", "lexer_type:custom", "input_type:[u8]",
            "generator_table_type:arrays", "actions:false", "dot:true", "trace:false", "partial_parse:true", "skip_ws:false",
            "fancy_regex:true", "print_table:true", "lexical_disamb_most_specific:false",
            "lexical_disamb_longest_match:false", "exclude:a,b"]
    fixed = [[], ["in_source_tree"], ["force:true", "in_source_tree"], ["in_source_tree", "force:true"],
             ["builder_type:generic", "in_source_tree"], ["builder_type:generic", "actions_in_source_tree"],
             ["parser_algo:glr", "prefer_shifts:true"], ["prefer_shifts:true", "parser_algo:glr"],
             ["lexical_disamb_grammar_order:false"], ["parser_algo:glr", "lexical_disamb_grammar_order:false", "parser_algo:lr"],
             ["actions_in_source_tree", "builder_type:custom", "in_source_tree"]]
    return fixed + [[rng.choice(pool) for _ in range(rng.randint(1, 7))] for _ in range(n)]


# ------------------------------------------------------------------------------- entry points
def run(rep, tier, seed):
    rng = random.Random(seed * 2654435761 % (1 << 31) + 17)
    t_start = time.time()
    J = dict(violations=[])
    found = {}

    def hit(key, what, payload, found_input=True):
        if key not in found:
            found[key] = (what, payload, found_input, 1)
        else:
            w, p, fi, n = found[key]
            found[key] = (w, p, fi, n + 1)

    # (scan)
    sites, decls = scan_hash_iteration(REPO)
    site_keys = set((f, fn, n, m) for f, fn, n, m, _ in sites)
    for s in sites:
        if (s[0], s[1], s[2], s[3]) not in ALLOWED_SITES:
            hit("hash-iteration-site:%s:%s:%s" % (s[0], s[1], s[2]),
                "a HashMap/HashSet is iterated at a site the model does not cover (iteration order is per process)",
                dict(site="%s:%d fn %s: %s.%s()" % (s[0], s[4], s[1], s[2], s[3]), all_sites=[list(x) for x in sites]),
                found_input=False)
    missing_sites = [a for a in ALLOWED_SITES if a not in site_keys]

    # (T') regenerate CliGen.v from the sources of this run
    same, scratch_ok, log = regenerate_and_check(rep, J)
    for key, what, payload, fi in J["violations"]:
        hit(key, what, payload, fi)
    failing_cli = None
    if not same and scratch_ok is False and not J["violations"]:
        failing_cli, slog = search_failing_cli(rep)

    # harness / rcomp
    ok, out = build_rcomp()
    if not ok or not os.path.exists(GL.RVGEN):
        rep.violation("harness-build", "rcomp / rvgen could not be built", dict(log=out[-3000:]), found_input=False)
        rep.coverage = dict(obligations=1, discharged=0, checker_cmd="cargo build", trusted_base=[], explanation="build failed",
                            evaluations=0, distinct_nontrivial=0)
        return

    # (C) settings correspondence
    S = Sym()
    nseq, ncli = (40, 40) if tier == "quick" else (400, 300)
    seqs = api_sequences(rng, nseq)
    clis = sample_cli(rng, ncli)
    if failing_cli is not None:
        clis.insert(0, ("ambig", failing_cli))
    with ThreadPoolExecutor(max_workers=NCPU) as ex:
        real_seq = list(ex.map(lambda q: GL.rvgen(["settings"] + q), seqs))
        real_cli = list(ex.map(lambda gc: GL.rvgen(["settings"] + api_calls(gc[1])), clis))
    lines = ["From RV Require Import Util Model.Cli Model.CliGen Spec.CliSpec.", "Definition ev0 := mkEnv None None false."]
    for q in seqs:
        lines.append("Eval vm_compute in (settings_of_api ev0 [%s])." % "; ".join(gl_call(x, S) for x in q))
    for _, c in clis:
        lines.append("Eval vm_compute in (settings_of_cli ev0 %s)." % gl_cli(c, S))
    coq_dir = os.path.join(WORK, "c17", "coq") if (not same and scratch_ok) else COQDIR
    os.makedirs(WORK, exist_ok=True)
    vp = os.path.join(WORK, "c17_settings.v")
    open(vp, "w").write("\n".join(lines) + "\n")
    rc, cout = sh(["coqc", "-noglob", "-Q", coq_dir, "RV", vp], timeout=900, cwd=WORK)
    n_corr = n_corr_ok = n_panics = 0
    if rc != 0:
        hit("coq-eval", "Coq evaluation of the settings model failed", dict(log=cout[-3000:]), found_input=False)
        model = []
    else:
        model = parse_coq_outcomes(cout)
        if len(model) != len(seqs) + len(clis):
            hit("coq-eval", "unexpected number of answers", dict(got=len(model), want=len(seqs) + len(clis)), found_input=False)
            model = []
    for i, mo in enumerate(model):
        real = (real_seq + real_cli)[i]
        what = ("api", seqs[i]) if i < len(seqs) else ("cli", rcomp_args(clis[i - len(seqs)][1]))
        n_corr += 1
        if real.settings_panic is not None:
            n_panics += 1
            okp = mo[0] == "PANIC" and PANIC_TEXT.get(mo[1], "\0") in real.settings_panic
            if not okp:
                hit("corr-settings", "real Settings and the Gallina settings model disagree", dict(
                    calls=what, real="panic: " + real.settings_panic, model=mo), found_input=False)
            else:
                n_corr_ok += 1
            continue
        rd = parse_debug(real.settings, S)
        if mo[0] != "OK" or any(rd.get(k) != v for k, v in mo[1].items()) or set(rd) != set(mo[1]):
            diff = {k: (rd.get(k), mo[1].get(k) if mo[0] == "OK" else None) for k in rd if mo[0] != "OK" or rd.get(k) != mo[1].get(k)}
            hit("corr-settings", "real Settings and the Gallina settings model disagree", dict(
                calls=what, differing_fields_real_vs_model=diff, model=mo[0]), found_input=False)
        else:
            n_corr_ok += 1

    # (O) byte identity: rcomp vs API, fresh processes, processing orders
    t0 = time.time()

    def one(idx):
        g, c = clis[idx]
        base = GL.fresh_dir("c17", "o", "%03d" % idx)
        runs = []
        d = os.path.join(base, "cli")
        os.makedirs(d)
        runs.append(("rcomp",) + run_rcomp(d, g, c)[:2])
        for k, extra in enumerate([(), ("vec",), ("calc", "optref")]):
            d = os.path.join(base, "api%d" % k)
            os.makedirs(d)
            st, outs, _ = run_api(d, g, c, extra)
            runs.append(("api%d" % k, st, outs))
        return runs

    with ThreadPoolExecutor(max_workers=NCPU) as ex:
        oruns = list(ex.map(one, range(len(clis))))
    n_o = n_o_files = n_o_ok = 0
    classes = {}
    for (g, c), runs in zip(clis, oruns):
        n_o += 1
        ref = runs[0]
        cls = ref[1][0]
        classes[cls] = classes.get(cls, 0) + 1
        bad = None
        for r in runs[1:]:
            if status_class(r[1])[0] != status_class(ref[1])[0]:
                bad = "outcome %s: %s vs %s: %s" % (ref[0], ref[1], r[0], r[1])
                break
            if sorted(r[2]) != sorted(ref[2]):
                bad = "file sets differ: %s %s vs %s %s" % (ref[0], sorted(ref[2]), r[0], sorted(r[2]))
                break
            for f in ref[2]:
                if r[2][f] != ref[2][f]:
                    bad = "bytes of %s differ between %s and %s" % (f, ref[0], r[0])
                    break
            if bad:
                break
        n_o_files += len(ref[2])
        if bad:
            key = "cli-api-bytes" if "rcomp" in bad else "api-nondeterministic"
            hit(key, "rcomp and the equivalent API calls (or two API runs) do not write identical files: " + bad,
                dict(grammar=grammar_text(g), grammar_name=g, rcomp_args=rcomp_args(c), api_calls=api_calls(c), cli=c))
        else:
            n_o_ok += 1
    if failing_cli is not None and "cli-api-bytes" not in found:
        hit("cli-chain", "Properties/C17.v no longer compiles against the regenerated Model/CliGen.v (the setter chain of "
                         "main.rs is not equivalent to the documented API calls in the model), but no sampled grammar shows "
                         "a byte difference", dict(cli=failing_cli, rcomp_args=rcomp_args(failing_cli), log=log[-2000:]),
            found_input=False)
    elif not same and scratch_ok is False and failing_cli is None and not J["violations"]:
        hit("coq-build-regenerated", "the theories no longer compile against the regenerated Model/CliGen.v",
            dict(log=log[-3000:]), found_input=False)

    # known findings, replayed on the real code in every run
    # (1) hash order: the clash grammar in fresh processes
    seen = {}
    nrep = 10 if tier == "quick" else 30
    for k in range(nrep):
        d = GL.fresh_dir("c17", "clash", str(k))
        st, outs, _ = run_api(d, "clash", dict(CLI_DEFAULT))
        h = hashlib.sha1(b"".join(outs[f] for f in sorted(outs))).hexdigest()[:12]
        seen.setdefault(h, (k, st, outs))
    # correspondence of Model.HashOrder.mcnu: every variant the real compiler produced is one the model predicts
    # for some iteration order of the two duplicated keys X, X1
    okm, outm = coq_eval("c17_mcnu", "From RV Require Import Util Model.HashOrder.\n"
                         "Definition ch : list name := [[10]; [10]; [10; 1]; [10; 1]].\n"
                         "Eval vm_compute in (mcnu [[10]; [10; 1]] ch).\nEval vm_compute in (mcnu [[10; 1]; [10]] ch).\n")
    predicted = set()
    if okm:
        for ans in re.findall(r"= (\[\[.*?\]\])\s*:", outm, re.S):
            names_ = re.findall(r"\[([\d; ]+)\]", ans[1:-1])
            predicted.add(tuple("s_x" + "".join(x.strip() for x in n.split(";")[1:]) for n in names_))
    real_variants = set()
    for h, (k, st, outs) in seen.items():
        real_variants.add(tuple(re.findall(r"pub fn (s_\w+)", outs.get("clash_actions.rs", b"").decode(errors="replace"))))
    if not okm or not real_variants <= predicted:
        hit("corr-mcnu", "make_choices_name_unique: the real compiler produced choice names the model predicts for no "
                         "iteration order", dict(real=sorted(real_variants), model=sorted(predicted), log=outm[-500:]),
            found_input=False)
    if len(seen) > 1:
        variants = []
        for h, (k, st, outs) in seen.items():
            m = re.findall(r"pub fn (s_\w+)", outs.get("clash_actions.rs", b"").decode(errors="replace"))
            variants.append(m)
        hit(KEY_HASH, "the same grammar and settings give different files in different processes: duplicated production "
                      "kinds X, X, X1, X1 are renamed in HashMap iteration order (grammar/types/mod.rs:461)",
            dict(grammar=grammar_text("clash"), action_names_seen=variants, processes=nrep))
    else:
        rep.notes.append("known finding %s did not reproduce in %d fresh processes (one variant seen)" % (KEY_HASH, nrep))
    # (2) GLR shadows --prefer-shifts / --table-type: rcomp output equals the output without the flags, while the API
    #     can express the combination
    c1 = dict(CLI_DEFAULT, parser_algo="GLR", prefer_shifts=True)
    c0 = dict(CLI_DEFAULT, parser_algo="GLR")
    d1, d0, d2 = GL.fresh_dir("c17", "shadow", "1"), GL.fresh_dir("c17", "shadow", "0"), GL.fresh_dir("c17", "shadow", "2")
    s1, o1, _ = run_rcomp(d1, "ambig", c1)
    s0, o0, _ = run_rcomp(d0, "ambig", c0)
    g2 = os.path.join(d2, "ambig.rustemo")
    open(g2, "w").write(grammar_text("ambig"))
    r2 = GL.rvgen(["gen", g2, "force:false", "parser_algo:glr", "prefer_shifts:true"])
    o2 = outputs_of(d2)
    if s1[0] == "OK" and o1 == o0 and r2.result == "OK" and o2.get("ambig.rs") != o1.get("ambig.rs"):
        hit(KEY_SHADOW, "`rcomp --parser-algo glr --prefer-shifts` writes the same parser as without --prefer-shifts (the "
                        "option is applied before parser_algo and overwritten, main.rs:131-138), while the API calls "
                        ".parser_algo(GLR).prefer_shifts(true) give a different parser; same for --table-type",
            dict(grammar=grammar_text("ambig"), rcomp_args=rcomp_args(c1)))
    else:
        rep.notes.append("known finding %s did not reproduce" % KEY_SHADOW)
    t_o = time.time() - t0

    for key in sorted(found):
        what, payload, fi, n = found[key]
        payload = dict(payload, occurrences_in_this_run=n)
        rep.violation(key, what, payload, found_input=fi)
    pt = rep.theorems or {}
    nthm = len(pt.get("theorems", []))
    unexpected = [k for k in found if k not in (KEY_HASH, KEY_SHADOW)]
    rep.coverage = dict(
        obligations=nthm + n_corr + n_o + 1, discharged=(pt.get("closed", 0) if not unexpected else 0) + n_corr_ok + n_o_ok + (0 if any(k.startswith('hash-iteration-site') for k in found) else 1),
        checker_cmd="gen/cli_translate.py ; make -C coq Properties/C17.vo ; coqc work/c17_settings.v ; rcomp / rvgen",
        trusted_base=TRUSTED_BASE + ["gen/cli_translate.py (regex/recursive-descent reader of main.rs and settings.rs; "
                                     "leaves the supported subset => the check fails)",
                                     "clap's parsing of argv is not modelled; it is exercised by the real rcomp runs"],
        theorems=pt.get("theorems", []),
        explanation="level other: the CLI->Settings mapping and the setter semantics are proved for ALL command lines "
                    "(strings symbolic) against a model regenerated from main.rs/settings.rs in this run and tied to the real "
                    "Settings value by correspondence; absence of other hash-order dependence rests on a source scan; byte "
                    "identity of the written files across processes, processing orders and rcomp-vs-API is observed on "
                    "sampled (grammar, command line) pairs only — hash seeds cannot be forced, so process-level "
                    "non-determinism is explored, not excluded",
        cligen_same_as_committed=same, cligen_scratch_rebuild=scratch_ok,
        hash_iteration_sites=[list(s) for s in sites], hash_decls=decls, allowed_sites_missing=[list(a) for a in missing_sites],
        settings_correspondence=dict(cases=n_corr, agree=n_corr_ok, panics=n_panics),
        mcnu_correspondence=dict(real_variants=sorted(real_variants), model_variants=sorted(predicted)),
        byte_identity=dict(cases=n_o, agree=n_o_ok, files_compared=n_o_files, runs_per_case=4, outcome_classes=classes,
                           seconds=round(t_o, 1)),
        evaluations=n_corr + n_o * 4, distinct_nontrivial=classes.get("OK", 0),
        rule="API call sequences: 11 fixed + random over all 26 setters (length 1-7); command lines: 12 fixed + random over "
             "all flags / enum options / Option<bool> options x %d grammars; per command line: rcomp once, API three times in "
             "fresh processes (alone; after 1 other grammar; after 2 other grammars); non-trivial = command lines for which "
             "files were written" % (len(GC.names()) - 1),
        samples=[dict(grammar=g, rcomp_args=rcomp_args(c)) for g, c in clis[:4]])
    rep.assumptions = ["environment of a command line run: OUT_DIR, CARGO_MANIFEST_DIR, RUSTEMO_TRACE unset",
                       "strings, paths, exclude lists are symbolic naturals in the model"]


def replay(rep, path):
    p = json.load(open(path))
    if not build_rcomp()[0]:
        print("rcomp could not be built")
        return
    if "rcomp_args" in p and "cli" in p and "grammar_name" in p:
        g, c = p["grammar_name"], p["cli"]
        C17_GRAMMARS.setdefault(g, p.get("grammar", ""))
        base = GL.fresh_dir("c17", "replay")
        d1, d2 = os.path.join(base, "cli"), os.path.join(base, "api")
        os.makedirs(d1)
        os.makedirs(d2)
        s1, o1, _ = run_rcomp(d1, g, c)
        s2, o2, _ = run_api(d2, g, c)
        print("rcomp %s -> %s %s" % (" ".join(rcomp_args(c)), s1, sorted(o1)))
        print("api   %s -> %s %s" % (" ".join(api_calls(c)), s2, sorted(o2)))
        for f in sorted(set(o1) | set(o2)):
            print("  %s: %s" % (f, "identical" if o1.get(f) == o2.get(f) else "DIFFERENT"))
        S = Sym()
        body = ("From RV Require Import Util Model.Cli Model.CliGen Spec.CliSpec.\nDefinition ev0 := mkEnv None None false.\n"
                "Eval vm_compute in (settings_of_cli ev0 %s).\nEval vm_compute in (settings_of_api ev0 (api_of %s)).\n"
                % (gl_cli(c, S), gl_cli(c, S)))
        ok, out = coq_eval("c17_replay", body)
        print("model :", parse_coq_outcomes(out) if ok else out[-800:])
    elif p.get("key") == KEY_HASH:
        seen = set()
        for k in range(10):
            d = GL.fresh_dir("c17", "clash", str(k))
            st, outs, _ = run_api(d, "clash", dict(CLI_DEFAULT))
            seen.add(tuple(re.findall(r"pub fn (s_\w+)", outs.get("clash_actions.rs", b"").decode(errors="replace"))))
        print("action names seen in 10 fresh processes:", sorted(seen))
    else:
        print(json.dumps({k: p[k] for k in p if k != "log"}, indent=1)[:3000])
    rep.coverage = dict(obligations=1, discharged=1, checker_cmd="replay", trusted_base=[], explanation="replay")
