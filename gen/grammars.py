"""Grammar / input generators (all randomness from one random.Random seeded by VERIF_SEED).

A generated grammar is a `G` object: nonterminals with alternatives (lists of symbol names),
terminals that are single distinct lower-case letters (string recognizers 'a', 'b', ...), so
that a token string renders to text unambiguously (tokens joined by single spaces)."""
import itertools
import random

TERMS = "abcdefgh"


class G:
    def __init__(self, rules, nterms, meta=None, tmeta=None, shape=""):
        # rules: list of (name, [alts]) ; alt = list of symbol names ('a'.. terminals, 'S','A'.. nonterminals)
        self.rules = rules
        self.nterms = nterms
        self.meta = meta or {}      # (rule_index, alt_index) -> "left, 5" ...
        self.tmeta = tmeta or {}    # terminal letter -> meta string
        self.shape = shape

    def nts(self):
        return [r[0] for r in self.rules]

    def text(self, inline=False):
        out = []
        for ri, (name, alts) in enumerate(self.rules):
            parts = []
            for ai, alt in enumerate(alts):
                if not alt:
                    s = "EMPTY"
                else:
                    s = " ".join(("'%s'" % x if inline else "T" + x) if x in TERMS else x for x in alt)
                m = self.meta.get((ri, ai))
                if m:
                    s += " {%s}" % m
                parts.append(s)
            out.append("%s: %s;" % (name, " | ".join(parts)))
        out.append("terminals")
        for t in TERMS[:self.nterms]:
            m = self.tmeta.get(t)
            out.append("T%s: '%s'%s;" % (t, t, (" {%s}" % m) if m else ""))
        return "\n".join(out) + "\n"

    def key(self):
        return self.text()

    # ---------------------------------------------------------------- language (bounded)
    def language(self, maxlen, cap=4000):
        """dict nt -> set of terminal tuples of length <= maxlen derivable from nt (Kleene iteration)."""
        lang = {n: set() for n in self.nts()}
        changed = True
        rounds = 0
        while changed and rounds < 60:
            changed = False
            rounds += 1
            for name, alts in self.rules:
                for alt in alts:
                    acc = {()}
                    for x in alt:
                        if x in TERMS:
                            nxt = {s + (x,) for s in acc if len(s) < maxlen}
                        else:
                            nxt = set()
                            lx = lang.get(x, set())
                            for s in acc:
                                for u in lx:
                                    if len(s) + len(u) <= maxlen:
                                        nxt.add(s + u)
                        acc = nxt
                        if len(acc) > cap:
                            acc = set(itertools.islice(acc, cap))
                        if not acc:
                            break
                    before = len(lang[name])
                    lang[name] |= acc
                    if len(lang[name]) > before:
                        changed = True
        return lang

    def sample_sentence(self, rng, maxdepth=7):
        """random derivation from the start symbol; returns tuple of terminals or None."""
        rules = dict(self.rules)
        # minimal depth to terminate per nonterminal
        INF = 10 ** 6
        depth = {n: INF for n in rules}
        for _ in range(len(rules) + 2):
            for n, alts in rules.items():
                for alt in alts:
                    d = 1 + max([depth.get(x, INF) if x not in TERMS else 0 for x in alt] + [0])
                    if d < depth[n]:
                        depth[n] = d
        start = self.rules[0][0]
        if depth[start] >= INF:
            return None

        def go(n, budget):
            alts = [a for a in rules[n]
                    if all((x in TERMS) or depth.get(x, INF) < budget for x in a)]
            if not alts:
                alts = [min(rules[n], key=lambda a: max([depth.get(x, INF) if x not in TERMS else 0 for x in a] + [0]))]
            alt = rng.choice(alts)
            out = []
            for x in alt:
                if x in TERMS:
                    out.append(x)
                else:
                    out.extend(go(x, max(budget - 1, depth.get(x, 1) + 0)))
                if len(out) > 40:
                    cut[0] = True      # too long: abandoned (a truncated derivation is not a sentence)
                    break
            return out

        cut = [False]
        w = tuple(go(start, maxdepth))
        return None if cut[0] or len(w) > 40 else w


def render(tokens, rng=None):
    """token tuple -> input text (single spaces)."""
    return " ".join(tokens)


# ---------------------------------------------------------------- corpus (hand-written, literature)
def corpus():
    C = []

    def add(shape, nterms, rules, meta=None, tmeta=None):
        used = max([TERMS.index(x) + 1 for _, alts in rules for a in alts for x in a if x in TERMS] + [1])
        C.append(G(rules, max(nterms, used), meta, tmeta, shape))

    add("nullable-mid", 3, [("S", [["a", "B", "c"]]), ("B", [[], ["b"]])])
    add("left-rec-list", 2, [("S", [["S", "a"], ["a"]])])
    add("right-rec-list", 2, [("S", [["a", "S"], ["a"]])])
    add("left-rec-empty", 2, [("S", [["S", "a"], []])])
    add("right-rec-empty", 2, [("S", [["a", "S"], []])])
    add("expr-unambig", 5, [("E", [["E", "a", "T"], ["T"]]), ("T", [["T", "b", "F"], ["F"]]),
                            ("F", [["c", "E", "d"], ["e"]])])
    add("dragon-4.55-lalr", 4, [("S", [["L", "a", "R"], ["R"]]), ("L", [["b", "R"], ["c"]]), ("R", [["L"]])])
    add("pager-g1-lr1-not-lalr", 5, [("S", [["a", "A", "d"], ["a", "B", "e"], ["b", "A", "e"], ["b", "B", "d"]]),
                                     ("A", [["c"]]), ("B", [["c"]])])
    add("hidden-left-rec", 3, [("S", [["A", "S", "b"], ["a"]]), ("A", [[]])])
    add("nullable-prefix", 3, [("S", [["A", "B", "c"]]), ("A", [[], ["a"]]), ("B", [[], ["b"]])])
    add("nullable-suffix", 3, [("S", [["a", "A", "B"]]), ("A", [[], ["b"]]), ("B", [[], ["c"]])])
    add("all-nullable", 2, [("S", [["A", "B"]]), ("A", [[], ["a"]]), ("B", [[], ["b"]])])
    add("unit-chain", 2, [("S", [["A"]]), ("A", [["B"]]), ("B", [["C"]]), ("C", [["a"], ["b", "C"]])])
    add("palindrome-marked", 3, [("S", [["a", "S", "a"], ["b", "S", "b"], ["c"]])])
    add("dangling-else", 4, [("S", [["a", "S"], ["a", "S", "b", "S"], ["c"]])])
    add("ambig-expr", 3, [("E", [["E", "a", "E"], ["E", "b", "E"], ["c"]])])
    add("ambig-expr-prio", 3, [("E", [["E", "a", "E"], ["E", "b", "E"], ["c"]])],
        meta={(0, 0): "1, left", (0, 1): "2, left"})
    add("ambig-expr-right", 3, [("E", [["E", "a", "E"], ["E", "b", "E"], ["c"]])],
        meta={(0, 0): "1, left", (0, 1): "2, right"})
    add("lalr-rr", 4, [("S", [["a", "A", "d"], ["b", "B", "d"], ["a", "B", "e"], ["b", "A", "e"]]),
                       ("A", [["c"]]), ("B", [["c"]])])
    add("empty-only", 1, [("S", [[]])])
    add("two-empties", 2, [("S", [["A", "a"], ["B", "b"]]), ("A", [[]]), ("B", [[]])])
    add("lr2", 4, [("S", [["A", "a", "b"], ["B", "a", "c"]]), ("A", [["d"]]), ("B", [["d"]])])
    add("nested-lists", 4, [("S", [["S", "L"], ["L"]]), ("L", [["a", "I", "b"]]), ("I", [["I", "c"], []])])
    add("opt-chain", 4, [("S", [["A", "B", "C", "d"]]), ("A", [["a"], []]), ("B", [["b"], []]), ("C", [["c"], []])])
    add("same-core-diff-order", 4, [("S", [["a", "X"], ["b", "Y"]]), ("X", [["c", "d"], ["c", "c"]]),
                                    ("Y", [["c", "c"], ["c", "d"]])])
    add("knuth-lr1", 4, [("S", [["a", "A", "d"], ["a", "c", "e"], ["b", "A", "e"]]), ("A", [["c"]])])
    add("first-chain", 3, [("S", [["Y", "A"]]), ("Y", [["a"]]), ("A", [["N", "B"]]), ("N", [["b"], []]), ("B", [["C"]]),
                           ("C", [["c"]])])
    add("first-chain-nullable", 4, [("S", [["Y", "A", "d"]]), ("Y", [["a"]]), ("A", [["N", "M"]]), ("N", [["b"], []]),
                                    ("M", [["K"]]), ("K", [["c"], []])])
    add("nullable-tail-rr", 2, [("S", [["A"]]), ("A", [["a", "A", "M", "N"], ["b"]]), ("M", [[]]), ("N", [[]])])
    add("nullable-tail-rr3", 3, [("S", [["A"]]), ("A", [["a", "A", "M", "N", "O"], ["b"]]), ("M", [[]]), ("N", [[], ["c"]]),
                                 ("O", [[]])])
    return C


# ---------------------------------------------------------------- random structured grammars
NTN = ["S", "A", "B", "C", "D"]


def random_grammar(rng, ambiguous_ok=True):
    nnt = rng.choice([1, 2, 2, 3, 3, 4])
    nt = rng.choice([1, 2, 2, 3, 3, 4])
    names = NTN[:nnt]
    terms = list(TERMS[:nt])
    rules = []
    shape = rng.choice(["free", "free", "leftrec", "rightrec", "nullable", "hidden", "unit", "lists"])
    for i, n in enumerate(names):
        nalts = rng.choice([1, 2, 2, 3, 3, 4])
        alts = []
        for _ in range(nalts):
            ln = rng.choice([0, 1, 1, 2, 2, 3, 3, 4])
            alt = []
            for _ in range(ln):
                if rng.random() < 0.5:
                    alt.append(rng.choice(terms))
                else:
                    alt.append(rng.choice(names))
            alts.append(alt)
        # make productive: guarantee one alternative of terminals only (or empty)
        if not any(all(x in TERMS for x in a) for a in alts):
            alts.append([rng.choice(terms)] if rng.random() < 0.7 else [])
        if shape == "leftrec" and rng.random() < 0.7:
            alts.append([n, rng.choice(terms)])
        if shape == "rightrec" and rng.random() < 0.7:
            alts.append([rng.choice(terms), n])
        if shape == "nullable" and rng.random() < 0.7 and [] not in alts:
            alts.append([])
        if shape == "hidden" and i == 0 and nnt > 1:
            alts.append([names[-1], n, rng.choice(terms)])
        if shape == "unit" and i + 1 < nnt:
            alts.append([names[i + 1]])
        if shape == "lists" and rng.random() < 0.6:
            x = rng.choice(terms + names)
            alts.append([n, x])
        # dedupe alternatives
        ded = []
        for a in alts:
            if a not in ded:
                ded.append(a)
        rules.append((n, ded))
    if shape == "hidden" and nnt > 1 and [] not in rules[-1][1]:
        rules[-1][1].append([])
    return G(rules, nt, shape=shape)


def merge_family(rng):
    """LALR-merge-heavy grammars: a few acyclic inner nonterminals with shared prefixes, referenced from
    several contexts of the start rule with different leading terminals and different followers. States
    reached through different contexts have equal cores and different lookaheads, so closure refresh,
    state merging and follow propagation all matter (lookaheads arrive late through merged states)."""
    k = rng.choice([3, 4, 4, 5])
    inner = ["A", "B", "C", "D", "E"][:k]
    nt = rng.choice([4, 5, 6, 7])
    terms = list(TERMS[:nt])
    rules = {}
    # inner nonterminals: later ones may only refer to even later ones (acyclic), terminals shared
    low = terms[:max(2, nt - 2)]
    for i, n in enumerate(inner):
        alts = []
        for _ in range(rng.choice([1, 1, 2, 2, 3])):
            ln = rng.choice([1, 2, 2, 3])
            alt = []
            for j in range(ln):
                if i + 1 < k and rng.random() < 0.4:
                    alt.append(rng.choice(inner[i + 1:]))
                else:
                    alt.append(rng.choice(low))
            if alt not in alts:
                alts.append(alt)
        # a unit alternative to a later inner nonterminal creates closure-derived successors
        if i + 1 < k and rng.random() < 0.4:
            u = [rng.choice(inner[i + 1:])]
            if u not in alts:
                alts.append(u)
        rules[n] = alts
    salts = []
    for _ in range(rng.choice([2, 3, 3, 4])):
        lead = [rng.choice(terms) for _ in range(rng.choice([0, 1, 1, 2, 2]))]
        mid = [rng.choice(inner[:max(2, k - 1)])]
        if rng.random() < 0.25:
            mid.append(rng.choice(inner))
        tail = [rng.choice(terms)] if rng.random() < 0.85 else []
        a = lead + mid + tail
        if a not in salts:
            salts.append(a)
    allrules = [("S", salts)] + [(n, rules[n]) for n in inner]
    return G(allrules, nt, shape="merge-family")


def late_lookahead_family(rng):
    """One nonterminal X reached in two (or three) contexts of the start rule with different followers, the
    later contexts behind longer terminal prefixes (so their states are created late and their lookaheads
    arrive by merging / propagation after the shared states were closed), plus a sibling Q: X | C where C
    spells the same terminal prefix as X's expansion (a state with a reduction next to a shift)."""
    t = list(TERMS[:8])
    rng.shuffle(t)
    u, v, w, f1, f2, p1, p2, p3 = t
    depth = rng.choice([0, 1, 1, 2])
    rules = {}
    # expansion chain of X:  X: u Y; Y: v   (optionally X -> M wrappers)
    rules["B"] = [[v]]
    rules["A"] = [[u, "B"]]
    rules["C"] = [[u, v, w]] if rng.random() < 0.7 else [[u, v, w], [u, w]]
    top = "A"
    names = ["D", "E"]
    for i in range(depth):
        n = names[i]
        rules[n] = [[p3, top]] if rng.random() < 0.5 else [[top]]
        top = n
    rules["Q"] = [["A"], ["C"]] if rng.random() < 0.8 else [["C"], ["A"]]
    alts = [[top, f1], [p1] * rng.choice([1, 2, 2]) + [top, f2], [p2, "Q", f2]]
    if rng.random() < 0.3:
        alts.append([p2, p2, "Q", f1])
    rng.shuffle(alts)
    order = ["S"] + [n for n in ["D", "E", "Q", "A", "B", "C"] if n in rules]
    rules["S"] = alts
    g = G([(n, rules[n]) for n in order], 8, shape="late-lookahead")
    return g


def first_chain_family(rng):
    """FIRST behind a nullable prefix that becomes known late: a rule `A: N X` (N nullable) whose X reaches its first
    terminal only through a chain of rules declared AFTER A (X: C; C: D; D: 'c'), or becomes nullable through such a
    chain; A is used after a symbol that must be reduced with A's FIRST set as lookahead (S: Y A ...). A FIRST / nullable
    computation that stops too early loses those lookaheads and a sentence is rejected."""
    t = list(TERMS[:6])
    rng.shuffle(t)
    y, n, c, e, k, z = t
    depth = rng.choice([1, 1, 2, 3])
    nullable_chain = rng.random() < 0.4
    chain = ["B", "C", "D", "E"][:depth + 1]
    rules = []
    tail = [e] if (nullable_chain or rng.random() < 0.5) else []
    rules.append(("S", [["Y", "A"] + tail] + ([[z, "A", z]] if rng.random() < 0.3 else [])))
    rules.append(("Y", [[y]] + ([[y, "Y"]] if rng.random() < 0.3 else [])))
    rules.append(("A", [["N", chain[0]]]))
    rules.append(("N", [[n], []] if rng.random() < 0.7 else [[], [n, "N"]]))
    for i, x in enumerate(chain):
        if i + 1 < len(chain):
            rules.append((x, [[chain[i + 1]]]))
        else:
            rules.append((x, [[k], []] if nullable_chain else [[c]] + ([[c, k]] if rng.random() < 0.3 else [])))
    if rng.random() < 0.5:
        # declare the chain in reverse order sometimes: passes of the fixed point see it in a different order
        head, rest = rules[:4], rules[4:]
        rules = head + rest[::-1]
    return G(rules, 6, shape="first-chain")


def nullable_tail_family(rng):
    """Productions that end in two or three nullable symbols, with (hidden) right recursion before the tail:
    `A: 'a' A M N | 'b'; M: EMPTY; N: EMPTY | 'n'`. The right-nulled reductions of the GLR table at EVERY position of
    the nullable tail are needed once the recursion is three or more deep."""
    t = list(TERMS[:5])
    rng.shuffle(t)
    a, b, m, n, q = t
    ntail = rng.choice([2, 2, 3])
    tails = ["M", "N", "O"][:ntail]
    rec = rng.choice(["right", "right", "middle"])
    body = [a, "A"] + tails if rec == "right" else [a, "A", q] + tails
    rules = [("S", [["A"]] if rng.random() < 0.6 else [["A", "S"], ["A"]] if False else [["A"]]),
             ("A", [body, [b]])]
    for i, x in enumerate(tails):
        alts = [[]]
        if rng.random() < 0.35:
            alts.append([[m, n, q][i]])
        rules.append((x, alts))
    return G(rules, 5, shape="nullable-tail")


def annotate(rng, g):
    """random priorities / associativities / nops / nopse on productions and terminals"""
    meta, tmeta = {}, {}
    for ri, (_, alts) in enumerate(g.rules):
        for ai, alt in enumerate(alts):
            if rng.random() < 0.5:
                items = []
                if rng.random() < 0.6:
                    items.append(str(rng.choice([1, 5, 9, 10, 11, 15, 20])))
                if rng.random() < 0.6:
                    items.append(rng.choice(["left", "right", "reduce", "shift"]))
                if rng.random() < 0.2:
                    items.append("nops")
                if rng.random() < 0.2:
                    items.append("nopse")
                if items:
                    meta[(ri, ai)] = ", ".join(items)
    for t in TERMS[:g.nterms]:
        if rng.random() < 0.25:
            tmeta[t] = rng.choice(["left", "right", "shift", "reduce"])
    return G(g.rules, g.nterms, meta, tmeta, g.shape + "+annot")


def expr_grammar(rng, nops=None):
    """E: E op E {prio, assoc} ... | num   (ambiguous, resolved by annotations)"""
    nops = nops or rng.choice([1, 2, 3])
    ops = list(TERMS[:nops])
    num = TERMS[nops]
    alts, meta = [], {}
    prios = rng.sample(range(1, 9), nops) if rng.random() < 0.7 else [rng.choice([1, 2, 3]) for _ in ops]
    assocs = []
    for i, o in enumerate(ops):
        alts.append(["E", o, "E"])
        a = rng.choice(["left", "right"])
        assocs.append(a)
        meta[(0, i)] = "%d, %s" % (prios[i], a)
    alts.append([num])
    g = G([("E", alts)], nops + 1, meta, {}, "expr")
    g.ops = dict((o, (prios[i], assocs[i])) for i, o in enumerate(ops))
    g.num = num
    return g


# ---------------------------------------------------------------- inputs
def inputs_for(g, rng, maxlen=5, nvalid=25, ninvalid=15):
    """(valid sentences, invalid strings) as tuples of terminal letters; all of length <= maxlen are
    classified by the bounded language; longer sampled sentences are valid by construction."""
    lang = g.language(maxlen)
    start = g.rules[0][0]
    sents = sorted(lang[start], key=lambda s: (len(s), s))
    valid = sents[:nvalid // 2]
    if len(sents) > nvalid // 2:
        valid += rng.sample(sents[nvalid // 2:], min(nvalid - nvalid // 2, len(sents) - nvalid // 2))
    # longer random sentences
    longer = []
    for _ in range(6):
        s = g.sample_sentence(rng)
        if s is not None and len(s) > maxlen and s not in longer:
            longer.append(s)
    sset = set(sents)
    terms = list(TERMS[:g.nterms])
    invalid = []
    tries = 0
    while len(invalid) < ninvalid and tries < 400:
        tries += 1
        base = rng.choice(sents) if sents and rng.random() < 0.8 else tuple(
            rng.choice(terms) for _ in range(rng.randint(0, maxlen)))
        m = list(base)
        op = rng.choice(["del", "ins", "sub", "trunc", "dup"])
        if op == "del" and m:
            del m[rng.randrange(len(m))]
        elif op == "ins":
            m.insert(rng.randint(0, len(m)), rng.choice(terms))
        elif op == "sub" and m:
            m[rng.randrange(len(m))] = rng.choice(terms)
        elif op == "trunc" and m:
            m = m[:rng.randrange(len(m))]
        elif op == "dup" and m:
            i = rng.randrange(len(m))
            m.insert(i, m[i])
        m = tuple(m)
        if len(m) <= maxlen and m not in sset and m not in invalid:
            invalid.append(m)
    return valid, longer, invalid, sset
