// C08 comparison program (appended to gen/batch_prelude.rs by gen/c08.py through gen/batch.py).
// For every genuinely generated parser module it queries the generated `ParserDefinition`
// for EVERY state x token (actions), EVERY state x nonterminal (goto, under catch_unwind),
// every state (expected_token_kinds), longest_match(), grammar_order(), and prints the answers in
// the line format of the `verif` hook dump; then it parses the inputs of inputs/<name>.txt with
// the generated parser and prints canonical outcomes in the format of the harness `rv`.
use rustemo::{Action, Forest, Parser, ParserDefinition, State as StateT, TreeBuilder, TreeNode};

/// Every query the runtime can make of a generated `ParserDefinition`, exhaustively.
pub fn dump_definition<S, P, T, N, D>(
    def: &D,
    states: &[S],
    tokens: &[T],
    nonterms: &[N],
    prods: &[P],
    s2u: fn(S) -> usize,
    p2u: fn(P) -> usize,
    t2u: fn(T) -> usize,
    n2u: fn(N) -> usize,
    pk2nk: fn(P) -> N,
    out: &mut String,
) where
    S: Copy,
    P: Copy,
    T: Copy,
    N: Copy,
    D: ParserDefinition<S, P, T, N>,
{
    writeln!(out, "LM {}", D::longest_match() as u8).unwrap();
    writeln!(out, "GO {}", D::grammar_order() as u8).unwrap();
    for (d, p) in prods.iter().enumerate() {
        writeln!(out, "PRODNT {} {} {}", d, p2u(*p), n2u(pk2nk(*p))).unwrap();
    }
    for (k, s) in states.iter().enumerate() {
        writeln!(out, "STATE {} {}", k, s2u(*s)).unwrap();
        for (ti, t) in tokens.iter().enumerate() {
            let acts = catch_unwind(AssertUnwindSafe(|| def.actions(*s, *t)));
            match acts {
                Err(e) => writeln!(out, "ACTPANIC {} {}", ti, panic_msg(e)).unwrap(),
                Ok(acts) => {
                    if acts.is_empty() {
                        continue;
                    }
                    write!(out, "ACT {}", t2u(*t)).unwrap();
                    for a in acts {
                        match a {
                            Action::Shift(s2) => write!(out, " S{}", s2u(s2)).unwrap(),
                            Action::Reduce(p, l) => write!(out, " R{},{}", p2u(p), l).unwrap(),
                            Action::Accept => write!(out, " A").unwrap(),
                            Action::Error => write!(out, " E").unwrap(),
                        }
                    }
                    writeln!(out).unwrap();
                }
            }
        }
        for n in nonterms.iter() {
            let g = catch_unwind(AssertUnwindSafe(|| def.goto(*s, *n)));
            match g {
                Ok(s2) => writeln!(out, "GOTO {} {}", n2u(*n), s2u(s2)).unwrap(),
                Err(e) => writeln!(out, "GOTOPANIC {} {}", n2u(*n), panic_msg(e)).unwrap(),
            }
        }
        let exp = catch_unwind(AssertUnwindSafe(|| def.expected_token_kinds(*s)));
        match exp {
            Err(e) => writeln!(out, "SORTEDPANIC {}", panic_msg(e)).unwrap(),
            Ok(exp) => {
                write!(out, "SORTED").unwrap();
                for (t, f) in exp {
                    write!(out, " {}:{}", t2u(t), f as u8).unwrap();
                }
                writeln!(out).unwrap();
            }
        }
    }
}

// ------------------------------------------------------------ canonical outcomes (as harness rv)
fn pos(p: rustemo::Position) -> String {
    match p.line_col {
        Some(lc) => format!("{}/{}/{}", p.pos, lc.line, lc.column),
        None => format!("{}/-/-", p.pos),
    }
}
fn lay(l: Option<&str>) -> String {
    match l {
        None => "~".into(),
        Some(s) => format!("L{}", hex(s.as_bytes())),
    }
}
fn ptr_range(input: &str, v: &str) -> String {
    let ib = input.as_ptr() as usize;
    let vb = v.as_ptr() as usize;
    if vb >= ib && vb + v.len() <= ib + input.len() {
        format!("{}", vb - ib)
    } else {
        "-".into()
    }
}
pub fn sexp<P: Copy, T: Copy>(
    input: &str,
    n: &TreeNode<'_, str, P, T>,
    p2u: fn(P) -> usize,
    t2u: fn(T) -> usize,
    out: &mut String,
) {
    match n {
        TreeNode::TermNode { token, layout } => {
            write!(
                out,
                "(T {} {} {} {} {} {})",
                t2u(token.kind),
                pos(token.span.start),
                pos(token.span.end),
                lay(*layout),
                hex(token.value.as_bytes()),
                ptr_range(input, token.value)
            )
            .unwrap();
        }
        TreeNode::NonTermNode {
            prod,
            span,
            children,
            layout,
        } => {
            write!(
                out,
                "(N {} {} {} {}",
                p2u(*prod),
                pos(span.start),
                pos(span.end),
                lay(*layout)
            )
            .unwrap();
            for c in children {
                out.push(' ');
                sexp(input, c, p2u, t2u, out);
            }
            out.push(')');
        }
    }
}

/// `ERR <kind> <pos> <line> <col> <end> <expected token indexes in message order>`
pub fn err_str(e: &rustemo::Error, token_names: &[&str]) -> String {
    match e {
        rustemo::Error::ParseError(pe) => {
            let (p, l, c) = match pe.span {
                Some(sp) => (
                    sp.start.pos as i64,
                    sp.start.line().map(|x| x as i64).unwrap_or(-1),
                    sp.start.column().map(|x| x as i64).unwrap_or(-1),
                ),
                None => (-1, -1, -1),
            };
            let endp = pe.span.map(|sp| sp.end.pos as i64).unwrap_or(-1);
            let m = &pe.message;
            let mut exp: Vec<String> = vec![];
            let kind = if m.starts_with("Expected") { "E" } else { "O" };
            if kind == "E" {
                // "Expected one of A, B." / "Expected A."  (token kinds Debug-printed = variant names)
                let mut body = m.trim_start_matches("Expected ").trim_end_matches('.').to_string();
                if let Some(r) = body.strip_prefix("one of ") {
                    body = r.to_string();
                }
                for w in body.split(", ") {
                    // strip ANSI escapes, if any
                    let mut clean = String::new();
                    let mut esc = false;
                    for ch in w.chars() {
                        if esc {
                            if ch == 'm' {
                                esc = false;
                            }
                        } else if ch == '\u{1b}' {
                            esc = true;
                        } else {
                            clean.push(ch);
                        }
                    }
                    match token_names.iter().position(|n| *n == clean) {
                        Some(i) => exp.push(i.to_string()),
                        None => exp.push(format!("?{}", hex(clean.as_bytes()))),
                    }
                }
            }
            format!(
                "ERR {kind} {p} {l} {c} {endp} {}",
                if exp.is_empty() { "-".to_string() } else { exp.join(",") }
            )
        }
        rustemo::Error::IOError(_) => "ERR IO".into(),
    }
}

const MAX_TREES: usize = 300;

pub fn forest_str<S, P, T>(
    input: &str,
    forest: &Forest<'_, str, P, T>,
    p2u: fn(P) -> usize,
    t2u: fn(T) -> usize,
) -> String
where
    S: StateT,
    P: Copy,
    T: Copy + Default,
{
    let n = forest.solutions();
    let amb = forest.ambiguities();
    let mut s = format!("FOREST {n} {amb}");
    let lim = n.min(MAX_TREES);
    let mut by_index: Vec<String> = vec![];
    let mut idx_ok = true;
    for i in 0..lim {
        match forest.get_tree(i) {
            Some(t) => {
                let mut b = TreeBuilder::new();
                let tn: TreeNode<'_, str, P, T> = t.build::<_, S>(&mut b);
                let mut x = String::new();
                sexp(input, &tn, p2u, t2u, &mut x);
                by_index.push(x);
            }
            None => {
                idx_ok = false;
                by_index.push("NONE".into());
            }
        }
    }
    let mut iter_ok = true;
    let mut cnt = 0usize;
    for (i, t) in forest.iter().enumerate() {
        cnt += 1;
        if i < lim {
            let mut b = TreeBuilder::new();
            let tn: TreeNode<'_, str, P, T> = t.build::<_, S>(&mut b);
            let mut x = String::new();
            sexp(input, &tn, p2u, t2u, &mut x);
            if x != by_index[i] {
                iter_ok = false;
            }
        }
        if cnt > 100_000 {
            break;
        }
    }
    if cnt <= 100_000 && cnt != n {
        iter_ok = false;
    }
    let oor_none = forest.get_tree(n).is_none() && forest.get_tree(n + 1).is_none();
    write!(s, " IDX{} ITER{} OOR{}", idx_ok as u8, iter_ok as u8, oor_none as u8).unwrap();
    for t in by_index {
        s.push_str(" | ");
        s.push_str(&t);
    }
    s
}

macro_rules! per_parser {
    ($run:ident, $name:expr, $m:ident, $p:ident, $pa:ident, $pl:ident, $pb:ident, $Parser:ident, $Def:ident,
     $algo:ident, $builder:ident, $lexer:ident,
     states [$($st:ident),*], tokens [$($tk:ident),*], nonterms [$($nk:ident),*], prods [$($pk:ident),*]) => {
        pub fn $run(out: &mut String) {
            use $m::$p as g;
            let states: &[g::State] = &[$(g::State::$st),*];
            let tokens: &[g::TokenKind] = &[$(g::TokenKind::$tk),*];
            let nonterms: &[g::NonTermKind] = &[$(g::NonTermKind::$nk),*];
            let prods: &[g::ProdKind] = &[$(g::ProdKind::$pk),*];
            let token_names: &[&str] = &[$(stringify!($tk)),*];
            writeln!(out, "PARSER {}", $name).unwrap();
            writeln!(out, "NAMES State{}", [$(stringify!($st)),*].iter().map(|x| format!(" {x}")).collect::<String>()).unwrap();
            writeln!(out, "NAMES TokenKind{}", token_names.iter().map(|x| format!(" {x}")).collect::<String>()).unwrap();
            writeln!(out, "NAMES NonTermKind{}", [$(stringify!($nk)),*].iter().map(|x| format!(" {x}")).collect::<String>()).unwrap();
            writeln!(out, "NAMES ProdKind{}", [$(stringify!($pk)),*].iter().map(|x| format!(" {x}")).collect::<String>()).unwrap();
            writeln!(out, "DEFAULTS {} {}", g::State::default() as usize, g::TokenKind::default() as usize).unwrap();
            writeln!(out, "LAYOUT {}", match <g::State as StateT>::default_layout() {
                Some(s) => s as usize as i64,
                None => -1,
            }).unwrap();
            dump_definition::<g::State, g::ProdKind, g::TokenKind, g::NonTermKind, g::$Def>(
                &g::PARSER_DEFINITION, states, tokens, nonterms, prods,
                |s| s as usize, |p| p as usize, |t| t as usize, |n| n as usize,
                |p| g::NonTermKind::from(p), out);
            flush_out(out);
            per_parser!(@parse $algo $builder $lexer, $name, g, $Parser, token_names, out);
            writeln!(out, "ENDPARSER").unwrap();
        }
    };
    (@parse LR generic default, $name:expr, $g:ident, $Parser:ident, $tn:ident, $out:ident) => {
        for (i, input) in read_inputs($name).iter().enumerate() {
            if !begin_input($out, i) { continue; }
            let r = catch_unwind(AssertUnwindSafe(|| {
                match $g::$Parser::new().parse(input.as_str()) {
                    Ok(t) => {
                        let mut s = String::from("OK ");
                        sexp(input, &t, |p: $g::ProdKind| p as usize, |t: $g::TokenKind| t as usize, &mut s);
                        s
                    }
                    Err(e) => err_str(&e, $tn),
                }
            }));
            let r = match r { Ok(s) => s, Err(e) => format!("PANIC {}", panic_msg(e)) };
            writeln!($out, "RESULT LR {i} {r}").unwrap();
            flush_out($out);
        }
    };
    (@parse GLR generic default, $name:expr, $g:ident, $Parser:ident, $tn:ident, $out:ident) => {
        for (i, input) in read_inputs($name).iter().enumerate() {
            if !begin_input($out, i) { continue; }
            let r = catch_unwind(AssertUnwindSafe(|| {
                match $g::$Parser::new().parse(input.as_str()) {
                    Ok(f) => forest_str::<$g::State, $g::ProdKind, $g::TokenKind>(
                        input, &f, |p| p as usize, |t| t as usize),
                    Err(e) => err_str(&e, $tn),
                }
            }));
            let r = match r { Ok(s) => s, Err(e) => format!("PANIC {}", panic_msg(e)) };
            writeln!($out, "RESULT GLR {i} {r}").unwrap();
            flush_out($out);
        }
    };
    (@parse $a:ident $b:ident $l:ident, $name:expr, $g:ident, $Parser:ident, $tn:ident, $out:ident) => {};
}

include!(concat!(env!("OUT_DIR"), "/all.rs"));

fn main() {
    batch_main(run_all);
}
