#!/usr/bin/env python3
"""Regenerates MANIFEST.json from the table below (kept valid at all times)."""
import json
import os

HERE = os.path.dirname(os.path.dirname(os.path.abspath(__file__)))

NOTE = ("Trusted: Coq 8.16.1 kernel (vm_compute, no native_compute), no axioms (Print Assumptions re-run by every check); "
        "the dump hook and harness shim; the Gallina printers; the hand-written model mirrors the Rust functions named in "
        "DESIGN.md §5 and is tied to them by the correspondence run of each check (this run's cases only).")

CHECKS = {
    "C01": ("proof",
            "Coq theorems c01_iff / lr_complete / sentence_never_errors / lr_unique: for every grammar and table passing the "
            "verified checkers wf_grammar_b, sound_b, complete_b, the LR model accepts exactly the sentences (all inputs, no "
            "bound) and returns the unique derivation tree. The checkers are evaluated by the kernel on the real LALR and "
            "LALR_PAGER tables of every generated conflict-free grammar; the real LRParser is compared with the model on "
            "every input and with the statement itself (sentences accepted, non-sentences rejected, trees judged by the "
            "verified oracle derivation_b).",
            "machine-checked proof in Coq (LR completeness+soundness theorems over validated tables; kernel-evaluated "
            "validators on real tables; model/implementation correspondence)", "DESIGN.md §6 C01"),
    "C02": ("proof",
            "Coq theorem lr_sound (any table passing the verified checker sound_b, any input, any fuel, partial on/off) + "
            "partial_refines; sound_b evaluated in the kernel (vm_compute) on the real dumped table of every generated "
            "grammar (conflicts resolved by priorities/associativity/prefer-shift settings); real LRParser outcomes equal "
            "the Gallina model's on every input and every real tree is judged by the verified oracle derivation_b.",
            "machine-checked proof in Coq (validator soundness theorem + kernel-evaluated validator on the real table + "
            "model/implementation correspondence)", "DESIGN.md §6 C02"),
}

CHECKS["C13"] = ("proof",
    "Coq theorems position_after_ok / positions_chain_ok / start_position_ok (line = 1 + newlines before the offset, column "
    "= bytes since the line start, for every byte string and every chain of slices) and spans_ordered (meaning of the "
    "ordering checker). The span statements (token value = slice at its span, ordered leaf spans, node span = hull, "
    "empty node zero-width between its neighbours) are the Coq boolean spans_ok_b evaluated by the kernel on EVERY tree "
    "the real LR parser returns, and the byte-level Gallina model of the LR runtime + string lexer + layout parser "
    "reproduces every real outcome (trees with spans/layout/values, error positions); model_spans_ok: every tree the "
    "byte-level model returns passes spans_ok_b (all inputs, whitespace-skipping mode). The first three trees of every real "
    "GLR forest on the same grammars and inputs are judged by spans_ok_b too (one recorded finding: shared nodes of ambiguous "
    "forests). Partial: the model theorem does not cover the Layout-rule mode (decided by the checker on real trees and by "
    "correspondence); the GLR runtime has no byte-level model.",
    "machine-checked proof in Coq (position arithmetic theorems) + kernel-evaluated span checker on every real tree + "
    "byte-level model/implementation correspondence", "DESIGN.md §6 C13")

CHECKS["C15"] = ("proof",
    "Coq theorems lr_no_panic and lr_any_lexer_no_panic: for every table passing the verified checker safe_b, every "
    "input, every fuel, partial on/off, and EVERY lexer (any function of the whole configuration, e.g. a user lexer "
    "returning kinds the state does not expect or zero-length tokens) the LR runtime model never reaches an out-of-range "
    "index / unwrap / split; an unexpected kind surfaces as the error result (token level; the default lexer is proved to "
    "be an instance). safe_b and reduce_acyclic_b are evaluated by the kernel on the real table of every generated "
    "grammar; the real LRParser (default lexer and two custom lexers that ignore the expected set, each compared with "
    "its Gallina mirror under run_lex) and the real GlrParser are run on rendered and garbage UTF-8 strings under "
    "catch_unwind and a watchdog and must return Ok or Err; LR outcomes also equal the byte-level model's. Termination: "
    "lr_terminates / lr_total (token level, full parsing, default lexer): every table passing reduce_acyclic_b finishes "
    "within (4+|w|)*(4+2*states) turns with Ok or an error; tables failing it are exactly the recorded reduction-cycle "
    "finding. GLR side at table level: nlr_no_panic (no action of a cell makes the nondeterministic machine over a table "
    "passing safe_rn_b panic, from any reachable configuration), safe_rn_b evaluated on the real LALR_RN tables. Partial: "
    "termination with partial parsing, custom lexers and for GLR is only observed by the watchdog; the GSS code itself is "
    "not modelled; "
    "byte-slicing safety is decided by real runs and correspondence; stack/memory exhaustion cannot be exhibited by "
    "the model.",
    "machine-checked proof in Coq (panic-freedom theorem over validated tables, any lexer) + kernel-evaluated validators "
    "on real tables + real-runtime exploration under catch_unwind/watchdog", "DESIGN.md §6 C15")

CHECKS["C12"] = ("proof",
    "Coq theorem error_is_first_offender (token-level LR model, every table passing sound_b, complete_b and viable_b): an "
    "error at token k means (i) the k tokens before it begin some sentence (no late detection: error_prefix_viable) and "
    "(ii) no sentence begins with the first k+1 tokens (error_no_continuation; at the end of input: the input is not a "
    "sentence); plus sentence_never_errors, expected_nonempty, error_index_in_range. The validators are kernel-evaluated on "
    "the real tables; the real LRParser and the real GlrParser are run on mutated non-sentences rendered with random "
    "whitespace/newlines/multi-byte spaces and the reported byte offset, line/col and expected list are compared with an "
    "exact Earley viable-prefix oracle; LR outcomes also equal the byte-level model's. GLR side at table level: "
    "glr_positions_exact (the token counts the nondeterministic machine over a table passing sound_rn_b, complete_rn_b, "
    "viable_b can reach are exactly the lengths of the viable prefixes), validators evaluated on the real LALR_RN tables. "
    "Partial: that glr/parser.rs follows its table is exploration only; byte offsets/line/col rest on the byte-level "
    "correspondence and the position theorems of C13.",
    "machine-checked proof in Coq (first-offending-token theorem over validated tables) + kernel-evaluated validators + "
    "real LR/GLR runs against an Earley viable-prefix oracle", "DESIGN.md §6 C12")

CHECKS["C14"] = ("proof",
    "Coq lemmas lossless_checker_meaning (what the checker lossless_b states: the concatenation of layout ++ token text "
    "over the leaves equals the input up to the end of the last token) and skip_stores_whitespace_run (the model's "
    "whitespace skipping stores exactly the measured run and advances by its length). lossless_b and, under whitespace "
    "skipping, layout_is_ws_b are evaluated by the kernel on EVERY tree the real LR parser returns; with a Layout rule "
    "every stored layout is parsed by the separately compiled Layout sub-grammar; each valid token sequence is "
    "re-rendered with three different layouts and the real trees compared; the byte-level model (lexer, layout parser, "
    "save/restore around the re-lex) equals the real outcome on every input. Partial: the round trip is not yet a "
    "theorem about the model for all inputs (Proofs/RoundTrip.v), layout-insertion invariance is exploration.",
    "machine-checked proof in Coq (checker meaning + skip lemmas) + kernel-evaluated lossless checker on every real "
    "tree + byte-level model/implementation correspondence", "DESIGN.md §6 C14")

CHECKS["C04"] = ("translation_validation",
    "A Coq-verified checker compress_b (reflection theorem compress_sound; c04_validated) compares the real dumped table "
    "(unresolved cells, GLR algorithm) with a reference canonical LR(1) automaton built by a Gallina function whose "
    "correctness is proved (canon_is_canonical: least closures, goto, reachability, distinct states; own nullable/FIRST "
    "fixpoints proved correct), for every generated grammar x {LALR, LALR_PAGER, LALR_RN}: same cores, exactly the "
    "transitions, lookaheads = union over the represented canonical states (nothing lost, nothing invented), reductions "
    "iff some represented state reduces, right-nulled extras only at nullable suffixes, rn lengths least. Consequences "
    "proved from Compresses alone: lookaheads_are_lalr, no_invented_reduce, reduce_iff, lalr_grammar_no_conflict. The "
    "state correspondence is a relation (ordered-kernel twins exist), both roots (AUG and AUGL) are covered. Also: every "
    "grammar the reference says is LALR(1) must compile conflict-free in LR mode. Per grammar the comparison is complete "
    "over all states, items and lookaheads; grammars are generated.",
    "translation validation with a Coq-verified validator (reflection theorem) against a proved-correct reference "
    "canonical LR(1) construction, evaluated by vm_compute on every real table", "DESIGN.md §6 C04, reports/C04.md")

CHECKS["C06"] = ("proof",
    "Coq theorems over all terminal lists, priorities, match functions and flags: sort_stable_spec / sort_unique / "
    "sort_flags_spec (the model of sort_terminals is the unique stable sort by the key, with exactly the documented "
    "finish flags), lexer_lr_spec / lexer_glr_spec / lexer_lr_table (what TokenIterator + the parser-side filters yield "
    "equals the documented selection rule `select`, under the measured side conditions str_len_ok_b and range_ok_b), "
    "strlen_range_refuted (the sort-key range condition is necessary: recorded finding). sorted_ok_b is evaluated by the "
    "kernel on the sorted_terminals of every real dump (exact equality incl. finish flags); for random overlapping "
    "string/regex terminal sets x flags x {LR, GLR} every token the real parser shifted (and the set of GLR first tokens) "
    "is compared with `select` on the measured match table.",
    "machine-checked proof in Coq (lexical selection theorems) + kernel-evaluated sort correspondence on real tables + "
    "token-by-token comparison of the real LR/GLR runtimes with the verified rule", "DESIGN.md §6 C06")

CHECKS["C05"] = ("proof",
    "Coq theorems about the cell function of calculate_reductions, unbounded over grammars, priorities, flags and action "
    "lists: sr_cell_spec (a shift/accept cell receiving a reduction becomes exactly what the documented decision table "
    "`decide` prescribes: priority, then associativity with the terminal overriding the production, left/reduce keeps the "
    "reduction, right/shift keeps the shift, then prefer_shifts / prefer_shifts_over_empty unless nops / nopse), "
    "sr_prod_keyword / sr_term_keyword, sr_cell_general / sr_three_way, rr_cell_spec, shift_prio_is_max, resolve_subset "
    "(resolution only removes candidates), resolve_no_panic / state_no_panic / resolve_panic_sites. The model recomputes "
    "every cell of every real dumped table from its items (resolve_ok_b, kernel-evaluated), every real conflicting cell is "
    "judged by the independent spec, get_conflicts' count is compared with the cells; operator grammars: the real LR "
    "parser's tree equals the precedence-climbing reference on all operator strings up to 9 tokens (exploration).",
    "machine-checked proof in Coq (decision-table refinement of the resolution cell function) + kernel-evaluated "
    "recomputation of every real cell + real-parser operator-tree exploration", "DESIGN.md §6 C05")

CHECKS["C03"] = ("other",
    "PROVED in Coq (unbounded): forest_index_bijection (for every acyclic SPPF value Forest::solutions is the number of "
    "trees, get_tree(i) is the i-th tree, None at or beyond solutions, iteration = enumeration, no duplicates when no "
    "possibility list repeats a tree), elide normal form canonical, and a derivation-tree oracle all_trees proved sound, "
    "complete and duplicate-free, exact under the kernel-evaluated certificate saturated_b. NOT proved: that the RNGLR "
    "reducer/shifter reaches every derivation exactly once (a 40-page pen-and-paper result about a different formulation); "
    "that half is decided by exploration: for every generated in-scope grammar (acyclic_b, eps_unamb_b) and every input "
    "up to 6-7 tokens the REAL GlrParser's forest (solutions count, trees modulo elision, index/iteration/out-of-range "
    "behaviour) is compared inside Coq with the verified oracle, and the Gallina forest model applied to the dumped real "
    "SPPF must equal the real trees in index order. TABLE side (Model/NLR.v, the nondeterministic LR machine over the "
    "multi-action right-nulled table): nlr_sound, nlr_complete, nlr_exact - for every table passing sound_rn_b and "
    "complete_rn_b (kernel-evaluated on the REAL LALR_RN table of every compiled grammar) the accepting runs over an input "
    "are exactly its derivation trees; a lexical-ambiguity family splits the real forest by tokenization.",
    "machine-checked proof in Coq for forest enumeration and for the oracle; exploration of the real GLR runtime against "
    "that verified oracle for RNGLR completeness / no duplication", "DESIGN.md §6 C03, reports/C03-C07.md")
CHECKS["C07"] = ("other",
    "PROVED in Coq (unbounded): the comparison relation (equality modulo elided trailing empty children, spans and token "
    "values included) is an equivalence decided by a normal form; with lr_unique (C01) the LR tree is the unique "
    "derivation tree; tables_agree: for one grammar, an LR table passing sound_b/complete_b and a right-nulled multi-action "
    "table passing sound_rn_b/complete_rn_b (all evaluated on the REAL LALR_PAGER and LALR_RN tables of every grammar) - the "
    "nondeterministic machine over the GLR table accepts exactly what the LR machine accepts and its only result is the LR "
    "tree. NOT proved: that the GLR runtime enumerates the runs of its table (the unproved half of C03). Decided by "
    "exploration: for every generated conflict-free grammar both real runtimes (LRParser on the LALR_PAGER table, "
    "GlrParser on the LALR_RN table) run on the same valid and invalid inputs; same Ok/Err, one solution, trees equal "
    "modulo elision including byte/line/col spans and token values, equal error positions; trees compared inside Coq.",
    "exploration of both real runtimes with a Coq-proved comparison relation (verified-oracle exploration)",
    "DESIGN.md §6 C07, reports/C03-C07.md")

CHECKS["C18"] = ("proof",
    "Coq theorems over every existing actions file (hence every edit history) and every generator output (hence every "
    "grammar): regen_prefix (existing items kept in place untouched, only generator items appended), regen_forced, "
    "regen_adds_missing (exactly the missing items are appended), regen_complete, regen_idempotent, regen_no_dup_known / "
    "_refuted (no duplicates unless the generator itself emits one name twice: recorded finding). The model regen is "
    "compared by vm_compute with the item list the REAL Settings::process_grammar writes after every step of random edit "
    "histories (delete any subset, rewrite bodies, add user items, reorder; forced and unforced API spellings), and the "
    "statements are checked directly on the real files (prefix kept token-wise, second regeneration byte-identical).",
    "machine-checked proof in Coq (regeneration algebra) + model/implementation correspondence on real edit histories",
    "DESIGN.md §6 C18")
CHECKS["C17"] = ("other",
    "PROVED in Coq: cli_equals_api (for every environment and command line the Settings built by rcomp's setter chain "
    "equal those built by the documented API calls, panics included; the CLI model CliGen.v is REGENERATED from main.rs / "
    "settings.rs on every run and the theorems re-checked), setters_as_documented, cli_panics_iff, cli_flags_effective "
    "(no option wired to a wrong or negated setting), hash_order_irrelevant_known / _refuted (the only hash-iteration "
    "site, make_choices_name_unique, is order-independent outside an explicit clash class: recorded finding). NOT provable "
    "here: process-level determinism and clap's argv parsing; decided by exploration: a source scan for new hash-iteration "
    "sites, and for sampled (grammar, settings) the real rcomp binary and the API in three fresh processes with different "
    "processing orders must write byte-identical files.",
    "machine-checked proof in Coq for the CLI/API setting algebra (model regenerated from the source each run) + "
    "byte-level exploration of rcomp vs API in fresh processes", "DESIGN.md §6 C17")

CHECKS["C08"] = ("translation_validation",
    "PROVED in Coq (unbounded, every table passing enc_wf_b): arrays_roundtrip, functions_roundtrip, layouts_agree, "
    "prodkind_roundtrip/total/order: decoding the nested-array and the match-function encoding the generator writes "
    "answers every action, goto (undefined = the documented panic) and expected-token query exactly as the table; ProdKind "
    "discriminants are the rank among non-augmented productions. CHECKED on the real code, exhaustive per generated "
    "parser: the real generator runs from a build.rs, rustc compiles its output for grammars x {Arrays, Functions} x "
    "{LR, GLR}; EVERY state x token, state x nonterminal and state query of the compiled ParserDefinition (plus "
    "longest_match, grammar_order, default_layout, enum order and names) is compared with the hook dump made with the same "
    "Settings; the source text of PARSER_DEFINITION / the match functions (read back with syn) equals encode_* of the dump "
    "inside Coq; both layouts and the dynamic harness route parse the same inputs identically.",
    "translation validation of the generated code against the dumped table (exhaustive per parser) + Coq round-trip "
    "theorems + kernel-checked source-text/model equality", "DESIGN.md §6 C08, reports/C08-C10-C11.md")
CHECKS["C11"] = ("other",
    "rustc's type checker has no Gallina model; what is logic is proved: the choice-name de-duplication model "
    "(types/mod.rs make_choices_name_unique) is refuted (choice_names_unique_refuted) and proved duplicate-free outside a "
    "decidable clash class for every HashMap order (choice_names_unique_known), and tied each run to the generated AST "
    "enums. The rest is exploration: the real generator's output for generated grammars (recursive, optional, "
    "vector-shaped, unreachable rules, named assignments, kinds, keyword-like names) is type-checked by cargo check over "
    "96 configurations of {LR,GLR} x {Default,Generic,Custom builder} x {Arrays,Functions} x loc_info x fancy_regex x "
    "{default,custom lexer}, every parser constructed and called; a rustc rejection of an accepted grammar is a violation "
    "keyed by error code + generated item (16 recorded findings).",
    "exploration (cargo check of real generated code over the configuration product) + Coq proof for the name "
    "de-duplication logic", "DESIGN.md §6 C11, reports/C08-C10-C11.md")
CHECKS["C10"] = ("other",
    "PROVED in Coq: vec_in_order (for every derivation of a vector rule, in both recursion directions, the generated Vec "
    "actions yield the elements in input order), tied each run to the real values; ast_tokens_in_order_partial, ast_tokens_compositional, "
    "std_actions_keep_order_partial (Model/DefaultAst.v: every action-body shape the generator writes keeps its arguments' "
    "literals in order, hence the value of any derivation tree holds the content tokens in input order; the type deduction "
    "that picks the shapes is not modelled and this model is not run against the code). The other clauses (every content token exactly once across all type shapes, None iff absent, "
    "GLR replay incl. right-nulled reductions, loc_info) are exploration: compiled default-builder parsers (LR and GLR, "
    "loc_info on/off) are run and the string literals of the Debug rendering of the returned value are compared with the "
    "content tokens of the generic parse tree of the same input (order, count, spans, number of None).",
    "exploration of compiled real generated parsers against the generic tree + Coq proofs for the vector actions and the action-body shapes",
    "DESIGN.md §6 C10, reports/C08-C10-C11.md")

CHECKS["C09"] = ("proof",
    "Coq theorems over ALL grammar-file ASTs on which the builder model returns a grammar (and all check_identifier "
    "oracles): prod_index_is_position, start_is_first_rule, alt_one_production (non-helper productions in order = the "
    "alternatives in order with EMPTY removed), inline_string_resolves, meta_inheritance (own value, else the rule's, "
    "else the default, incl. associativity), helper_shared, sugar_language (each use X?, X*, X+, X+[S], X*[S] resolves to "
    "a helper with exactly the documented productions and exactly the documented language). The Gallina builder model "
    "(literal mirror of grammar/builder.rs incl. every error return and panic site) is compared field by field with the "
    "grammar the REAL compiler builds (hook dump) for generated files exercising every construct, error outcomes included.",
    "machine-checked proof in Coq (builder model theorems) + model/implementation correspondence on the real dump",
    "DESIGN.md §6 C09, reports/C09-C16.md")
CHECKS["C16"] = ("proof",
    "Coq theorems about the builder model: builder_no_panic_known (for every file whose AST has the parser's shape and "
    "which is outside the explicit decidable class KnownPanicClass = an integer literal above u32::MAX, build_grammar "
    "never reaches a panic site), builder_no_panic_refuted (witness for that class: recorded finding), builder_total (never "
    "out of fuel), known_class_panic_site. Partial: the grammar-text parser and the table/generator stages are not "
    "modelled; they are decided by exploration: a malformed/odd stream of grammar texts (token-level mutations, every "
    "syntax construct, keyword-like and reserved names, huge numbers, conflicts with priorities) through the real "
    "compiler x {LR,GLR} x table types x shift preferences and through the real rcomp binary; every outcome must be a "
    "parser or a diagnostic; a panic/timeout/crash is a violation keyed by panic site.",
    "machine-checked proof in Coq (panic-freedom of the builder model outside an explicit class) + exploration of the "
    "real compiler and rcomp on a malformed grammar stream", "DESIGN.md §6 C16, reports/C09-C16.md")

PENDING_REASON = ("not yet claimed: check under construction (DESIGN.md §6 describes the planned theorem, validator and "
                  "correspondence); it is registered only once it runs end to end")


def main():
    m = {
        "version": 1,
        "setup_cmd": "./setup.sh",
        "hooks": {
            "guard": "cargo feature `verif` of rustemo-compiler and of rustemo (off by default)",
            "enable": "CARGO_TARGET_DIR=/verif/.cache/target cargo build --offline --manifest-path /verif/harness/Cargo.toml "
                      "(the harness depends on rustemo-compiler with features=[\"verif\"])",
            "baseline_off_cmd": "cd /repo && cargo nextest run --workspace --no-fail-fast --tool-config-file "
                                "pb:/w/lib/nextest.toml --profile pb --test-threads 8 --offline",
            "source_commits": ["667db2c", "fc86d96"],
            "add_only": True,
        },
        "engines": [
            {"name": "coq", "path": "coq/", "serves_properties": sorted(CHECKS),
             "kind_free_text": "Coq 8.16 development: Spec (grammars, derivations, validators), Model (executable mirror of "
                               "the Rust code), Proofs, Properties (statements + Print Assumptions)"},
            {"name": "rv-harness", "path": "harness/", "serves_properties": sorted(CHECKS),
             "kind_free_text": "Rust harness: real compiler through the verif hook, real LRParser/GlrParser/StringLexer "
                               "driven by the dumped table, canonical outcomes"},
            {"name": "gen", "path": "gen/", "serves_properties": sorted(CHECKS),
             "kind_free_text": "Python drivers: generators, Gallina printers, correspondence, searches, evidence"},
        ],
        "checks": [],
        "not_applicable": [],
        "notes": "See DESIGN.md. Every check: hygiene grep of coq/, full coq make, Print Assumptions of its Properties "
                 "file, harness rebuilt from /repo's working tree, then validators + correspondence on this run's cases.",
    }
    for pid in sorted(CHECKS):
        cat, text, tech, ref = CHECKS[pid]
        m["checks"].append({
            "property_id": pid,
            "quick_cmd": "./check %s --tier quick" % pid,
            "thorough_cmd": "./check %s --tier thorough" % pid,
            "evidence_file": "/verif/evidence/%s.json" % pid,
            "replay_cmd_template": "./check %s --replay {path}" % pid,
            "engine": "coq",
            "level_claimed": {"category": cat, "text": text, "design_ref": ref},
            "level_note": NOTE,
            "technique": tech,
        })
    for i in range(1, 19):
        pid = "C%02d" % i
        if pid not in CHECKS:
            m["not_applicable"].append({"property_id": pid, "reason": PENDING_REASON})
    json.dump(m, open(os.path.join(HERE, "MANIFEST.json"), "w"), indent=1)


if __name__ == "__main__":
    main()
